#!/bin/bash
# MANIFEST.setup_cmd — offline release build of every harness binary (idempotent).
set -u
cd "$(dirname "$0")/harness"
export CARGO_NET_OFFLINE=true
cargo build --release --offline --workspace 2>&1 | tail -n 5
rc=${PIPESTATUS[0]}
# the libFuzzer targets (used by the thorough tier of C05 only): best effort, never fails the setup
( cd fuzz && cargo +nightly fuzz build --fuzz-dir . >/dev/null 2>&1 ) || echo "note: cargo fuzz build failed (thorough C05 will report inconclusive)"
exit $rc
