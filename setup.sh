#!/bin/bash
# MANIFEST.setup_cmd — offline release build of every harness binary (idempotent).
set -u
cd "$(dirname "$0")/harness"
export CARGO_NET_OFFLINE=true
cargo build --release --offline --workspace 2>&1 | tail -n 5
exit ${PIPESTATUS[0]}
