# mutants for the aggregator group (C14, C15): (name, file, old, new)
CS = "mithril-aggregator/src/services/certifier/certifier_service.rs"
BC = "mithril-aggregator/src/services/certifier/buffered_certifier.rs"
MQ = "mithril-aggregator/src/database/query/certificate/get_master_certificate.rs"

_insert = """        let certificate = self
            .certificate_repository
            .create_certificate(certificate)
            .await
            .with_context(|| {format!(
                "Certifier can not create certificate for signed entity type: '{signed_entity_type}'")
            })?;
"""
_update = """        let mut open_message_certified: OpenMessageRecord = open_message_record.into();
        open_message_certified.is_certified = true;
        self.open_message_repository
            .update_open_message(&open_message_certified)
            .await
            .with_context(|| format!("Certifier can not update open message for signed entity type: '{signed_entity_type}'"))
            ?;
"""
_mid = """
        #[cfg(mithril_verif)]
        crate::verif_hooks::crash_point("certificate:after-insert").await;
"""

MUTANTS = {
    "C15": [
        # the open message is flagged certified before the certificate is stored: a stop in between loses the round
        ("open-message-flag-before-certificate-insert", CS, _insert + _mid + _update, _update + _mid + _insert),
        ("handover-retry-removed", BC,
         "        if let Err(error) = self\n            .try_register_buffered_signatures_to_current_open_message(signed_entity_type)\n            .await\n        {\n            warn!(self.logger, \"Failed to register buffered signatures to the open message\";",
         "        if let Err(error) = async { StdResult::Ok(()) }\n            .await\n        {\n            warn!(self.logger, \"Failed to register buffered signatures to the open message\";"),
        ("buffer-emptied-before-handover", BC,
         "        let mut signatures_to_remove = vec![];\n\n        for signature in buffered_signatures {",
         "        let mut signatures_to_remove = vec![];\n        self.buffered_single_signature_store\n            .remove_buffered_signatures(discriminant, buffered_signatures.clone())\n            .await?;\n\n        for signature in buffered_signatures {"),
    ],
    "C14": [
        ("master-certificate-oldest-first", MQ, "order by certificate.ROWID desc", "order by certificate.ROWID asc"),
        ("expired-open-message-still-certified", CS,
         "        if open_message.is_expired {\n            warn!(\n                self.logger,\n                \"create_certificate: open message",
         "        if false && open_message.is_expired {\n            warn!(\n                self.logger,\n                \"create_certificate: open message"),
        # two cooperating sites: the state machine no longer drops an expired message, the certifier no longer refuses it
        ("expiry-ignored-by-state-machine-and-certifier", [
            ("mithril-aggregator/src/runtime/runner.rs", "        Ok(exists_newer_open_message || is_expired_open_message)", "        let _ = is_expired_open_message;\n        Ok(exists_newer_open_message)"),
            (CS, "        if open_message.is_expired {\n            warn!(\n                self.logger,\n                \"create_certificate: open message",
                 "        if false && open_message.is_expired {\n            warn!(\n                self.logger,\n                \"create_certificate: open message"),
        ]),
        ("metadata-lists-all-registered-signers", CS,
         "            .filter(|signer| signer_ids.contains(&signer.party_id))\n", ""),
    ],
}
