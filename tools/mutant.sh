#!/bin/bash
# tools/mutant.sh <Cxx> <file-in-repo> <sed-expression> : apply a sed mutation to /repo, run the quick check, restore.
# or: tools/mutant.sh <Cxx> --patch <patch.diff>
prop=$1; shift
cd /repo || exit 2
if [ -n "$(git status --porcelain --untracked-files=no)" ]; then echo "repo not clean"; exit 2; fi
if [ "$1" = "--patch" ]; then
  git apply "$2" || { echo "patch does not apply"; exit 2; }
else
  file=$1; expr=$2
  sed -i -E "$expr" "$file"
fi
if [ -z "$(git status --porcelain --untracked-files=no)" ]; then echo "MUTATION DID NOT CHANGE ANYTHING"; exit 2; fi
git diff --stat | tail -1
cd /verif && ./check "$prop" --tier quick 2>&1 | grep -v conda | grep -E "VIOLATION|KNOWN|INCONCLUSIVE|exit=|key=" | cut -c1-300
rc=${PIPESTATUS[0]}
git -C /repo checkout -- .
git -C /verif clean -fdq replays/ 2>/dev/null; git -C /verif checkout -q -- evidence 2>/dev/null
echo "mutant result: exit=$rc"
