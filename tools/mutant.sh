#!/bin/bash
# Sensitivity runs in isolation: a scratch worktree of /repo (HEAD) + a copy of the harness pointing at it.
#   tools/mutant.sh <Cxx> <file-relative-to-repo> <sed -E expression>
#   tools/mutant.sh <Cxx> --patch <patch.diff>
#   tools/mutant.sh <Cxx> --py <script.py> [args]     (script edits files under $MREPO, given as env MREPO)
#   tools/mutant.sh <Cxx> --none                      (unmutated control run in the scratch copy)
#   tools/mutant.sh --clean                           (remove the scratch copies)
# /repo and /verif/{evidence,replays} are never touched. Several runs may NOT execute concurrently with the same SLOT;
# set MUTANT_SLOT=<name> to get a private scratch copy (each slot costs a few GB of build output).
SLOT=${MUTANT_SLOT:-main}
BASE=/var/tmp/mv-$SLOT
export MREPO=$BASE/repo
MHARN=$BASE/harness
MROOT=$BASE/root
if [ "$1" = "--clean" ]; then
  git -C /repo worktree remove --force "$MREPO" 2>/dev/null; rm -rf "$BASE"; git -C /repo worktree prune; exit 0
fi
prop=$1; shift
mkdir -p "$BASE" "$MROOT"
if [ ! -d "$MREPO/.git" ] && [ ! -f "$MREPO/.git" ]; then
  git -C /repo worktree add --detach "$MREPO" HEAD >/dev/null 2>&1 || { echo "cannot create worktree"; exit 2; }
fi
git -C "$MREPO" checkout -q --detach "$(git -C /repo rev-parse HEAD)" 2>/dev/null
git -C "$MREPO" checkout -q -- . ; git -C "$MREPO" clean -fdq
case "$1" in
  --patch) git -C "$MREPO" apply "$2" || { echo "patch does not apply"; exit 2; } ;;
  --py) shift; python3 "$@" || { echo "mutation script failed"; exit 2; } ;;
  --none) ;;
  *) sed -i -E "$2" "$MREPO/$1" ;;
esac
if [ "$1" != "--none" ] && [ -z "$(git -C "$MREPO" status --porcelain --untracked-files=no)" ]; then echo "MUTATION DID NOT CHANGE ANYTHING"; exit 2; fi
git -C "$MREPO" diff --stat | tail -1
rsync -a --delete --exclude 'target*' --exclude 'fuzz/target' --exclude 'fuzz/corpus' /verif/harness/ "$MHARN/"
grep -rlE '/repo/' "$MHARN" --include=Cargo.toml --include='*.rs' --include=config.toml 2>/dev/null | xargs -r sed -i "s#/repo/#$MREPO/#g"
sed -i "s#/verif/harness/target#$MHARN/target#g" "$MHARN/.cargo/config.toml"
rm -rf "$MROOT"; mkdir -p "$MROOT"; cp /verif/known_findings.json "$MROOT/"; cp /verif/check "$MROOT/check"
[ -d /verif/corpus ] && ln -s /verif/corpus "$MROOT/corpus"
( cd "$MROOT" && VERIF_ROOT_DIR="$MROOT" VERIF_HARNESS_DIR="$MHARN" python3 ./check "$prop" --tier quick 2>&1 | grep -a -v conda | grep -a -E "VIOLATION|KNOWN|INCONCLUSIVE|exit=|key=|error" | cut -c1-400 )
git -C "$MREPO" checkout -q -- . ; git -C "$MREPO" clean -fdq
echo "mutant run finished (replays, if any, under $MROOT/replays)"
