#!/usr/bin/env python3
"""rewrites the thorough-tier record table of DESIGN.md §1.2 from `vp run` logs given as arguments (later logs win)"""
import re, sys
rows = {}
for f in sys.argv[1:]:
    for l in open(f, errors='replace'):
        m = re.match(r'^(C\d\d) \[thorough\] seed=\d+ evaluations=(\d+) distinct_nontrivial=(\d+) wall=([\d.]+)s exit=(\d+)', l)
        if m:
            rows[m.group(1)] = (int(m.group(2)), int(m.group(3)), float(m.group(4)), m.group(5))
p = '/verif/DESIGN.md'
s = open(p).read().split('\n')
for i, l in enumerate(s):
    m = re.match(r'^\| (C\d\d) \| [\d,]+ \| [\d,]+ \| \d+ s \| \d+ \|$', l)
    if m and m.group(1) in rows:
        e, d, w, x = rows[m.group(1)]
        s[i] = f"| {m.group(1)} | {e:,} | {d:,} | {round(w)} s | {x} |"
open(p, 'w').write('\n'.join(s))
print(sorted(rows))
