#!/usr/bin/env python3
"""Regenerates /verif/MANIFEST.json from the table below (kept in one place so it stays valid)."""
import json
import os

VERIF = os.path.dirname(os.path.dirname(os.path.abspath(__file__)))

ALL = [f"C{n:02d}" for n in range(1, 21)]

# property -> dict(category, text, note, technique, design_ref, engine)
CLAIMED = {
    "C01": dict(
        category="exploration",
        text="Honest aggregates (per-run pool of registrations: 1..6 parties, equal/random/2^60-vs-1 stakes, m<=10, phi incl. 1) are mutated by a 24-rule grammar over their JSON view (index sets, m-boundary values, not-won indices, signer slots, claimed key/stake, outsider keys carrying genuine signatures, sigma surgery incl. compensating pairs and points outside the prime-order group, Merkle batch-path nodes and indices), pushed through five wire paths (JSON, JSON-hex key, CBOR, bytes-hex key, harness-packed legacy bytes) and verified under the same or a foreign context (k+, m-, other phi/msg/avk); batches of 1..4 with one mutated member or a compensating pair. Oracle: an independent acceptance rule (>=k distinct indices, all < m, each won per the exact C08 reference lottery, each (key,stake) registered, each sigma valid via blst directly) evaluated on the object actually verified; batch accepted => every member accepted alone. Soundness against structural adversaries is what generated search can decide; it found and (after repair) guards two genuine defects; 5 of 5 seeded changes caught (two only after the grammar was extended).",
        note="Trusted base: blst BLS12-381, Blake2b, the interval-arithmetic lottery reference. Structural adversaries only (no forgeries). A panic inside verify counts as 'not accepted'. Claimed stakes are bounded by 4x total stake (larger values only slow the lottery down).",
        technique="property-based testing: mutation grammar over honest aggregates + independent acceptance-rule oracle (proptest)",
        design_ref="DESIGN.md §2 C01",
        engine="p-stm",
    ),
    "C02": dict(
        category="exploration",
        text="For pooled registrations, a base set S of honest signatures (subset, optionally index-restricted) gets 0..5 extras (exact copies, index-restricted copies, other-message signatures, wrong or unregistered signer slots, not-won indices, shifted sigma) inserted at generated positions, plus a second ordering. Oracle: reference coverage model U(S) = union of index sets of the valid members; |U| >= k => aggregation Ok and the aggregate verifies; Ok(S) => Ok(S'); order independence; no panic. Generated multisets are exactly the quantifier of the property; the check found and (after repair) guards two genuine defects.",
        note="Validity of a single signature is SingleSignature::verify under the party registered at its slot (soundness of that is C01/C08). Pool worlds are built without calling the aggregation under test.",
        technique="property-based testing: metamorphic + coverage-model oracle over generated signature multisets (proptest)",
        design_ref="DESIGN.md §2 C02",
        engine="p-stm",
    ),
    "C05": dict(
        category="exploration",
        text="Every entry point of a 32-row wire table (mithril-stm from_bytes incl. the legacy layouts, serde JSON, every ProtocolKey string codec in both orders, MKProof / MKMapProof bincode, OpCert bytes, API messages plus their conversion into entities) is fed honest encodings (two registrations, legacy layouts packed by the harness, the repository's golden key strings, Dummy messages) and 60k structure-aware mutations of them (truncation, every 8-byte big-endian field set to 0/1/+1/2^32/2^56-1/2^63/2^64-1, version byte, splices, CBOR length-header inflation, hex damage, JSON number extremes, array growth, type swaps, nested key strings, deep nesting) plus recursion-depth probes of the one recursive wire type (MKMapProof nested 10..200 000 levels, bincode and key string) run in sub-processes. In-check oracle: Ok or Err only (panics and, thanks to overflow checks, arithmetic overflows are caught), largest single allocation <= 64*len+16 MiB (counting global allocator), accepted input re-encodes to a fixed point, honest encodings accepted. libFuzzer targets over the same table (harness/fuzz) extend the search coverage-guided in the thorough tier. Found and (after repair) guards five genuine defects (the fifth, a stack overflow on nested MKMapProof sub-proofs, after a seeding sub-agent's remark).",
        note="Harness built with overflow checks + debug assertions (an overflow is a panic here, a silent wrap in production). An allocation the OS refuses aborts the process: the driver then reports exit 2 (inconclusive), the libFuzzer layer pins such inputs as crash artifacts. Random byte strings without structure are left to the fuzz targets.",
        technique="property-based testing + fuzzing: structure-aware mutation of honest encodings (proptest) and libFuzzer targets with in-target round-trip oracle, counting allocator",
        design_ref="DESIGN.md §2 C05",
        engine="p-stm",
    ),
    "C06": dict(
        category="exploration",
        text="Non-empty subsets of 12 KES-certified fixture signers with generated stakes (incl. equal stakes) and parameters; three independent permutations of the registration order. The aggregate key is computed by the mithril-stm library under two arrival orders, by SignerBuilder (the path signer and aggregator nodes use) on the JSON round-tripped signer list, and by the client's MessageBuilder on the JSON round-tripped stake-distribution message; the key itself goes through json-hex and bytes round trips; one party's node-path signer signs and its slot and signature are checked against the library path; total stake = sum; removing a party, stake +-1 or swapping two unequal stakes must change the key; rejected re-registration attempts, a second pool claiming a registered key and one more party whose key is the opposite point of a member's key (secret key r - sk) are part of the arrival histories. A differential between independent computation paths under generated orders is exactly what the statement quantifies over.",
        note="Key material: the repository's deterministic fixture builder (12 certified signers); apart from opposite points, shared-prefix BLS keys cannot be manufactured. The aggregator/signer services that wrap SignerBuilder are exercised end-to-end by C14/C20, not here.",
        technique="property-based testing: differential between computation paths and registration orders + metamorphic distinctness (proptest)",
        design_ref="DESIGN.md §2 C06",
        engine="p-stm",
    ),
    "C07": dict(
        category="exploration",
        text="A per-run pool of 24+4 pool operators (ed25519 cold key, KES Sum6 key with all 64 evolution snapshots, BLS key + proof of possession). A registration is a record of raw bytes rewritten by 0-3 of 24 grammar mutations (every opcert field without and with re-signing by the own/other/fresh cold key; KES signature flipped, borrowed or re-made at any evolution over 7 payload variants; announced evolution e+-4, 0, 62..66, >2^32, u64::MAX, missing; vk / PoP / k1 / k2 replaced with and without KES re-certification; claimed party id altered). Section rounds: 1-5 attempts into one KeyRegWrapper::register incl. byte-exact repeats and the same key re-certified by another pool, then close(); section aggregator-verifier: the real MithrilSignerRegistrationVerifier with a harness chain observer. Oracle: every conjunct of the acceptance predicate recomputed from the submitted bytes with primitives independent of mithril (dalek on the rebuilt opcert message, KES verify over periods 0..=63, blst PoP check, Blake2b-224 + own bech32, own set of registered keys); accept => all conjuncts; recorded party id = derived id; recorded stake = distribution[derived id]. 26 required classes; 11 mutants caught; found one genuine defect (repaired).",
        note="Trusted: ed25519-dalek, kes-summed-ed25519 (periods 0..63), blst, Blake2b; structural adversary only; production features (certification mandatory); the aggregator's store-level duplicate handling is not driven.",
        technique="property-based testing: mutation grammar over raw registrations + independently evaluated conjunct oracle (proptest)",
        design_ref="DESIGN.md §2 C07",
        engine="p-common",
    ),
    "C08": dict(
        category="exploration",
        text="The working tree's eligibility.rs is compiled into the harness (path inclusion) and compared on 20k generated (phi, stake, total, draw) tuples with an exact reference: fixed-point interval arithmetic (704 fractional bits, directed rounding, rigorous Taylor remainder) around e^x, with draws concentrated at threshold +- 2^s; 8k monotonicity pairs (stake grows / draw shrinks) at every distance down to +-1; 1k public-API worlds where the signer's claimed index set and the verifier's verdicts are compared with the reference on the real Blake2b draws. A differential against an exact reference with threshold-concentrated inputs is the strongest decision this family offers for a numeric comparison; it found and (after repair) guards a genuine defect.",
        note="ln(1-phi) is taken from the platform f64 ln (as the implementation does) and enclosed by +-2^-50 relative: draws inside that enclosure (about threshold +- 2^462 of 2^512) are the negligible band and are not judged against the reference (monotonicity and determinism are still checked there). phi = 1-2^-53 and (phi=1, stake=0) are outside the domain.",
        technique="property-based testing: differential against an exact interval-arithmetic reference, threshold-concentrated generators, metamorphic monotonicity pairs",
        design_ref="DESIGN.md §2 C08",
        engine="p-stm",
    ),
    "C09": dict(
        category="exploration",
        text="Three structures. (A) signer-registration batch tree through AggregateSignature::verify: EVERY tree size n<=6 (9 thorough) with EVERY non-empty leaf subset, each with a systematic mutation list (every entry to every other registered party / outsider / stake+1; every stated position to every other position, n, u64::MAX, duplicated, swapped; path nodes flipped, dropped, duplicated, swapped; foreign root) plus sampled n<=40. (B) MKTree/MKProof: every n<=8 (10) with every subset and a fixed mutation set, honest completeness and level-up forgeries for every n<=33, 6k sampled proofs up to n=300 under a 14-rule grammar on the proof's serde view. (C) block-range MKMap of 1..8 trees: master/sub proof mutations, sub-proofs detached, swapped, re-keyed, duplicated, foreign. (E) map proofs nested 1..32 levels deep (the decoder's limit), honest and with the innermost proven leaf replaced, through to_bytes/from_bytes. (D) byte / structure level over 12 fixed committed trees (1-21 leaves): 60k byte-mutated bincode encodings and 120k structure-aware edit lists (the input format of the libFuzzer target fuzz_mkproof, which runs coverage-guided in the thorough tier with the same in-target oracle; its artifacts are judged in-process). Oracle: completeness (proof verifies, contains its selection, survives bytes round trip) and soundness (an object verifying against the committed root vouches, via contains over a probe set of all leaves, injected values and internal nodes, only for committed leaves at their positions/keys). The exhaustive part decides small trees completely; the sampled part reaches MMR peak shapes. Found one exploitable defect (repaired) and three structural findings (listed as known findings).",
        note="Hash functions are assumed collision resistant; structural manipulations only. 'Vouches' is measured over the probe set. Known findings (no leaf/node/bagging domain separation in MKTree, size not bound) are matched by exact key and witnessed on every run; all other classes stay enforced.",
        technique="property-based testing + fuzzing: exhaustive enumeration of small trees x subsets x systematic mutations, proptest mutation grammar, byte- and structure-level libFuzzer target with in-target membership oracle",
        design_ref="DESIGN.md §2 C09",
        engine="p-stm",
    ),
    "C10": dict(
        category="exploration",
        text="4000 honest databases per quick run (1-8 immutable trios plus the in-progress trio, equal and empty contents included), the certified side built by the real digester and cross-checked against a harness SHA-256/MMR restatement, the digest list served over file:// to a real ClientBuilder client; 0-3 tamperings of the restored directory (flip, truncate, append, delete, file replaced by a directory / dangling link / link to a file with the same or other content, replace, swap, copy-over, rotate extensions, foreign files of 7 kinds) and 0-2 of the served list (reorder, add, duplicate, rename keeping order, drop, swap digests or names, flip a digest, conflicting duplicate, empty) plus a coordinated scramble; ranges Full/From/UpTo/inner/single/invalid and allow_missing both ways; then the CLI sequence download_and_verify_digests -> verify_cardano_database -> compute_cardano_database_message -> match_message. Oracle: acceptance judged per file NAME against harness SHA-256, accepted digests reproduce the signed root, every offending name reported on rejection, positive control. Found three genuine defects (repaired); 3 of 3 seeded changes caught.",
        note="Certificate authenticity assumed (dummy certificate carrying the real signed-message hash) and the snapshot message's beacon taken as honest (the signers' message does not cover it: a list shifted uniformly together with a lying beacon is outside the statement's quantifier); immutable numbers below 100000; SHA-256 collision resistance; certified side built by the real digester and cross-checked.",
        technique="property-based testing: mutation grammar over honest artefacts + independent per-name acceptance oracle + positive control (proptest)",
        design_ref="DESIGN.md §2 C10",
        engine="p-fs",
    ),
    "C11": dict(
        category="exploration",
        text="The honest side is the production path: DumbBlockScanner -> real CardanoChainDataImporter -> real sqlite repository; signed messages from the real signable builders; proofs from the real legacy and v2 prover services; responses assembled as the HTTP routes do. Per-run pool of 200 chains, 6 queries per format. The response JSON (incl. the decoded MKMapProof) is rewritten by 1-2 of 34 tamperings (incl. set-proof lists rebuilt slot by slot from own and foreign proofs, altered duplicates of genuine items placed after / before / at the end) and verified against the matching certificate, the other-format certificate or a foreign-chain certificate through the documented client flow (verify(), MessageBuilder::compute_*, match_message). Oracle on acceptance: right entity type, recomputed parts equal the signed parts, block number and offset equal the signed ones, every set proof under the signed root, every reported item field-for-field in the generated chain at or below the beacon; Cardano and Mithril stake distributions by map equality. 10 mutants caught; three leaf-encoding ambiguities are carried as narrow open known findings with witnesses.",
        note="Certificate authenticity assumed (C03); hash collision resistance; MMR internal-node confusions belong to C09. Known findings are matched by exact re-cut classes and steered around (excluded_known).",
        technique="property-based testing: response tampering grammar over honest prover output + ground-truth oracle (proptest)",
        design_ref="DESIGN.md §2 C11",
        engine="p-common",
    ),
    "C12": dict(
        category="exploration",
        text="About 8000 generated databases per quick run: a canonical name->content map (1-10 trios, sizes 0-140 KB, equal contents, numbers straddling 99999/100000) written in 2-3 on-disk materialisations differing in creation order, directory handed over, extra files (non-immutable names, look-alike sub-directories, files beside immutable/, trios beyond the beacon) and digest-cache history (none / memory / JSON: absent, empty, corrupt; warm from the same, a longer or a shorter run; database grown between runs; partial fill; entries for vanished names); every computation (compute_merkle_tree, compute_digests_for_range, the signable builder) compared with an independent restatement (own name parsing, (number,name) order, SHA-256 per file, own MMR root with Blake2s pinned by the repository's golden root) and across materialisations; a second section applies one perturbation to a cache-less database and requires the root to change (or NotEnoughImmutable) exactly when the covered name->content map changed.",
        note="Trusted: RustCrypto SHA-256/Blake2s and the MMR definition. Domain: one `immutable` directory, decimal stems, files unchanged after digesting; a stale cache after a file change is outside the statement.",
        technique="property-based testing: differential vs reference model + metamorphic (layout/cache invariance, perturbation sensitivity), stateful cache histories (proptest)",
        design_ref="DESIGN.md §2 C12",
        engine="p-fs",
    ),
    "C03": dict(
        category="exploration",
        text="Per-run pool of 400 honest chains (1-6 epochs, 1-3 certificates per epoch, constant or rotating per-epoch signer worlds with real STM keys, own genesis key) served by an untrusted provider that applies 0-3 generated tamper operations and owns an adversary signer world and genesis key: any field altered with/without re-hash and with/without re-synchronised signed message, certificates re-signed by the adversary / by another epoch's honest world / under the honest parameters / by the honest signers under laxer parameters of the provider's choice (phi_f = 1, with the parent's unsigned metadata rewritten to match), whole forks re-signed consistently (with the honest parent served under an altered commitment, a fake epoch boundary, re-hashed or not), links re-targeted (same / previous / next / older epoch, genesis), drop, duplicate, serve-for-wrong-hash, serve-ancestor-for-parent, self-loop, genesis under another key, standard-as-genesis and genesis-as-standard. 8000 single verifications (mithril_common verify_certificate_chain and the client's verify_chain without cache) and 3000 client histories of 2-4 verify_chain calls sharing one real verifier cache while the provider changes its answers in between. Oracle: a literal transcription of the statement (bounded walk over everything the provider ever served; hash, signed message, epoch part, multi-signature under own key and parameters, the two link rules, genesis under the configured key via dalek directly); violation = accepted and the reference finds a failing clause. Found three genuine defects (repaired); 12 of 13 mutants caught, the 13th is equivalent on the repaired tree.",
        note="Trusted: SHA-256 / certificate hash (C04), STM aggregate verification (C01), Ed25519 verify_strict, key codecs (C05). Structural adversary with its own keys; cannot sign with honest keys. Provider and cache calls are budgeted so that a looping verifier ends as 'not accepted' (a hang would be exit 2).",
        technique="property-based testing: tamper grammar over honest chains served by an adversarial provider + reference chain validator; stateful cache histories (proptest)",
        design_ref="DESIGN.md §2 C03",
        engine="p-common",
    ),
    "C04": dict(
        category="exploration",
        text="120k certificates generated field by field (genesis / standard, every signed entity type with boundary beacons, metadata strings incl. empty / shared prefixes / escapes / values differing only in letter case, 0-6 signers, timestamps over the whole i64-nanosecond range, phi_f incl. every fixed-point rounding tie and its neighbours, real keys and signatures from a per-run pool of honest chains) each with ONE generated change of one field: the two hashes must differ exactly when the harness-side canonical forms differ (phi_f compared at U8F24). 60k protocol-message pairs over the honest value grammar related by boundary moves, drop / add / swap / re-key of parts: different maps => different digests. 40k wire round trips Certificate -> CertificateMessage -> JSON text -> re-serialised text (field order, whitespace, number formatting, escapes, optional fields absent / null) -> Certificate: stored and recomputed hash, signed message and the verdicts of the real verifier are preserved. Genesis signatures are arbitrary 64-byte strings turned into Ed25519 signatures without the key codec under test. Found one genuine defect (repaired: float round trip); the two documented discriminant collisions are open known findings with witnesses; 8 of 8 hash mutants and 6 of 6 seeded changes caught.",
        note="Trusted: SHA-256, hex / JSON key codecs (C05), STM / Ed25519 verification. ancillary prover/verifier data are uninhabited without the future_snark feature (absent vs null is exercised on the wire). Protocol message values inside the honest grammar only.",
        technique="property-based testing: single-field perturbation (injectivity), boundary-move pairs, JSON re-serialisation round trips (proptest)",
        design_ref="DESIGN.md §2 C04",
        engine="p-common",
    ),
    "C13": dict(
        category="exploration",
        text="1000 generated histories per quick run (<= 25 operations: extend the chain, switch to a fork chosen by selector - shallow, anywhere, below the highest stored block, at a block-range boundary +-1, at / before the first stored block - import up to a target derived like the callers do (both signing configurations, preloader, tip, same again) optionally with a chain switch DURING the import and / or a store failure at the j-th mutating call followed by a restart, restart) against both production wirings - the signer's (chunking + pruning decorators) and the aggregator's (bare importer) - of the real CardanoChainDataImporter + CardanoBlockScanner / ChainReaderBlockStreamer + the signer's sqlite repository on disk + both signable builders, fed by SimNode, a chain-sync follower model validated first against the repository's FakeChainReader scenarios. Oracle after every successful import: stored blocks, transactions and both block-range-root tables equal (1) an independent harness recomputation from the model chain and (2) a fresh database that imported the canonical chain once; Merkle roots of both signable builders at the target and at earlier aligned beacons equal the fresh ones. Found two genuine defects (repaired) and two that are open known findings with witnesses; 3 of 3 seeded changes caught (one only after the bare wiring was added).",
        note="Trusted: MKTree / MKMap for the root recomputation; sqlite transaction atomicity; chain switches never shorten the chain; with pruning no switch deeper than the blocks kept. Targets are non-decreasing and <= tip (callers' rule); the two open findings are steered around except through the `Same` selector.",
        technique="model-based stateful property-based testing: generated roll-back / restart / fault histories on the real importer, chain-sync environment model, from-scratch differential oracle (proptest)",
        design_ref="DESIGN.md §2 C13",
        engine="p-chain",
    ),
    "C14": dict(
        category="exploration",
        text="The real aggregator (DependenciesBuilder as the repository's integration tests assemble it: real state machine, certifier, buffered certifier, epoch service, signer registration, multi-signer, sqlite on disk, HTTP router, message-queue processor; chain / immutable / block doubles of the repository) driven by 10 scripted + 400 generated histories per quick run: deployment start, 2-4 epoch blocks with registration all / some / nobody / rotated keys / late / ahead, signing rounds by subsets over HTTP or the queue for current, superseded, not-yet-open (buffered) or unknown entities with valid, duplicate, wrong-message, next- or previous-epoch-key signatures, expiry (of every entity type while it is being signed), restarts, multi-epoch jumps, chain roll-backs that return to an earlier beacon, operator re-genesis. After EVERY cycle and operation: I1 every new certificate and its chain verify with a fresh mithril_common verifier and with the mithril-client verifier on the HTTP view; I2 aggregate key, next key, parameters, signed message, epoch part equal what the harness derives from ITS OWN registration history with mithril-stm, the multi-signature verifies, listed signers and lottery indices come from valid submissions the harness made (quorum reached); I3 parent = first certificate of its epoch / of the previous one by the harness' insertion record; I4 no entity certified twice; I5 no certificate after a skipped epoch until re-genesis; I6 an expired message is never sealed.",
        note="Model of epoch offsets hard-coded from the protocol description and validated on scripted honest histories; signer stakes and parameters constant within a history; the artifact task always finishes before the next event (its interruption is C15); interleavings at the granularity of harness operations.",
        technique="stateful property-based testing: generated event histories on the real aggregator, invariants checked after every step against an independent registration / key model (proptest)",
        design_ref="DESIGN.md §2 C14",
        engine="p-aggregator",
    ),
    "C15": dict(
        category="fault_enumeration",
        text="Ten named crash points (cfg-guarded hooks in /repo: before / after the certificate insert, after the open-message update, before / after artifact computation, after the signed-entity insert, after the open message is created, after each buffered signature is handed over, before / after the buffer is emptied). An armed point parks the running future; the harness drops the aggregator where it stands, shuts its tokio runtime down (all spawned tasks die, no error handling or shutdown code runs) and boots a new aggregator on the same directories. Quick: one scripted and one generated history (deployment start + 2-3 epoch blocks with partial rounds, early = buffered signatures, clean restarts, expiry, both inlets) are stopped at EVERY (crash point, occurrence) their crash-free twin executes, plus two-stops-in-a-row variants, plus 128 sampled (history, point, occurrence, second stop, 0/1/3 cycles after restart) cases; thorough: 62 histories enumerated + 6000 sampled. Oracle right after the restart, after the healing cycles, after a recovery round and at the end of the history + a healthy three-epoch epilogue: O1 every stored certificate verifies and reaches genesis (mithril_common verifier on all, mithril-client verifier on the newest and on re-certified ones), O2 no signed entity has two artifacts, O3 every artifact references a stored certificate of exactly that entity, O4 progress as a differential with the crash-free twin under sign-once signers (entities of the final time point certified / with artifact in the twin must be so in the crashed run; not blocked by an epoch gap unless the twin is). Found one genuine defect (repaired); 3 of 3 mutants caught.",
        note="A stop is modelled at the ten hook points only (between sqlite statements, each of which is durable once executed); OS-level torn writes are out of scope. Signers never repeat an acknowledged submission. Progress is bounded by the fixed epilogue and judged relative to the twin only.",
        technique="fault injection by enumeration of (crash point, occurrence) over generated histories on the real aggregator + sampled property-based cases; post-restart invariants and twin differential (proptest + cfg-guarded hooks)",
        design_ref="DESIGN.md §2 C15",
        engine="p-aggregator",
    ),
    "C16": dict(
        category="exploration",
        text="Rounds on the real aggregator (same system as C14) with 3-6 signers, a generated honest subset and 6-16 operations; the others submit everything a peer can: {own, other registered, unregistered name} x {own signature, copy of another party's} x {valid, wrong message, next / previous epoch key, duplicate} x {matching, truncated, extended index list} x {HTTP route, message-queue processor} x {open message exists, not yet = buffer}, in generated order relative to the honest submissions; plus the enumerated label x signature x inlet product on a 3-signer system. After every step every stored row is re-verified with mithril-stm against the key the LABELLED party registered (harness model); an honest party's stored row must stay its own signature; one signature under two names, a replaced honest row, a certificate listing a party without a valid signature of its own key, a blocked quorum although honest signatures suffice, and a panic of a request handler or of the state machine are violations. Found one genuine defect with four faces (repaired); the mutant that removes the repair is caught under all four keys.",
        note="The message queue authenticates the sender (party id = sender) and rebuilds the index list, as SignatureConsumerDmq does; stakes and parameters constant over a history.",
        technique="stateful property-based testing: generated + enumerated (label, signature, inlet, order) submissions on the real aggregator, party -> key attribution model (proptest)",
        design_ref="DESIGN.md §2 C16",
        engine="p-aggregator",
    ),
    "C17": dict(
        category="exploration",
        text="Exhaustive walk of every (security parameter <= 40, step <= 40, tip <= 200) triple for both entity kinds plus 60k generated (tip, tip+delta, k, step, epoch) cases at the numeric boundaries (0, 1, block-range length +-1, 2^32+-1, 2^62, u64::MAX tips); each clause of the statement (margin, monotone, whole steps, complete block range, purity across independently built / JSON round-tripped configs, and the beacon of one entity type being the same whatever the other transactions-like type is configured with: other parameters or absent) is an executable oracle. Arithmetic on a three-parameter integer function is exactly where a small exhaustive box plus boundary sampling is decisive.",
        note="Assumes configuration values < 2^63 and epochs < 2^62 (operator configuration / realistic chain data). Trusted base: the harness's u128 re-statement of the clauses.",
        technique="property-based testing: exhaustive small box + proptest boundary generators against an arithmetic oracle",
        design_ref="DESIGN.md §2 C17",
        engine="p-common",
    ),
    "C18": dict(
        category="exploration",
        text="Layer 1: 50k model-checked op sequences (acquire, give back item, drop, refresh exactly as compute_cache does it, raw give-backs, reset, count; pool sizes 1-4, real 1 ms timeouts) on the real crate. Layer 2: 100k generated (scripts, interleaving) schedules of the working tree's resource_pool.rs recompiled against shuttle's Mutex/Condvar by a build script (refuses, exit 2, if the sync import is not found exactly once or an unmodelled primitive appears); the interleaving is generated choice data consumed by a custom scheduler, so replays are exact and shrinking minimises preemptions; timeouts are modelled by a timer task. Layer 3: 6000 generated histories of the aggregator's two real provers (MithrilProverService and LegacyMithrilProverService, pool sizes 1-3) over harness chain data that is rolled back and re-imported: proof computations are held in flight at their first leaf lookup (harness Merkle-tree storer), and compute_cache itself is held at its k-th log record (harness logger: start, each parallel clone, drain, refill, completion) while chosen in-flight computations end; every proof started after a completed refresh must carry the Merkle root the harness computes from the data of that refresh. Oracle of layers 1-2: the statement itself, evaluated from harness-side generation tags and drop hooks (stale resource served / re-admitted, count > size, waiter still blocked at quiescence with a non-empty pool, deadlock, panic). Found three genuine defects (repaired); silent on the repaired tree, exits 1 on 8 mutants and on 6 of 6 seeded changes.",
        note="Trusts shuttle 0.9.3 Mutex/Condvar semantics and the textual rewrite of the sync import; one refresher at a time; timeouts fire only at quiescence; sequentially consistent interleavings at lock/wait/notify granularity (weak-memory effects out of scope). Concurrency is sampled, not exhaustive.",
        technique="property-based testing: model-based op sequences + controlled-schedule concurrency testing (source recompiled against shuttle, generated schedules)",
        design_ref="DESIGN.md §2 C18",
        engine="p-pool",
    ),
    "C19": dict(
        category="exploration",
        text="About 4000 real download_unpack calls per quick run (real ClientBuilder client, real HttpFileDownloader with the tar/zstd/gzip unpacker wrapped in the default retry stack, real AncillaryVerifier with a harness ed25519 key) against harness mirrors behind file:// locations (about 6% over a loopback HTTP server for the streaming branch). Archives come from a raw tar writer: 22 kinds of immutable-archive extras (ledger/, volatile/, top level, nested, marker shadowing, numbers outside range / beyond beacon, absolute and .. paths, symlinks, hardlinks, GNU long names, unusual entry names: not valid UTF-8, hidden, blanks, backslash, other letter case, control and multi-byte characters; truncated tar, cut compressed stream), 10 ancillary extras, 14 manifest alterations (among them a listed path respelled: separator, letter case, trailing blank, served under that spelling with the genuine signature; the last byte of a listed file changed); listed files are tens of bytes long, sometimes just over 64 KiB or 2 MiB (the read-buffer sizes of the hashing code); faults: missing location, corrupt/truncated archive, blocked final move, second mirrors, and a FIFO-synchronised abort while the ancillary download is provably in flight. Oracle: an independent containment rule on the resulting directory tree from harness bookkeeping (new files must be requested-range trio names, markers with the exact content after Ok, or (path, sha256) pairs of the one manifest the harness signed; nothing of the ancillary archive after a failed verification; user files and the sentinel parent untouched; honest downloads deliver exactly the expected files). Ten mutants caught; five finding classes are open known findings.",
        note="Trusted base: the harness signer stands for the ancillary key holder; the snapshot message shape is honest; tar/zstd/flate2 crates as shipped. Interleavings of parallel downloads are sampled only through the sequential order plus one synchronised abort schedule. Empty directories are ignored.",
        technique="property-based testing with fault injection: generated hostile tar/zstd/gzip mirrors, directory-tree containment oracle, signed-manifest bookkeeping, FIFO-synchronised abort injection (proptest)",
        design_ref="DESIGN.md §2 C19",
        engine="p-fs",
    ),
    "C20": dict(
        category="exploration",
        text="The real signer (state machine, runner, certifier with the production delayer/retrier/http publisher chain, single signer, epoch service, sqlite stores on disk, upkeep, KES keys from the repository fixture) talks through the real AggregatorHttpClient to a harness-owned loopback axum aggregator that records every register-signer / register-signatures request with the chain epoch at receipt, is scripted per op (down for n requests, stale epoch settings, round closed, publish failures, and the chain moving to the next epoch while the answer to the signer's next request of a chosen route is in flight, i.e. INSIDE a cycle); a 'ghost' pool with stake in the aggregator's view only can register (progress clauses are suspended while it is announced, acceptance is not) and never calls the offset helpers under test (offsets hard-coded from the protocol description). 24 canonical + about 600 generated histories per quick run (3-6 epochs, <=40 ops: ticks, epoch changes, chain progress, faults, others registering subsets, restarts on the same stores; stakes and parameters change every epoch so a wrong offset changes keys) with a healing epilogue. Oracle: at most one acknowledged publication per (entity, beacon); every signature verifies under the harness-derived signer set / stakes / parameters of the registrations acknowledged in E-2 with the key registered then, and its message seed equals the harness derivation; no signature before eligibility; bounded progress of signing (after restart and in every undisturbed window) and of registration (healthy aggregator => a registration acknowledged in the epoch within the cycles needed + 2). Found one genuine defect (repaired: epoch change between the epoch check and the registration transition). 14 of 15 mutants caught (the 15th is equivalent in the domain); seeded changes: see SENSITIVITY.md (one needs the aggregator ahead of the signer's node, outside the generated domain).",
        note="Trusted: mithril-stm/mithril-common crypto and key registration, the repository's chain/immutable/scanner/digester doubles, entity-specific message parts, phi_f = 1 (signer keys come from OsRng). Crashes happen only between cycles; epoch changes inside a cycle happen right after an aggregator answer; faults mean 'request not processed' (no lost acknowledgements); progress clauses assume acknowledged registrations in E-2 and E-1.",
        technique="stateful property-based testing: generated fault histories on the real signer, scripted recording fake aggregator, model-based oracle with hard-coded protocol offsets (proptest)",
        design_ref="DESIGN.md §2 C20",
        engine="p-signer",
    ),
}

PENDING_REASON = "check not built yet in this round (planned, see DESIGN.md §5 build order); not claimed until its harness exists and has passed its sensitivity mutants"

NOT_APPLICABLE = {}


def main():
    checks = []
    for pid in ALL:
        if pid not in CLAIMED:
            continue
        c = CLAIMED[pid]
        checks.append(
            {
                "property_id": pid,
                "quick_cmd": f"./check {pid} --tier quick",
                "thorough_cmd": f"./check {pid} --tier thorough",
                "evidence_file": f"/verif/evidence/{pid}.json",
                "replay_cmd_template": f"./check {pid} --replay {{path}}",
                "engine": c["engine"],
                "level_claimed": {"category": c["category"], "text": c["text"], "design_ref": c["design_ref"]},
                "level_note": c["note"],
                "technique": c["technique"],
            }
        )
    na = []
    for pid in ALL:
        if pid in CLAIMED:
            continue
        na.append({"property_id": pid, "reason": NOT_APPLICABLE.get(pid, PENDING_REASON)})
    engines = {}
    for pid, c in CLAIMED.items():
        engines.setdefault(c["engine"], []).append(pid)
    manifest = {
        "version": 1,
        "setup_cmd": "./setup.sh",
        "hooks": {
            "guard": "--cfg mithril_verif",
            "enable": "harness/.cargo/config.toml passes rustflags = [\"--cfg\", \"mithril_verif\"] to every crate built for the checks (path dependencies into /repo, so the current working tree is rebuilt); only C15 uses hooks: mithril-aggregator/src/verif_hooks.rs (thread-local named crash points) and its call sites in certifier_service.rs, signed_entity.rs, buffered_certifier.rs",
            "baseline_off_cmd": "cd /repo && cargo nextest run --workspace --no-fail-fast --test-threads 8 --offline || cargo test --workspace --no-fail-fast --offline",
            "source_commits": ["25572b6a3"],
            "add_only": True,
        },
        "engines": [
            {
                "name": name,
                "path": f"/verif/harness/{name}",
                "serves_properties": sorted(props),
                "kind_free_text": "Rust binary: proptest TestRunner (fixed seed from VERIF_SEED) + vcore engine (classification, distinct non-trivial counting, shrinking to replay JSON, known-finding matching); path dependencies into /repo",
            }
            for name, props in sorted(engines.items())
        ],
        "checks": checks,
        "not_applicable": na,
        "notes": "Family: property-based testing and fuzzing. exit 0 = held (KNOWN-FINDING lines possible), 1 = VIOLATION, 2 = inconclusive (build failure, watchdog, generator missed a required class) — never reported as a violation. Known findings: /verif/known_findings.json.",
    }
    with open(os.path.join(VERIF, "MANIFEST.json"), "w") as fh:
        json.dump(manifest, fh, indent=1)
        fh.write("\n")
    try:
        import jsonschema  # type: ignore

        schema = json.load(open("/root/.vp/MANIFEST.schema.json"))
        jsonschema.validate(manifest, schema)
        print("MANIFEST.json valid;", len(checks), "checks claimed")
    except ImportError:
        print("MANIFEST.json written (jsonschema not importable here);", len(checks), "checks")


if __name__ == "__main__":
    main()
