#!/usr/bin/env python3
"""Regenerates /verif/MANIFEST.json from the table below (kept in one place so it stays valid)."""
import json
import os

VERIF = os.path.dirname(os.path.dirname(os.path.abspath(__file__)))

ALL = [f"C{n:02d}" for n in range(1, 21)]

# property -> dict(category, text, note, technique, design_ref, engine)
CLAIMED = {
    "C17": dict(
        category="exploration",
        text="Exhaustive walk of every (security parameter <= 40, step <= 40, tip <= 200) triple for both entity kinds plus 60k generated (tip, tip+delta, k, step, epoch) cases at the numeric boundaries (0, 1, block-range length +-1, 2^32+-1, 2^62, u64::MAX tips); each clause of the statement (margin, monotone, whole steps, complete block range, purity across independently built / JSON round-tripped configs) is an executable oracle. Arithmetic on a three-parameter integer function is exactly where a small exhaustive box plus boundary sampling is decisive.",
        note="Assumes configuration values < 2^63 and epochs < 2^62 (operator configuration / realistic chain data). Trusted base: the harness's u128 re-statement of the clauses.",
        technique="property-based testing: exhaustive small box + proptest boundary generators against an arithmetic oracle",
        design_ref="DESIGN.md §2 C17",
        engine="p-common",
    ),
}

PENDING_REASON = "check not built yet in this round (planned, see DESIGN.md §5 build order); not claimed until its harness exists and has passed its sensitivity mutants"

NOT_APPLICABLE = {}


def main():
    checks = []
    for pid in ALL:
        if pid not in CLAIMED:
            continue
        c = CLAIMED[pid]
        checks.append(
            {
                "property_id": pid,
                "quick_cmd": f"./check {pid} --tier quick",
                "thorough_cmd": f"./check {pid} --tier thorough",
                "evidence_file": f"/verif/evidence/{pid}.json",
                "replay_cmd_template": f"./check {pid} --replay {{path}}",
                "engine": c["engine"],
                "level_claimed": {"category": c["category"], "text": c["text"], "design_ref": c["design_ref"]},
                "level_note": c["note"],
                "technique": c["technique"],
            }
        )
    na = []
    for pid in ALL:
        if pid in CLAIMED:
            continue
        na.append({"property_id": pid, "reason": NOT_APPLICABLE.get(pid, PENDING_REASON)})
    engines = {}
    for pid, c in CLAIMED.items():
        engines.setdefault(c["engine"], []).append(pid)
    manifest = {
        "version": 1,
        "setup_cmd": "./setup.sh",
        "hooks": {
            "guard": "--cfg mithril_verif",
            "enable": "harness/.cargo/config.toml passes rustflags = [\"--cfg\", \"mithril_verif\"] to every crate built for the checks (path dependencies into /repo, so the current working tree is rebuilt)",
            "baseline_off_cmd": "cd /repo && cargo nextest run --workspace --no-fail-fast --test-threads 8 --offline || cargo test --workspace --no-fail-fast --offline",
            "source_commits": [],
            "add_only": True,
        },
        "engines": [
            {
                "name": name,
                "path": f"/verif/harness/{name}",
                "serves_properties": sorted(props),
                "kind_free_text": "Rust binary: proptest TestRunner (fixed seed from VERIF_SEED) + vcore engine (classification, distinct non-trivial counting, shrinking to replay JSON, known-finding matching); path dependencies into /repo",
            }
            for name, props in sorted(engines.items())
        ],
        "checks": checks,
        "not_applicable": na,
        "notes": "Family: property-based testing and fuzzing. exit 0 = held (KNOWN-FINDING lines possible), 1 = VIOLATION, 2 = inconclusive (build failure, watchdog, generator missed a required class) — never reported as a violation. Known findings: /verif/known_findings.json.",
    }
    with open(os.path.join(VERIF, "MANIFEST.json"), "w") as fh:
        json.dump(manifest, fh, indent=1)
        fh.write("\n")
    try:
        import jsonschema  # type: ignore

        schema = json.load(open("/root/.vp/MANIFEST.schema.json"))
        jsonschema.validate(manifest, schema)
        print("MANIFEST.json valid;", len(checks), "checks claimed")
    except ImportError:
        print("MANIFEST.json written (jsonschema not importable here);", len(checks), "checks")


if __name__ == "__main__":
    main()
