#!/usr/bin/env python3
"""Sensitivity suite: hand-written mutants (compile, break the property) per property, run through tools/mutant.sh.

usage: tools/mutants.py <Cxx> [name-substring]        run the mutants of one property (sequentially, one slot)
       tools/mutants.py --list
       tools/mutants.py --apply <Cxx> <name>            (internal: called by mutant.sh --py, edits files under $MREPO)

A mutant = (name, file relative to the repository, old text, new text); `old` must occur exactly once.
Expected outcome of every run: exit=1 (VIOLATION). Results are appended to /verif/tools/mutants.log.
"""
import os
import subprocess
import sys

V = "mithril-common/src/certificate_chain/certificate_verifier.rs"
CV = "mithril-client/src/certificate_client/verify.rs"
CERT = "mithril-common/src/entities/certificate.rs"
META = "mithril-common/src/entities/certificate_metadata.rs"
PM = "mithril-common/src/entities/protocol_message.rs"
CMSG = "mithril-common/src/messages/certificate.rs"
MS = "mithril-common/src/protocol/multi_signer.rs"
CS = "mithril-aggregator/src/services/certifier/certifier_service.rs"

MUTANTS = {
    "C03": [
        ("drop-previous-hash-check", V,
         "        self.verify_previous_hash_matches_previous_certificate_hash(\n            certificate,\n            previous_certificate,\n        )?;\n        self.verify_aggregate",
         "        self.verify_aggregate"),
        ("avk-check-only-across-epochs", V,
         "                previous_certificate.aggregate_verification_key\n                    == certificate.aggregate_verification_key\n            } else {",
         "                true\n            } else {"),
        ("skip-epoch-in-signed-message", V,
         "        self.verify_epoch_matches_protocol_message(certificate)?;\n\n        Ok(())\n    }\n\n    fn verify_is_not",
         "        Ok(())\n    }\n\n    fn verify_is_not"),
        ("params-chaining-same-epoch-k-only", V,
         "            previous_certificate.metadata.protocol_parameters\n                == certificate.metadata.protocol_parameters",
         "            previous_certificate.metadata.protocol_parameters.k\n                == certificate.metadata.protocol_parameters.k"),
        ("following-epoch-link-again", V,
         "            || previous_certificate.epoch > certificate.epoch\n", ""),
        ("skip-hash-check-standard", V,
         "        self.verify_is_not_in_infinite_loop(certificate)?;\n        self.verify_hash_matches_content(certificate)?;",
         "        self.verify_is_not_in_infinite_loop(certificate)?;"),
        ("skip-genesis-signed-message-check", V,
         "        self.verify_hash_matches_content(genesis_certificate)?;\n        self.verify_signed_message_matches_hashed_protocol_message(genesis_certificate)?;",
         "        self.verify_hash_matches_content(genesis_certificate)?;"),
        ("client-cache-from-the-head", CV,
         "                    let has_crossed_epoch_boundary =\n                        current_certificate.as_ref().is_some_and(|c| c.epoch != start_epoch);",
         "                    let has_crossed_epoch_boundary = true;"),
        ("client-previous-content-unbound", CV,
         "            && previous_certificate.try_compute_hash()? != previous_certificate.hash\n",
         "            && previous_certificate.try_compute_hash()? != previous_certificate.hash\n            && false\n"),
        ("client-served-hash-unchecked", CV,
         "                    if certificate.hash != hash {", "                    if false && certificate.hash != hash {"),
        ("next-params-commitment-ignored", V,
         "                Some(previous_certificate_next_protocol_parameters) => {\n                    **previous_certificate_next_protocol_parameters\n                        == certificate.metadata.protocol_parameters.compute_hash()\n                }",
         "                Some(_) => true,"),
    ],
    "C04": [
        ("hash-without-previous-hash", CERT, "        hasher.update(self.previous_hash.as_bytes());\n", ""),
        ("hash-without-epoch", CERT, "        hasher.update(self.epoch.to_be_bytes());\n", ""),
        ("hash-without-metadata", CERT, "        hasher.update(self.metadata.compute_hash().as_bytes());\n", ""),
        ("hash-without-protocol-message", CERT, "        hasher.update(self.protocol_message.compute_hash().as_bytes());\n", ""),
        ("hash-without-signed-message", CERT, "        hasher.update(self.signed_message.as_bytes());\n", ""),
        ("hash-without-avk", CERT, "        hasher.update(self.aggregate_verification_key.to_json_hex()?.as_bytes());\n", ""),
        ("hash-without-signature", CERT, "        hasher.update(self.signature.to_bytes_hex_for_certificate_hash()?);\n", ""),
        ("hash-without-entity-beacon", CERT, "            signed_entity_type.feed_hash(&mut hasher);\n", "            let _ = signed_entity_type;\n"),
    ],
    "C16": [
        ("party-key-binding-removed", MS, "        if !is_key_registered_by_party {", "        if false && !is_key_registered_by_party {"),
    ],
}


def load_extra():
    """further tables live next to this file (mutants_<group>.py) so that they can be added without editing this one"""
    here = os.path.dirname(os.path.abspath(__file__))
    for fn in sorted(os.listdir(here)):
        if fn.startswith("mutants_") and fn.endswith(".py"):
            ns = {}
            exec(open(os.path.join(here, fn)).read(), ns)
            for k, v in ns.get("MUTANTS", {}).items():
                MUTANTS.setdefault(k, []).extend(v)


def apply(prop, name):
    repo = os.environ["MREPO"]
    for m in MUTANTS[prop]:
        if m[0] == name:
            # (name, file, old, new) or (name, [(file, old, new), ...]) for mutants with several cooperating sites
            edits = m[1] if isinstance(m[1], list) else [(m[1], m[2], m[3])]
            for f, old, new in edits:
                p = os.path.join(repo, f)
                s = open(p).read()
                if s.count(old) != 1:
                    print(f"mutant {prop}/{name}: old text occurs {s.count(old)} times in {f}")
                    sys.exit(1)
                open(p, "w").write(s.replace(old, new))
            return
    print("unknown mutant")
    sys.exit(1)


def main():
    load_extra()
    a = sys.argv[1:]
    if not a or a[0] == "--list":
        for p, ms in sorted(MUTANTS.items()):
            for m in ms:
                print(p, m[0], m[1] if isinstance(m[1], str) else [e[0] for e in m[1]])
        return
    if a[0] == "--apply":
        apply(a[1], a[2])
        return
    prop = a[0]
    flt = a[1] if len(a) > 1 else ""
    here = os.path.dirname(os.path.abspath(__file__))
    log = open(os.path.join(here, "mutants.log"), "a")
    for m in MUTANTS.get(prop, []):
        if flt and flt not in m[0]:
            continue
        env = dict(os.environ)
        env.setdefault("MUTANT_SLOT", "sens")
        r = subprocess.run([os.path.join(here, "mutant.sh"), prop, "--py", os.path.abspath(__file__), "--apply", prop, m[0]], env=env, capture_output=True, text=True)
        out = r.stdout + r.stderr
        verdict = "CAUGHT" if "exit=1" in out else ("MISSED" if "exit=0" in out else "INCONCLUSIVE")
        keys = sorted({l.split("key=")[1].split()[0] for l in out.splitlines() if "key=" in l})
        line = f"{prop} {m[0]}: {verdict} keys={keys[:4]}"
        print(line, flush=True)
        log.write(line + "\n")
        if verdict != "CAUGHT":
            log.write("\n".join("    " + l for l in out.splitlines()[-12:]) + "\n")
        log.flush()


if __name__ == "__main__":
    main()
