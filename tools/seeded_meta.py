#!/usr/bin/env python3
"""Folds confirm.log / checks.log of every /verif/seeded/<id>/ into its meta.json (keys: confirmed_by_coordinator, checks_run)."""
import json, os, re, glob
for d in sorted(glob.glob('/verif/seeded/*/')):
    mp = os.path.join(d, 'meta.json')
    if not os.path.exists(mp):
        continue
    try:
        meta = json.load(open(mp))
    except Exception as e:
        print('bad meta', d, e); continue
    cl = os.path.join(d, 'confirm.log')
    if os.path.exists(cl):
        lines = [l.strip() for l in open(cl) if l.strip()]
        meta['confirmed_by_coordinator'] = {
            'what_was_run': 'tools/seeded.sh confirm: scratch worktree of /repo HEAD; patch applies; demo run without and with the patch; the touched crate\'s existing tests run with the patch',
            'log': lines,
        }
    kl = os.path.join(d, 'checks.log')
    if os.path.exists(kl):
        runs = []
        cur = None
        for l in open(kl):
            l = l.rstrip()
            m = re.match(r'== (C\d+) against', l)
            if m:
                cur = {'check': m.group(1), 'header': l, 'lines': []}
                runs.append(cur)
            elif cur is not None and l:
                cur['lines'].append(l[:300])
        for r in runs:
            txt = ' '.join(r['lines'])
            m = re.search(r'exit=(\d)', txt)
            r['exit'] = int(m.group(1)) if m else None
            r['detected'] = r['exit'] == 1
            keys = re.findall(r'key=(\S+)', txt)
            r['violation_keys'] = sorted(set(keys))
        meta['checks_run'] = runs
        last = {}
        for r in runs:
            last[r['check']] = r
        meta['detected_by'] = sorted(c for c, r in last.items() if r['detected'])
        meta['missed_by_at_first'] = sorted({r['check'] for r in runs if not r['detected']} - set()) if any(not r['detected'] for r in runs) else []
    json.dump(meta, open(mp, 'w'), indent=1)
    print(os.path.basename(d.rstrip('/')), 'detected_by', meta.get('detected_by'), 'confirmed' if 'confirmed_by_coordinator' in meta else 'NOT CONFIRMED')
