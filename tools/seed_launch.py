#!/usr/bin/env python3
"""prints the seeding prompt for one property: tools/seed_launch.py Cxx [N]  (creates the scratch worktree /tmp/seed-Cxx)"""
import json, subprocess, sys
pid = sys.argv[1]; n = sys.argv[2] if len(sys.argv) > 2 else "3"
p = next(json.loads(l) for l in open('/verif/properties.jsonl') if json.loads(l)['id'] == pid)
wt = f"/tmp/seed-{pid}"; out = f"/tmp/seed-{pid}-out"
subprocess.run(["git", "-C", "/repo", "worktree", "remove", "--force", wt], capture_output=True)
r = subprocess.run(["git", "-C", "/repo", "worktree", "add", "--detach", wt, "HEAD"], capture_output=True, text=True)
assert r.returncode == 0, r.stderr
a = p['anchors']
anch = "files: " + ", ".join(a.get('files', [])) + "; mechanisms: " + "; ".join(f"{m['name']} ({m['where']})" for m in a.get('mechanism', []))
if a.get('observe_at'): anch += "; observable at: " + ", ".join(a['observe_at'])
t = open('/verif/tools/seed_prompt.md').read()
for k, v in {"@ID@": pid, "@IDL@": pid.lower(), "@TITLE@": p['title'], "@STATEMENT@": p['statement'], "@QUANT@": p['quantifier']['text'],
             "@WHY@": p['why_tests_cant'], "@ANCHORS@": anch, "@WT@": wt, "@OUT@": out, "@N@": n}.items():
    t = t.replace(k, v)
# second and later rounds: name the mechanisms other contributors already used (titles only), to be avoided
import glob, os
taken = []
for mp in sorted(glob.glob(f'/verif/seeded/{pid}-*/meta.json')):
    try:
        taken.append(json.load(open(mp)).get('title', ''))
    except Exception:
        pass
if taken and os.environ.get('SEED_ROUND2'):
    t += "\n## Already taken\n\nOther contributors already delivered changes with these mechanisms; yours must be DIFFERENT ideas in different places (do not submit variants of these):\n" + "\n".join(f"* {x}" for x in taken if x) + "\n"
    t = t.replace(f"seed_{pid.lower()}_change", f"seed_{pid.lower()}_r2_change")
print(t)
