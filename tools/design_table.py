#!/usr/bin/env python3
"""rewrites the `Quick` column of the overview table in DESIGN.md §2 from the committed evidence files"""
import json, re
p = '/verif/DESIGN.md'
s = open(p).read().split('\n')
for i, l in enumerate(s):
    m = re.match(r'^\| (C\d\d) \|(.*)\| [^|]* \|$', l)
    if not m or not re.search(r'cases, \d+ s \|$', l):
        continue
    try:
        e = json.load(open(f'/verif/evidence/{m.group(1)}.json'))
    except Exception:
        continue
    if e.get('tier') != 'quick':
        continue
    s[i] = f"| {m.group(1)} |{m.group(2)}| {e['coverage']['evaluations']} cases, {round(e['wall_s'])} s |"
open(p, 'w').write('\n'.join(s))
