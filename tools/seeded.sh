#!/bin/bash
# tools/seeded.sh import <Cxx> <N> <slug>          copy /tmp/seed-<Cxx>-out/change<N> to /verif/seeded/<Cxx>-<slug>/
# tools/seeded.sh confirm <dir> <crate> <demo-src> <demo-dest-rel> <demo-cargo-args...>
#       in a private scratch worktree: (1) patch applies to /repo HEAD, (2) demo passes WITHOUT the patch,
#       (3) demo fails WITH the patch, (4) the crate's existing tests pass WITH the patch. Appends to <dir>/confirm.log
# tools/seeded.sh run <dir> <Cxx> [<Cyy>...]        run the quick checks against the patch (isolated), append to <dir>/checks.log
set -u
cmd=$1; shift
case "$cmd" in
import)
  id=$1; n=$2; slug=$3
  src=/tmp/seed-$id-out/change$n
  dst=/verif/seeded/$id-$slug
  mkdir -p "$dst" && cp -r "$src"/* "$dst"/ && echo "imported to $dst" && ls "$dst" "$dst/demo"
  ;;
confirm)
  dir=$1; crate=$2; demo_src=$3; demo_dest=$4; shift 4
  CS=${SEED_CONFIRM_SLOT:-confirm}; W=/var/tmp/mv-$CS/repo; T=/var/tmp/mv-$CS/target
  mkdir -p /var/tmp/mv-$CS/tmp; export TMPDIR=/var/tmp/mv-$CS/tmp
  export CARGO_INCREMENTAL=0 CARGO_PROFILE_DEV_DEBUG=0 CARGO_PROFILE_TEST_DEBUG=0
  if [ ! -e "$W/.git" ]; then git -C /repo worktree add --detach "$W" HEAD >/dev/null 2>&1; fi
  git -C "$W" checkout -q --detach "$(git -C /repo rev-parse HEAD)"; git -C "$W" checkout -q -- .; git -C "$W" clean -fdq
  log="$dir/confirm.log"; : > "$log"
  echo "repo HEAD $(git -C /repo rev-parse --short HEAD)" >> "$log"
  git -C "$W" apply --check "$dir/patch.diff" && echo "1. patch applies: yes" >> "$log" || { echo "1. patch applies: NO" >> "$log"; cat "$log"; exit 1; }
  mkdir -p "$(dirname "$W/$demo_dest")"; cp "$dir/$demo_src" "$W/$demo_dest"
  ( cd "$W" && RUSTFLAGS="${SEED_DEMO_RUSTFLAGS:-}" CARGO_TARGET_DIR=$T${SEED_DEMO_RUSTFLAGS:+-flags} cargo test --offline -p "$crate" ${SEED_FEATURES:+--features $SEED_FEATURES} "$@" 2>&1 | grep -E "^test result|FAILED|panicked|error(\[|:)" | head -5 ) > /tmp/confirm.$$ 2>&1
  echo "2. demo WITHOUT the patch: $(tr '\n' ' ' < /tmp/confirm.$$)" >> "$log"
  git -C "$W" apply "$dir/patch.diff"
  ( cd "$W" && RUSTFLAGS="${SEED_DEMO_RUSTFLAGS:-}" CARGO_TARGET_DIR=$T${SEED_DEMO_RUSTFLAGS:+-flags} cargo test --offline -p "$crate" ${SEED_FEATURES:+--features $SEED_FEATURES} "$@" 2>&1 | grep -E "^test result|FAILED|panicked|error(\[|:)" | head -5 ) > /tmp/confirm.$$ 2>&1
  echo "3. demo WITH the patch: $(tr '\n' ' ' < /tmp/confirm.$$ | cut -c1-600)" >> "$log"
  rm -f "$W/$demo_dest"
  ( cd "$W" && CARGO_TARGET_DIR=$T cargo test --offline -p "$crate" ${SEED_FEATURES:+--features $SEED_FEATURES} 2>&1 | grep -E "^test result|FAILED|failed" | head -12 ) > /tmp/confirm.$$ 2>&1
  echo "4. existing tests of $crate WITH the patch: $(tr '\n' ' ' < /tmp/confirm.$$)" >> "$log"
  git -C "$W" checkout -q -- .; git -C "$W" clean -fdq; rm -f /tmp/confirm.$$
  cat "$log"
  ;;
run)
  dir=$1; shift
  log="$dir/checks.log"
  for c in "$@"; do
    echo "== $c against $(basename "$dir") (harness at $(git -C /verif rev-parse --short HEAD)+wip)" >> "$log"
    /verif/tools/mutant.sh "$c" --patch "$dir/patch.diff" 2>&1 | grep -a -v conda | grep -a -E "VIOLATION|key=|INCONCLUSIVE|exit=" | cut -c1-300 | tee -a "$log"
  done
  ;;
esac
