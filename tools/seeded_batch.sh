#!/bin/bash
# tools/seeded_batch.sh <Cxx> <N> <slug> [<check> ...]   import + confirm + run the checks for one delivered change
# (demo crate / destination / cargo args are read from the change's meta.json; SEED_FEATURES=<features> for crates that need them)
set -u
id=$1; n=$2; slug=$3; shift 3
checks=${*:-$id}
cd /verif
tools/seeded.sh import "$id" "$n" "$slug" >/dev/null || exit 1
dir=/verif/seeded/$id-$slug
read -r crate dest args < <(python3 - "$dir/meta.json" <<'E'
import json,sys
m=json.load(open(sys.argv[1]))
print(m.get('demo_crate','?'), m.get('demo_dest','?'), ' '.join(m.get('demo_cargo_args',[])))
E
)
flags=$(python3 -c "import json,sys; print((json.load(open('$dir/meta.json')).get('demo_env') or {}).get('RUSTFLAGS','') if isinstance(json.load(open('$dir/meta.json')).get('demo_env'),dict) else '')" 2>/dev/null)
[ -n "$flags" ] && export SEED_DEMO_RUSTFLAGS="$flags"
src=demo/$(basename "$dest")
echo "== $id-$slug: crate=$crate dest=$dest args=$args"
tools/seeded.sh confirm "$dir" "$crate" "$src" "$dest" $args | tail -4 | cut -c1-400
tools/seeded.sh run "$dir" $checks
