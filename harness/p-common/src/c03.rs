//! C03 — certificate chain verification accepts only chains anchored in the genesis key.
//!
//! Honest chains (constant / rotating signer worlds) are served by an untrusted provider that applies a generated list
//! of tamper operations (with its own adversary signer world and genesis key). The implementation
//! (`MithrilCertificateVerifier::verify_certificate_chain`, and the client's `CertificateClient::verify_chain` without
//! and with the verifier cache) is compared with `ref_check`, a literal transcription of the statement over the set of
//! certificates the provider ever served. Violation ⇔ the implementation accepts ∧ the reference finds a failing clause.

#[path = "certs.rs"]
mod certs;

use std::collections::{BTreeMap, BTreeSet};
use std::sync::{Arc, Mutex};

use async_trait::async_trait;
use certs::*;
use mithril_client::certificate_client::{
    CertificateAggregatorRequest, CertificateClient, CertificateVerifierCache, MemoryCertificateVerifierCache,
    MithrilCertificateVerifier as ClientCertificateVerifier,
};
use mithril_client::feedback::FeedbackSender;
use mithril_client::{MithrilCertificate, MithrilCertificateListItem, MithrilResult};
use mithril_common::certificate_chain::{CertificateRetriever, CertificateRetrieverError, CertificateVerifier, MithrilCertificateVerifier};
use mithril_common::crypto_helper::{GenesisVerifier, ProtocolAggregateVerificationKeyForConcatenation};
use mithril_common::entities::{Certificate, CertificateSignature, Epoch, ProtocolMessagePartKey, StakeDistributionParty};
use proptest::prelude::*;
use serde::{Deserialize, Serialize};
use vcore::{Args, Check, Report, catch, mix, pick_index};

pub const KEY_FOLLOWING_EPOCH: &str = "accepted:link-to-following-epoch";
pub const KEY_CACHE_POISON: &str = "client-cache:accepted-only-with-cache";

// ------------------------------------------------------------------------------------------------------------------
// tamper operations
// ------------------------------------------------------------------------------------------------------------------

#[derive(Clone, Debug, Serialize, Deserialize, PartialEq)]
pub enum WorldSel {
    Adversary,
    /// the adversary's keys under the protocol parameters of the honest world of the certificate's epoch
    AdversarySameParams,
    /// honest world of the certificate's epoch offset + d
    Offset(i8),
    Pool(u16),
}

#[derive(Clone, Debug, Serialize, Deserialize)]
pub enum FieldAlter {
    Hash { other: Option<u16>, seed: u64 },
    PreviousHashRandom(u64),
    EpochAdd(i8),
    EpochSet(u64),
    Network(String),
    Version(String),
    ParamK(i8),
    ParamM(i8),
    /// ± n steps at the fixed-point precision, or (0) the other usual value
    ParamPhi(i8),
    InitiatedAt(i64),
    SealedAt(i64),
    SignersDrop,
    SignersAdd(u64),
    SignerStake(u16, i8),
    PartEpochAdd(i8),
    PartNextAvk(WorldSel),
    PartNextParams(WorldSel),
    PartDigest(u64),
    PartRemove(u8),
    PartAdd(u8, u64),
    SignedMessageRandom(u64),
    Avk(WorldSel),
    EntityVariant(u8),
    EntityNumber(u64),
    /// the signature of another certificate
    SignatureOf(u16),
}

#[derive(Clone, Debug, Serialize, Deserialize, PartialEq)]
pub enum ParentFix {
    None,
    /// the parent is served with the commitment the fork needs; nothing else of it is touched (stored hash kept)
    Commit,
    /// … and its signed message is recomputed (stored hash kept)
    CommitResync,
    /// … and it is re-hashed, the fork pointing to the new hash
    CommitResyncRehash,
    /// a parent of the SAME epoch is served as if it belonged to the previous epoch (with the commitment the fork
    /// needs; stored hash kept): the client believes an epoch boundary was crossed
    CommitFakeBoundary,
}

#[derive(Clone, Debug, Serialize, Deserialize, PartialEq)]
pub enum Rel {
    SameEpoch,
    Previous,
    Next,
    Older,
    Genesis,
    Own,
    Raw,
}

#[derive(Clone, Debug, Serialize, Deserialize)]
pub enum Op {
    /// the protocol message of a certificate is altered (a part removed / added / changed), its signed message
    /// recomputed, and the certificate RE-SIGNED for that message by a signer world (typically the honest world of its
    /// own epoch: the chained key is kept), re-hashed and re-linked: every check but those on the message content passes
    AlterResigned { at: u16, field: FieldAlter, by: WorldSel },
    Alter { at: u16, field: FieldAlter, resync_msg: bool, rehash: bool, repoint: bool },
    /// re-sign the signed message by another signer set
    Resign { at: u16, by: WorldSel, adopt_key: bool, commit_next: bool, rehash: bool, repoint: bool },
    /// the adversary re-signs certificate `at` and all its descendants consistently (keys, parameters, commitments,
    /// hashes, links); the only thing it cannot produce is the honest parent's commitment
    AdvFork { at: u16, same_params: bool, parent: ParentFix },
    /// honest keys, parameters of the provider's choice: certificate `at` says phi_f = 1 (every registered signer wins
    /// every lottery: one of them is a quorum) in its metadata and is re-signed under those parameters by the honest
    /// signers of its own epoch (aggregate key unchanged), re-hashed and re-linked; `parent_too`: its parent is served
    /// with the same parameters in its metadata - which no signature covers - re-hashed, the certificate pointing to
    /// the new hash. Parameters are only ever inherited through what a parent's SIGNED message commits to.
    LaxParams { at: u16, first_after_genesis: bool, parent_too: bool },
    Retarget { at: u16, rel: Rel, to: u16, rehash: bool, repoint: bool },
    Drop { at: u16 },
    /// serve certificate `cert` for the hash of certificate `key_of`
    ServeFor { key_of: u16, cert: u16 },
    /// for the hash of the parent of certificate `at`, serve the certificate `1 + up` links further up instead
    ServeAncestorForParent { at: u16, up: u8 },
    /// a second certificate for the same signed message (differs in unsigned metadata), one child re-pointed to it
    Duplicate { at: u16, child: u16, delta: i64 },
    SelfLoop { at: u16, mode: u8 },
    GenesisOtherKey { rehash: bool, repoint: bool },
    StandardAsGenesis { at: u16, adversary_key: bool, rehash: bool, repoint: bool },
    GenesisAsStandard { by: WorldSel, rehash: bool, repoint: bool },
}

#[derive(Clone, Debug, Serialize, Deserialize)]
pub struct AdvSpec {
    pub world: WorldSpec,
    pub genesis_seed: u64,
}

#[derive(Clone, Debug, Serialize, Deserialize)]
pub enum HeadSel {
    Last,
    Touched,
    Raw(u16),
}

#[derive(Clone, Debug, Serialize, Deserialize)]
pub struct Case {
    pub chain: ChainSpec,
    pub adv: AdvSpec,
    pub ops: Vec<Op>,
    pub head: HeadSel,
}

#[derive(Clone, Debug, Serialize, Deserialize)]
pub struct Step {
    pub ops: Vec<Op>,
    pub head: HeadSel,
}

#[derive(Clone, Debug, Serialize, Deserialize)]
pub struct HistCase {
    pub chain: ChainSpec,
    pub adv: AdvSpec,
    pub steps: Vec<Step>,
}

fn op_name(o: &Op) -> String {
    let s = format!("{o:?}");
    s.split([' ', '{', '(']).next().unwrap_or("").to_string()
}

fn field_name(f: &FieldAlter) -> String {
    let s = format!("{f:?}");
    s.split([' ', '{', '(']).next().unwrap_or("").to_string()
}

// ------------------------------------------------------------------------------------------------------------------
// the provider's store
// ------------------------------------------------------------------------------------------------------------------

#[derive(Clone)]
struct Store {
    certs: Vec<Certificate>,
    /// epoch offset of each slot in the honest chain
    offset: Vec<usize>,
    /// hash key -> slot
    served: BTreeMap<String, usize>,
    touched: BTreeSet<usize>,
    notes: Vec<String>,
}

struct Ctx<'a> {
    built: &'a Built,
    adv: Arc<World>,
    adv_spec: &'a AdvSpec,
}

impl Ctx<'_> {
    fn world(&self, sel: &WorldSel, offset: usize) -> Option<Arc<World>> {
        match sel {
            WorldSel::Adversary => Some(self.adv.clone()),
            WorldSel::AdversarySameParams => {
                let honest = &self.built.worlds[self.built.spec.world_index(offset)];
                world_cached(&WorldSpec { seed: self.adv_spec.world.seed, stakes: self.adv_spec.world.stakes.clone(), params: honest.spec.params.clone() })
            }
            WorldSel::Offset(d) => {
                let o = (offset as i64 + *d as i64).max(0) as usize;
                Some(self.built.worlds[self.built.spec.world_index(o)].clone())
            }
            WorldSel::Pool(i) => Some(self.built.worlds[*i as usize % self.built.worlds.len()].clone()),
        }
    }
}

impl Store {
    fn new(built: &Built) -> Store {
        Store {
            certs: built.certs.clone(),
            offset: built.pos.iter().map(|p| p.0).collect(),
            served: built.certs.iter().enumerate().map(|(i, c)| (c.hash.clone(), i)).collect(),
            touched: BTreeSet::new(),
            notes: vec![],
        }
    }

    fn slot(&self, raw: u16) -> usize {
        pick_index(raw, self.certs.len())
    }

    fn standard_slot(&self, raw: u16) -> Option<usize> {
        let s: Vec<usize> = (0..self.certs.len()).filter(|i| !self.certs[*i].is_genesis()).collect();
        if s.is_empty() { None } else { Some(s[pick_index(raw, s.len())]) }
    }

    fn children(&self, i: usize) -> Vec<usize> {
        let h = &self.certs[i].hash;
        (0..self.certs.len()).filter(|j| *j != i && &self.certs[*j].previous_hash == h).collect()
    }

    /// descendants of slot i through the current links (excluding i), parents before children
    fn descendants(&self, i: usize) -> Vec<usize> {
        let mut out = vec![];
        let mut queue = vec![i];
        let mut seen = BTreeSet::from([i]);
        while let Some(x) = queue.pop() {
            for c in self.children(x) {
                if seen.insert(c) {
                    out.push(c);
                    queue.push(c);
                }
            }
        }
        out
    }

    /// give slot i its recomputed hash; serve it under the new hash; optionally re-point (and re-hash) its descendants
    /// (every slot at most once: tampered links may form cycles)
    fn rehash_slot(&mut self, i: usize, repoint: bool) {
        let mut done: BTreeSet<usize> = BTreeSet::new();
        let mut queue = vec![i];
        while let Some(x) = queue.pop() {
            if !done.insert(x) {
                continue;
            }
            let old = self.certs[x].hash.clone();
            // children are looked up BEFORE the hash moves
            let children = if repoint { self.children(x) } else { vec![] };
            rehash(&mut self.certs[x]);
            let new = self.certs[x].hash.clone();
            if new == old {
                continue;
            }
            if self.served.get(&old) == Some(&x) {
                self.served.remove(&old);
            }
            self.served.insert(new.clone(), x);
            for c in children {
                if self.certs[c].previous_hash == old && !done.contains(&c) {
                    self.certs[c].previous_hash = new.clone();
                    self.touched.insert(c);
                    queue.push(c);
                }
            }
        }
    }

    fn finish(&mut self, i: usize, rehash: bool, repoint: bool) {
        self.touched.insert(i);
        if rehash {
            self.rehash_slot(i, repoint);
        }
    }
}

fn set_commitment(c: &mut Certificate, w: &World) {
    c.protocol_message.set_message_part(ProtocolMessagePartKey::NextAggregateVerificationKey, w.avk_hex.clone());
    c.protocol_message.set_message_part(ProtocolMessagePartKey::NextProtocolParameters, w.spec.params.entity().compute_hash());
}

fn adopt_key(c: &mut Certificate, w: &World) {
    c.aggregate_verification_key = w.avk_key();
    c.metadata.protocol_parameters = w.spec.params.entity();
    c.metadata.signers = w.parties.clone();
}

fn resign(c: &mut Certificate, w: &World) -> bool {
    let entity = c.signed_entity_type();
    match w.sign(c.signed_message.as_bytes()) {
        Some(sig) => {
            c.signature = CertificateSignature::MultiSignature(entity, sig);
            true
        }
        None => false,
    }
}

fn apply_op(st: &mut Store, op: &Op, cx: &Ctx) {
    match op {
        Op::Alter { at, field, resync_msg, rehash, repoint } => {
            let i = st.slot(*at);
            let off = st.offset[i];
            let other_sig = if let FieldAlter::SignatureOf(o) = field { Some(st.certs[st.slot(*o)].signature.clone()) } else { None };
            let other_hash = if let FieldAlter::Hash { other: Some(o), .. } = field { Some(st.certs[st.slot(*o)].hash.clone()) } else { None };
            let c = &mut st.certs[i];
            match field {
                FieldAlter::Hash { seed, .. } => c.hash = other_hash.unwrap_or_else(|| hex_digest(*seed)),
                FieldAlter::PreviousHashRandom(s) => c.previous_hash = hex_digest(*s),
                FieldAlter::EpochAdd(d) => c.epoch = Epoch(c.epoch.0.wrapping_add(*d as i64 as u64)),
                FieldAlter::EpochSet(e) => c.epoch = Epoch(*e),
                FieldAlter::Network(s) => c.metadata.network = s.clone(),
                FieldAlter::Version(s) => c.metadata.protocol_version = s.clone(),
                FieldAlter::ParamK(d) => c.metadata.protocol_parameters.k = c.metadata.protocol_parameters.k.wrapping_add(*d as i64 as u64),
                FieldAlter::ParamM(d) => c.metadata.protocol_parameters.m = c.metadata.protocol_parameters.m.wrapping_add(*d as i64 as u64),
                FieldAlter::ParamPhi(d) => {
                    let p = c.metadata.protocol_parameters.phi_f;
                    c.metadata.protocol_parameters.phi_f = if *d == 0 {
                        if p == 1.0 { 0.9 } else { 1.0 }
                    } else {
                        let f = phi_fixed(p).unwrap_or(1 << 24) as i64;
                        ((f + *d as i64).clamp(1 << 23, 1 << 24)) as f64 / 16_777_216.0
                    };
                }
                FieldAlter::InitiatedAt(d) => c.metadata.initiated_at = ts(c.metadata.initiated_at.timestamp_nanos_opt().unwrap_or(0).wrapping_add(*d)),
                FieldAlter::SealedAt(d) => c.metadata.sealed_at = ts(c.metadata.sealed_at.timestamp_nanos_opt().unwrap_or(0).wrapping_add(*d)),
                FieldAlter::SignersDrop => {
                    c.metadata.signers.pop();
                }
                FieldAlter::SignersAdd(s) => c.metadata.signers.push(StakeDistributionParty { party_id: format!("pool{s:x}"), stake: 1 + *s % 1000 }),
                FieldAlter::SignerStake(j, d) => {
                    if !c.metadata.signers.is_empty() {
                        let j = pick_index(*j, c.metadata.signers.len());
                        c.metadata.signers[j].stake = c.metadata.signers[j].stake.wrapping_add(*d as i64 as u64);
                    }
                }
                FieldAlter::PartEpochAdd(d) => {
                    let e = c.epoch.0.wrapping_add(*d as i64 as u64);
                    c.protocol_message.set_message_part(ProtocolMessagePartKey::CurrentEpoch, e.to_string());
                }
                FieldAlter::PartNextAvk(w) => {
                    if let Some(w) = cx.world(w, off) {
                        c.protocol_message.set_message_part(ProtocolMessagePartKey::NextAggregateVerificationKey, w.avk_hex.clone());
                    }
                }
                FieldAlter::PartNextParams(w) => {
                    if let Some(w) = cx.world(w, off) {
                        c.protocol_message.set_message_part(ProtocolMessagePartKey::NextProtocolParameters, w.spec.params.entity().compute_hash());
                    }
                }
                FieldAlter::PartDigest(s) => {
                    c.protocol_message.set_message_part(ProtocolMessagePartKey::SnapshotDigest, hex_digest(*s));
                }
                FieldAlter::PartRemove(k) => {
                    let keys: Vec<_> = c.protocol_message.message_parts.keys().copied().collect();
                    if !keys.is_empty() {
                        c.protocol_message.message_parts.remove(&keys[*k as usize % keys.len()]);
                    }
                }
                FieldAlter::PartAdd(k, s) => {
                    c.protocol_message.set_message_part(ALL_KEYS[*k as usize % ALL_KEYS.len()], hex_digest(*s));
                }
                FieldAlter::SignedMessageRandom(s) => c.signed_message = hex_digest(*s),
                FieldAlter::Avk(w) => {
                    if let Some(w) = cx.world(w, off) {
                        c.aggregate_verification_key = w.avk_key();
                    }
                }
                FieldAlter::EntityVariant(v) => {
                    if let CertificateSignature::MultiSignature(e, s) = &c.signature {
                        c.signature = CertificateSignature::MultiSignature(EntitySpec::of(e).with_variant(*v, 0).entity(), s.clone());
                    }
                }
                FieldAlter::EntityNumber(n) => {
                    if let CertificateSignature::MultiSignature(e, s) = &c.signature {
                        let mut nums = EntitySpec::of(e).numbers();
                        nums[0] = nums[0].wrapping_add(1 + *n % 3);
                        nums.resize(3, 0);
                        let v = ["MSD", "CSD", "CDb", "CTx", "CBT"].iter().position(|x| *x == EntitySpec::of(e).name()).unwrap() as u8;
                        c.signature = CertificateSignature::MultiSignature(EntitySpec::Cbt(nums[0], nums[1], nums[2]).with_variant(v, 0).entity(), s.clone());
                    }
                }
                FieldAlter::SignatureOf(_) => c.signature = other_sig.unwrap(),
            }
            if *resync_msg {
                c.signed_message = c.protocol_message.compute_hash();
            }
            st.finish(i, *rehash, *repoint);
        }
        Op::AlterResigned { at, field, by } => {
            apply_op(st, &Op::Alter { at: *at, field: field.clone(), resync_msg: true, rehash: false, repoint: false }, cx);
            apply_op(st, &Op::Resign { at: *at, by: by.clone(), adopt_key: false, commit_next: false, rehash: true, repoint: true }, cx);
        }
        Op::Resign { at, by, adopt_key: adopt, commit_next, rehash, repoint } => {
            let Some(i) = st.standard_slot(*at) else { return };
            let Some(w) = cx.world(by, st.offset[i]) else { return };
            let c = &mut st.certs[i];
            if *commit_next {
                set_commitment(c, &w);
                c.signed_message = c.protocol_message.compute_hash();
            }
            if *adopt {
                adopt_key(c, &w);
            }
            if !resign(c, &w) {
                st.notes.push("resign-skipped".into());
            }
            st.finish(i, *rehash, *repoint);
        }
        Op::LaxParams { at, first_after_genesis, parent_too } => {
            let Some(mut i) = st.standard_slot(*at) else { return };
            if *first_after_genesis {
                // aim at a certificate whose parent is a genesis certificate (the first of the epoch after it)
                let cands: Vec<usize> = (0..st.certs.len())
                    .filter(|x| !st.certs[*x].is_genesis() && st.served.get(&st.certs[*x].previous_hash).is_some_and(|p| st.certs[*p].is_genesis()))
                    .collect();
                if !cands.is_empty() {
                    i = cands[pick_index(*at, cands.len())];
                }
            }
            let honest = cx.built.worlds[cx.built.spec.world_index(st.offset[i])].clone();
            let lax = WorldSpec { seed: honest.spec.seed, stakes: honest.spec.stakes.clone(), params: PSpec::new(honest.spec.params.k, honest.spec.params.m, 1.0) };
            let Some(w) = world_cached(&lax) else { return };
            if *parent_too {
                if let Some(&p) = st.served.get(&st.certs[i].previous_hash) {
                    st.certs[p].metadata.protocol_parameters = w.spec.params.entity();
                    st.touched.insert(p);
                    st.rehash_slot(p, true);
                }
            }
            let c = &mut st.certs[i];
            c.metadata.protocol_parameters = w.spec.params.entity();
            if !resign(c, &w) {
                st.notes.push("resign-skipped".into());
            }
            st.finish(i, true, true);
        }
        Op::AdvFork { at, same_params, parent } => {
            let Some(i) = st.standard_slot(*at) else { return };
            let sel = if *same_params { WorldSel::AdversarySameParams } else { WorldSel::Adversary };
            let Some(w) = cx.world(&sel, st.offset[i]) else { return };
            // the honest parent, served with what the fork needs
            if *parent != ParentFix::None {
                if let Some(&p) = st.served.get(&st.certs[i].previous_hash) {
                    let mut same_epoch = st.certs[p].epoch == st.certs[i].epoch;
                    let pc = &mut st.certs[p];
                    if same_epoch && *parent == ParentFix::CommitFakeBoundary && pc.epoch.0 > 0 {
                        pc.epoch = Epoch(pc.epoch.0 - 1);
                        same_epoch = false;
                    }
                    if same_epoch {
                        pc.aggregate_verification_key = w.avk_key();
                        pc.metadata.protocol_parameters = w.spec.params.entity();
                    } else {
                        set_commitment(pc, &w);
                    }
                    if !matches!(parent, ParentFix::Commit | ParentFix::CommitFakeBoundary) && !same_epoch {
                        pc.signed_message = pc.protocol_message.compute_hash();
                    }
                    st.touched.insert(p);
                    if *parent == ParentFix::CommitResyncRehash {
                        st.rehash_slot(p, true);
                    }
                }
            }
            let mut order = vec![i];
            order.extend(st.descendants(i));
            for x in order {
                if st.certs[x].is_genesis() {
                    continue;
                }
                let c = &mut st.certs[x];
                set_commitment(c, &w);
                c.signed_message = c.protocol_message.compute_hash();
                adopt_key(c, &w);
                if !resign(c, &w) {
                    st.notes.push("resign-skipped".into());
                }
                st.touched.insert(x);
                // children are re-pointed one level at a time; they are re-signed (and re-hashed) later in this loop
                let old = st.certs[x].hash.clone();
                rehash(&mut st.certs[x]);
                let new = st.certs[x].hash.clone();
                if st.served.get(&old) == Some(&x) {
                    st.served.remove(&old);
                }
                st.served.insert(new.clone(), x);
                for ch in 0..st.certs.len() {
                    if ch != x && st.certs[ch].previous_hash == old {
                        st.certs[ch].previous_hash = new.clone();
                    }
                }
            }
        }
        Op::Retarget { at, rel, to, rehash, repoint } => {
            let Some(i) = st.standard_slot(*at) else { return };
            let off = st.offset[i];
            let cands: Vec<usize> = (0..st.certs.len())
                .filter(|j| match rel {
                    Rel::SameEpoch => *j != i && st.offset[*j] == off,
                    Rel::Previous => st.offset[*j] + 1 == off,
                    Rel::Next => st.offset[*j] == off + 1,
                    Rel::Older => st.offset[*j] + 1 < off,
                    Rel::Genesis => st.certs[*j].is_genesis(),
                    Rel::Own => *j == i,
                    Rel::Raw => true,
                })
                .collect();
            if cands.is_empty() {
                st.notes.push("retarget-no-candidate".into());
                return;
            }
            let j = cands[pick_index(*to, cands.len())];
            st.certs[i].previous_hash = st.certs[j].hash.clone();
            st.notes.push(format!(
                "retarget:{}",
                if j == i {
                    "self"
                } else if st.certs[j].is_genesis() && st.offset[j] + 1 != off && st.offset[j] != off {
                    "genesis"
                } else if st.offset[j] == off {
                    "same-epoch"
                } else if st.offset[j] + 1 == off {
                    "previous-epoch"
                } else if st.offset[j] == off + 1 {
                    "next-epoch"
                } else if st.offset[j] < off {
                    "older"
                } else {
                    "later"
                }
            ));
            st.finish(i, *rehash, *repoint);
        }
        Op::Drop { at } => {
            let i = st.slot(*at);
            st.served.retain(|_, v| *v != i);
            st.touched.insert(i);
        }
        Op::ServeFor { key_of, cert } => {
            let (k, c) = (st.slot(*key_of), st.slot(*cert));
            let key = st.certs[k].hash.clone();
            st.served.insert(key, c);
            st.touched.insert(c);
            st.touched.insert(k);
        }
        Op::ServeAncestorForParent { at, up } => {
            let Some(i) = st.standard_slot(*at) else { return };
            let key = st.certs[i].previous_hash.clone();
            let Some(&p) = st.served.get(&key) else { return };
            let mut a = p;
            for _ in 0..=(*up % 3) {
                match st.served.get(&st.certs[a].previous_hash) {
                    Some(&n) if n != a => a = n,
                    _ => break,
                }
            }
            if a != p {
                st.served.insert(key, a);
                st.touched.insert(p);
                st.touched.insert(a);
            }
        }
        Op::Duplicate { at, child, delta } => {
            let i = st.slot(*at);
            let mut d = st.certs[i].clone();
            d.metadata.sealed_at = ts(d.metadata.sealed_at.timestamp_nanos_opt().unwrap_or(0).wrapping_add(1 + delta.unsigned_abs() as i64 % 1_000_000));
            rehash(&mut d);
            let children = st.children(i);
            let slot = st.certs.len();
            st.served.insert(d.hash.clone(), slot);
            let new_hash = d.hash.clone();
            st.certs.push(d);
            st.offset.push(st.offset[i]);
            st.touched.insert(slot);
            if !children.is_empty() {
                let c = children[pick_index(*child, children.len())];
                st.certs[c].previous_hash = new_hash;
                st.finish(c, true, true);
            }
        }
        Op::SelfLoop { at, mode } => {
            let i = st.slot(*at);
            match mode % 3 {
                0 => st.certs[i].previous_hash = st.certs[i].hash.clone(),
                1 => {
                    let old = st.certs[i].hash.clone();
                    st.certs[i].hash = st.certs[i].previous_hash.clone();
                    let h = st.certs[i].hash.clone();
                    if st.served.get(&old) == Some(&i) {
                        st.served.remove(&old);
                    }
                    st.served.insert(h, i);
                }
                _ => {
                    st.certs[i].previous_hash = st.certs[i].hash.clone();
                    st.rehash_slot(i, true);
                }
            }
            st.touched.insert(i);
        }
        Op::GenesisOtherKey { rehash, repoint } => {
            let Some(g) = (0..st.certs.len()).find(|i| st.certs[*i].is_genesis()) else { return };
            let signer = genesis_signer(cx.adv_spec.genesis_seed);
            let sig = signer.ed25519.sign(st.certs[g].signed_message.as_bytes());
            st.certs[g].signature = CertificateSignature::GenesisSignature(sig);
            st.finish(g, *rehash, *repoint);
        }
        Op::StandardAsGenesis { at, adversary_key, rehash, repoint } => {
            let Some(i) = st.standard_slot(*at) else { return };
            let sig = if *adversary_key {
                genesis_signer(cx.adv_spec.genesis_seed).ed25519.sign(st.certs[i].signed_message.as_bytes())
            } else {
                // replay the honest genesis signature (valid for another message)
                match st.certs.iter().find_map(|c| if let CertificateSignature::GenesisSignature(s) = &c.signature { Some(*s) } else { None }) {
                    Some(s) => s,
                    None => return,
                }
            };
            st.certs[i].signature = CertificateSignature::GenesisSignature(sig);
            st.finish(i, *rehash, *repoint);
        }
        Op::GenesisAsStandard { by, rehash, repoint } => {
            let Some(g) = (0..st.certs.len()).find(|i| st.certs[*i].is_genesis()) else { return };
            let Some(w) = cx.world(by, st.offset[g]) else { return };
            let entity = EntitySpec::Msd(st.certs[g].epoch.0).entity();
            if let Some(sig) = w.sign(st.certs[g].signed_message.as_bytes()) {
                st.certs[g].signature = CertificateSignature::MultiSignature(entity, sig);
                if *by != WorldSel::Offset(1) {
                    adopt_key(&mut st.certs[g], &w);
                }
            }
            st.finish(g, *rehash, *repoint);
        }
    }
}

// ------------------------------------------------------------------------------------------------------------------
// the reference: a literal transcription of the statement
// ------------------------------------------------------------------------------------------------------------------

/// certificates that exist for the verifier: everything the provider serves (or served) whose stored hash matches its
/// content, keyed by that hash
fn universe_add(universe: &mut BTreeMap<String, Certificate>, c: &Certificate) {
    if let Ok(h) = c.try_compute_hash() {
        if h == c.hash {
            universe.entry(h).or_insert_with(|| c.clone());
        }
    }
}

fn ref_params_of(c: &Certificate) -> (u64, u64, Option<u32>) {
    let p = &c.metadata.protocol_parameters;
    (p.k, p.m, phi_fixed(p.phi_f))
}

/// the failing clauses on the walk from `head` (empty = valid)
fn ref_check(head: &Certificate, universe: &BTreeMap<String, Certificate>, gv: &GenesisVerifier) -> Vec<&'static str> {
    ref_check_at(head, universe, gv).0
}

/// … and whether the FIRST failing clause concerns a certificate of the head's own epoch segment (the certificates
/// reached from the head before an epoch boundary is crossed; a link clause is attributed to the link's target)
fn ref_check_at(head: &Certificate, universe: &BTreeMap<String, Certificate>, gv: &GenesisVerifier) -> (Vec<&'static str>, bool) {
    let mut fails: Vec<&'static str> = vec![];
    let mut first_in_head_segment: Option<bool> = None;
    let mut in_segment = true;
    let mut seen: BTreeSet<String> = BTreeSet::new();
    let mut cur = head.clone();
    for _ in 0..universe.len() + 2 {
        in_segment = in_segment && cur.epoch == head.epoch;
        let before = fails.len();
        let true_hash = cur.try_compute_hash().unwrap_or_default();
        if cur.hash != true_hash {
            fails.push("hash-mismatch");
        }
        if !seen.insert(true_hash) {
            fails.push("loop");
            return (fails, first_in_head_segment.unwrap_or(false));
        }
        if cur.protocol_message.compute_hash() != cur.signed_message {
            fails.push("signed-message-mismatch");
        }
        if cur.protocol_message.get_message_part(&ProtocolMessagePartKey::CurrentEpoch) != Some(&cur.epoch.0.to_string()) {
            fails.push("epoch-not-in-signed-message");
        }
        match &cur.signature {
            CertificateSignature::GenesisSignature(sig) => {
                if gv.to_ed25519_verification_key().verify_strict(cur.signed_message.as_bytes(), sig).is_err() {
                    fails.push("genesis-signature-invalid");
                }
                if first_in_head_segment.is_none() && fails.len() > before {
                    first_in_head_segment = Some(in_segment);
                }
                return (fails, first_in_head_segment.unwrap_or(false));
            }
            CertificateSignature::MultiSignature(_, sig) => {
                let p = &cur.metadata.protocol_parameters;
                let params = mithril_stm::Parameters { m: p.m, k: p.k, phi_f: p.phi_f };
                let ok = catch(|| sig.verify(cur.signed_message.as_bytes(), &cur.create_aggregate_verification_key(), &params, None, None).is_ok()).unwrap_or(false);
                if !ok {
                    fails.push("multi-signature-invalid");
                }
                if first_in_head_segment.is_none() && fails.len() > before {
                    first_in_head_segment = Some(in_segment);
                }
                let Some(prev) = universe.get(&cur.previous_hash) else {
                    fails.push("previous-certificate-missing");
                    return (fails, first_in_head_segment.unwrap_or(false));
                };
                let avk = cur.aggregate_verification_key.to_json_hex().unwrap_or_default();
                if prev.epoch == cur.epoch {
                    if prev.aggregate_verification_key.to_json_hex().unwrap_or_default() != avk {
                        fails.push("link-same-epoch-other-avk");
                    }
                    if ref_params_of(prev) != ref_params_of(&cur) {
                        fails.push("link-same-epoch-other-parameters");
                    }
                } else if prev.epoch.0.checked_add(1) == Some(cur.epoch.0) {
                    let committed = prev
                        .protocol_message
                        .get_message_part(&ProtocolMessagePartKey::NextAggregateVerificationKey)
                        .and_then(|s| ProtocolAggregateVerificationKeyForConcatenation::try_from(s.as_str()).ok())
                        .and_then(|k| k.to_json_hex().ok());
                    if committed.as_deref() != Some(avk.as_str()) {
                        fails.push("link-avk-not-committed");
                    }
                    let p = &cur.metadata.protocol_parameters;
                    let expected = ref_params_hash(p.k, p.m, p.phi_f);
                    if expected.is_none() || prev.protocol_message.get_message_part(&ProtocolMessagePartKey::NextProtocolParameters) != expected.as_ref() {
                        fails.push("link-parameters-not-committed");
                    }
                } else if cur.epoch.0.checked_add(1) == Some(prev.epoch.0) {
                    fails.push("link-to-following-epoch");
                } else {
                    fails.push("link-epoch-gap");
                }
                if first_in_head_segment.is_none() && fails.len() > before {
                    first_in_head_segment = Some(in_segment && prev.epoch == head.epoch);
                }
                cur = prev.clone();
            }
        }
    }
    fails.push("walk-too-long");
    (fails, first_in_head_segment.unwrap_or(false))
}

fn violation_key(fails: &[&'static str]) -> String {
    // the narrowest clause: the following-epoch class only when it is the ONLY failing clause
    let first_other = fails.iter().find(|f| **f != "link-to-following-epoch");
    format!("accepted:{}", first_other.unwrap_or(&"link-to-following-epoch"))
}

// ------------------------------------------------------------------------------------------------------------------
// the implementations
// ------------------------------------------------------------------------------------------------------------------

struct StoreRetriever {
    served: BTreeMap<String, Certificate>,
    log: Mutex<(usize, Vec<String>)>,
    budget: usize,
}

#[async_trait]
impl CertificateRetriever for StoreRetriever {
    async fn get_certificate_details(&self, hash: &str) -> Result<Certificate, CertificateRetrieverError> {
        let mut g = self.log.lock().unwrap();
        g.0 += 1;
        if g.0 > self.budget {
            return Err(CertificateRetrieverError(anyhow::anyhow!("provider call budget exhausted (loop)")));
        }
        g.1.push(hash.to_string());
        self.served.get(hash).cloned().ok_or_else(|| CertificateRetrieverError(anyhow::anyhow!("no certificate {hash}")))
    }
}

/// The real cache behind a lookup budget: a verifier that walks a cycle of cached links never asks the provider, so
/// the provider's budget cannot end such a walk; the cache's can (the walk then fails, which is "not accepted").
struct BudgetCache {
    inner: MemoryCertificateVerifierCache,
    lookups: Mutex<usize>,
    budget: usize,
}

#[async_trait]
impl CertificateVerifierCache for BudgetCache {
    async fn store_validated_certificate(&self, certificate_hash: &str, previous_certificate_hash: &str) -> MithrilResult<()> {
        self.inner.store_validated_certificate(certificate_hash, previous_certificate_hash).await
    }
    async fn get_previous_hash(&self, certificate_hash: &str) -> MithrilResult<Option<String>> {
        {
            let mut g = self.lookups.lock().unwrap();
            *g += 1;
            if *g > self.budget {
                return Err(anyhow::anyhow!("cache lookup budget exhausted (loop)"));
            }
        }
        self.inner.get_previous_hash(certificate_hash).await
    }
    async fn reset(&self) -> MithrilResult<()> {
        self.inner.reset().await
    }
}

struct StoreRequester {
    served: Mutex<BTreeMap<String, MithrilCertificate>>,
    log: Mutex<(usize, Vec<String>)>,
    budget: usize,
}

#[async_trait]
impl CertificateAggregatorRequest for StoreRequester {
    async fn list_latest(&self) -> MithrilResult<Vec<MithrilCertificateListItem>> {
        Ok(vec![])
    }
    async fn get_by_hash(&self, hash: &str) -> MithrilResult<Option<MithrilCertificate>> {
        let mut g = self.log.lock().unwrap();
        g.0 += 1;
        if g.0 > self.budget {
            return Err(anyhow::anyhow!("provider call budget exhausted (loop)"));
        }
        g.1.push(hash.to_string());
        Ok(self.served.lock().unwrap().get(hash).cloned())
    }
}

fn logger() -> slog::Logger {
    slog::Logger::root(slog::Discard, slog::o!())
}

fn served_certs(st: &Store) -> BTreeMap<String, Certificate> {
    st.served.iter().map(|(k, i)| (k.clone(), st.certs[*i].clone())).collect()
}

/// (accepted?, error text, hashes asked from the provider)
fn run_common(head: &Certificate, st: &Store, gv: &GenesisVerifier) -> (bool, String, Vec<String>) {
    let retriever = Arc::new(StoreRetriever { served: served_certs(st), log: Mutex::new((0, vec![])), budget: 4 * st.certs.len() + 16 });
    let verifier = MithrilCertificateVerifier::new(logger(), retriever.clone(), Arc::new(gv.clone()));
    let rt = tokio::runtime::Builder::new_current_thread().enable_all().build().expect("runtime");
    let r = catch(|| rt.block_on(verifier.verify_certificate_chain(head.clone())));
    let asked = retriever.log.lock().unwrap().1.clone();
    match r {
        Ok(Ok(())) => (true, String::new(), asked),
        Ok(Err(e)) => (false, format!("{e:#}"), asked),
        Err(p) => (false, format!("panic: {p}"), asked),
    }
}

fn to_messages(st: &Store) -> BTreeMap<String, MithrilCertificate> {
    st.served.iter().filter_map(|(k, i)| MithrilCertificate::try_from(st.certs[*i].clone()).ok().map(|m| (k.clone(), m))).collect()
}

fn error_class(e: &str) -> String {
    let e = e.rsplit(": ").next().unwrap_or(e);
    // drop hashes (labels must stay a small set)
    let mut out = String::new();
    let mut run = String::new();
    for ch in e.chars().chain([' ']) {
        if ch.is_ascii_hexdigit() {
            run.push(ch);
        } else {
            if run.len() >= 16 {
                out.push_str("<hash>");
            } else {
                out.push_str(&run);
            }
            run.clear();
            out.push(ch);
        }
    }
    out.trim().chars().take(48).collect()
}

/// report the first violation whose key is not an open known finding (so that a known class never masks another one),
/// otherwise the first
fn report_pending(rep: &mut Report, pending: Vec<(String, String)>, known: &[String]) {
    let pick = pending.iter().find(|(k, _)| !known.contains(k)).or(pending.first());
    if let Some((k, w)) = pick {
        rep.violation(k.clone(), w.clone());
    }
}

// ------------------------------------------------------------------------------------------------------------------
// case functions
// ------------------------------------------------------------------------------------------------------------------

fn pick_head(sel: &HeadSel, st: &Store, n_original: usize) -> usize {
    match sel {
        HeadSel::Last => n_original - 1,
        HeadSel::Raw(r) => pick_index(*r, st.certs.len()),
        HeadSel::Touched => {
            // the deepest touched certificate (most descendants re-pointed below it are visited from there)
            let leafs: Vec<usize> = st.touched.iter().copied().filter(|i| st.children(*i).is_empty()).collect();
            leafs.last().copied().or(st.touched.iter().next_back().copied()).unwrap_or(n_original - 1)
        }
    }
}

fn label_ops(rep: &mut Report, ops: &[Op], constant: bool) {
    for o in ops {
        rep.label(format!("op:{}", op_name(o)));
        match o {
            Op::Alter { field, rehash, .. } => {
                rep.label(format!("alter:{}:{}", field_name(field), if *rehash { "rehash" } else { "keep-hash" }));
            }
            Op::Resign { by, rehash, .. } => {
                if matches!(by, WorldSel::Adversary | WorldSel::AdversarySameParams) && *rehash {
                    rep.label("class:adversary-resign+rehash");
                }
            }
            Op::LaxParams { parent_too, first_after_genesis, .. } => {
                rep.label(format!("lax-params:parent-{}:{}", if *parent_too { "rewritten" } else { "untouched" }, if *first_after_genesis { "after-genesis" } else { "anywhere" }));
            }
            Op::AdvFork { parent, .. } => {
                rep.label("class:adversary-resign+rehash");
                rep.label(format!("advfork:parent-{parent:?}"));
            }
            _ => {}
        }
    }
    rep.label(if constant { "world:constant" } else { "world:rotating" });
}

fn case_fn(c: &Case, known: &[String]) -> Report {
    let mut pending: Vec<(String, String)> = vec![];
    let mut rep = Report::new();
    let Some(built) = chain_cached(&c.chain) else {
        rep.discard("chain does not build");
        return rep;
    };
    let Some(adv) = world_cached(&c.adv.world) else {
        rep.discard("adversary world does not build");
        return rep;
    };
    let cx = Ctx { built: &built, adv, adv_spec: &c.adv };
    let mut st = Store::new(&built);
    for op in &c.ops {
        apply_op(&mut st, op, &cx);
    }
    let n = built.certs.len();
    let head_slot = pick_head(&c.head, &st, n);
    let head = st.certs[head_slot].clone();
    let gv = &built.genesis_verifier;

    label_ops(&mut rep, &c.ops, c.chain.constant);
    for note in &st.notes {
        rep.label(format!("note:{note}"));
    }
    let retarget_next = st.notes.iter().any(|x| x == "retarget:next-epoch");
    if retarget_next && c.chain.constant {
        rep.label("class:retarget-next-epoch:constant-world");
    }

    // reference
    let mut universe = BTreeMap::new();
    for (_, i) in &st.served {
        universe_add(&mut universe, &st.certs[*i]);
    }
    universe_add(&mut universe, &head);
    let fails = ref_check(&head, &universe, gv);
    rep.label(if fails.is_empty() { "ref:valid" } else { "ref:invalid" });
    for f in &fails {
        rep.label(format!("ref-clause:{f}"));
    }

    // implementation 1: the common verifier
    let (acc, err, asked) = run_common(&head, &st, gv);
    rep.label(if acc { "common:accepts" } else { "common:rejects" });
    if !acc {
        rep.label(format!("common-error:{}", error_class(&err)));
    }
    let visited: BTreeSet<usize> = asked.iter().filter_map(|h| st.served.get(h).copied()).chain([head_slot]).collect();
    let visited_touched = st.touched.iter().any(|t| visited.contains(t));
    if c.ops.is_empty() {
        rep.label("untampered");
        if !acc {
            rep.label("honest-rejected");
        }
    }
    if visited_touched {
        let boundary = st.touched.iter().filter(|t| visited.contains(t)).map(|t| if st.children(*t).iter().any(|ch| st.offset[*ch] != st.offset[*t]) { "boundary" } else { "inner" }).next().unwrap_or("inner");
        let ops: Vec<String> = c
            .ops
            .iter()
            .map(|o| match o {
                Op::Alter { field, rehash, resync_msg, .. } => format!("Alter:{}:{}{}", field_name(field), *rehash as u8, *resync_msg as u8),
                Op::AlterResigned { field, by, .. } => format!("AlterResigned:{}:{by:?}", field_name(field)),
                Op::Resign { by, rehash, adopt_key, commit_next, .. } => format!("Resign:{by:?}:{}{}{}", *rehash as u8, *adopt_key as u8, *commit_next as u8),
                Op::AdvFork { parent, same_params, .. } => format!("AdvFork:{parent:?}:{}", *same_params as u8),
                Op::Retarget { rel, rehash, .. } => format!("Retarget:{rel:?}:{}", *rehash as u8),
                other => op_name(other),
            })
            .collect();
        rep.nontrivial(format!("{ops:?}|{boundary}|{}|{}|{}", c.chain.constant, fails.first().unwrap_or(&"valid"), acc));
    }
    if acc && !fails.is_empty() {
        pending.push((
            violation_key(&fails),
            format!("MithrilCertificateVerifier::verify_certificate_chain accepted head {} (epoch {}) although {:?}; ops={:?}", head.hash, head.epoch.0, fails, c.ops),
        ));
    }
    if !acc && fails.is_empty() {
        rep.label(format!("converse:valid-but-rejected:{}", error_class(&err)));
    }

    // implementation 2: the client, without cache (certificates travel as messages)
    if let Some(key) = st.served.iter().find(|(_, i)| **i == head_slot).map(|(k, _)| k.clone()) {
        let (acc2, err2, _) = run_client_once(&st, &key, gv);
        rep.label(if acc2 { "client:accepts" } else { "client:rejects" });
        if acc2 && !fails.is_empty() {
            pending.push((violation_key(&fails), format!("CertificateClient::verify_chain (no cache) accepted head {} (epoch {}) although {:?}; ops={:?}", head.hash, head.epoch.0, fails, c.ops)));
        }
        if acc2 != acc {
            rep.label(format!("client-differs-from-common:{}", error_class(&err2)));
        }
    }
    report_pending(&mut rep, pending, known);
    rep
}

fn run_client_once(st: &Store, key: &str, gv: &GenesisVerifier) -> (bool, String, Vec<String>) {
    let requester = Arc::new(StoreRequester { served: Mutex::new(to_messages(st)), log: Mutex::new((0, vec![])), budget: 4 * st.certs.len() + 16 });
    let r = catch(|| {
        let verifier = ClientCertificateVerifier::new(requester.clone(), &genesis_vk_hex(gv), FeedbackSender::new(&[]), None, logger())?;
        let client = CertificateClient::new(requester.clone(), Arc::new(verifier), logger());
        let rt = tokio::runtime::Builder::new_current_thread().enable_all().build().expect("runtime");
        rt.block_on(client.verify_chain(key)).map(|_| ())
    });
    let asked = requester.log.lock().unwrap().1.clone();
    match r {
        Ok(Ok(())) => (true, String::new(), asked),
        Ok(Err(e)) => (false, format!("{e:#}"), asked),
        Err(p) => (false, format!("panic: {p}"), asked),
    }
}

fn hist_case(c: &HistCase, known: &[String]) -> Report {
    let mut rep = Report::new();
    let mut pending: Vec<(String, String)> = vec![];
    let Some(built) = chain_cached(&c.chain) else {
        rep.discard("chain does not build");
        return rep;
    };
    let Some(adv) = world_cached(&c.adv.world) else {
        rep.discard("adversary world does not build");
        return rep;
    };
    let cx = Ctx { built: &built, adv, adv_spec: &c.adv };
    let gv = &built.genesis_verifier;
    let n = built.certs.len();
    let cache = Arc::new(BudgetCache { inner: MemoryCertificateVerifierCache::new(chrono::TimeDelta::try_hours(24).expect("delta")), lookups: Mutex::new(0), budget: 8 * n + 64 });
    let requester = Arc::new(StoreRequester { served: Mutex::new(BTreeMap::new()), log: Mutex::new((0, vec![])), budget: 8 * n + 64 });
    let rt = tokio::runtime::Builder::new_current_thread().enable_all().build().expect("runtime");
    let verifier = match ClientCertificateVerifier::new(requester.clone(), &genesis_vk_hex(gv), FeedbackSender::new(&[]), Some(cache.clone() as Arc<dyn CertificateVerifierCache>), logger()) {
        Ok(v) => v,
        Err(e) => {
            rep.discard(format!("client verifier not constructible: {e}"));
            return rep;
        }
    };
    let client = CertificateClient::new(requester.clone(), Arc::new(verifier), logger());
    let mut universe: BTreeMap<String, Certificate> = BTreeMap::new();
    let mut shape = vec![];
    rep.label("class:cache-history");
    rep.label(format!("history-steps:{}", c.steps.len()));
    for (si, step) in c.steps.iter().enumerate() {
        let mut st = Store::new(&built);
        for op in &step.ops {
            apply_op(&mut st, op, &cx);
        }
        let head_slot = pick_head(&step.head, &st, n);
        let Some(key) = st.served.iter().find(|(_, i)| **i == head_slot).map(|(k, _)| k.clone()) else {
            rep.label("history:head-not-served");
            continue;
        };
        // what the client will be given for the head: the served message, converted back
        let messages = to_messages(&st);
        let Some(head) = messages.get(&key).and_then(|m| Certificate::try_from(m.clone()).ok()) else {
            continue;
        };
        for (_, i) in &st.served {
            universe_add(&mut universe, &st.certs[*i]);
        }
        *requester.served.lock().unwrap() = messages;
        {
            let mut g = requester.log.lock().unwrap();
            g.0 = 0;
            g.1.clear();
        }
        *cache.lookups.lock().unwrap() = 0;
        let cached_before = rt.block_on(cache.inner.len());
        let r = catch(|| rt.block_on(client.verify_chain(&key)).map(|_| ()));
        let asked = requester.log.lock().unwrap().1.len();
        let (acc, err) = match r {
            Ok(Ok(())) => (true, String::new()),
            Ok(Err(e)) => (false, format!("{e:#}")),
            Err(p) => (false, format!("panic: {p}")),
        };
        let (fails, first_in_head_segment) = ref_check_at(&head, &universe, gv);
        // the walk was shortened by the cache iff fewer certificates were fetched than the reference walk is long
        let cached_after = rt.block_on(cache.inner.len());
        if *cache.lookups.lock().unwrap() > cache.budget {
            rep.label("history:cache-lookup-budget-exhausted");
        }
        if acc && cached_before > 0 {
            rep.label("history:accept-with-warm-cache");
        }
        if cached_after > cached_before {
            rep.label("history:cache-grew");
        }
        rep.label(format!("history:step{}:{}:{}", si.min(3), if acc { "accepts" } else { "rejects" }, if fails.is_empty() { "ref-valid" } else { "ref-invalid" }));
        for o in &step.ops {
            rep.label(format!("op:{}", op_name(o)));
        }
        let ops: Vec<String> = step.ops.iter().map(op_name).collect();
        shape.push(format!("{ops:?}:{}:{}:{}", acc, fails.first().unwrap_or(&"valid"), asked.min(9)));
        if acc && !fails.is_empty() {
            // is the acceptance due to the cache? A fresh client without cache on the same provider state decides.
            let (fresh_accepts, _, _) = run_client_once(&st, &key, gv);
            // One key for every acceptance that only happens with the cache: whatever clause fails, the root cause is that a
            // cached hash short-cuts the verification of content the provider serves NOW (recorded per clause / position).
            let key_v = if fresh_accepts {
                violation_key(&fails)
            } else {
                rep.label(format!("history:cache-only-acceptance:{}:{}", if first_in_head_segment { "inside-head-epoch" } else { "behind-epoch-boundary" }, fails[0]));
                KEY_CACHE_POISON.to_string()
            };
            pending.push((
                key_v,
                format!(
                    "step {si}: CertificateClient::verify_chain (verifier cache enabled, {cached_before} cached links; a fresh client without cache {}) accepted head {} (epoch {}) although {:?}; steps={:?}",
                    if fresh_accepts { "accepts too" } else { "rejects" },
                    head.hash,
                    head.epoch.0,
                    fails,
                    c.steps
                ),
            ));
        }
        if !acc && fails.is_empty() {
            rep.label(format!("converse:valid-but-rejected:{}", error_class(&err)));
        }
    }
    rep.nontrivial(format!("{}|{shape:?}", c.chain.constant));
    report_pending(&mut rep, pending, known);
    rep
}

// ------------------------------------------------------------------------------------------------------------------
// strategies
// ------------------------------------------------------------------------------------------------------------------

fn world_sel() -> impl Strategy<Value = WorldSel> {
    prop_oneof![
        3 => Just(WorldSel::Adversary),
        2 => Just(WorldSel::AdversarySameParams),
        2 => (-1i8..=2).prop_map(WorldSel::Offset),
        1 => any::<u16>().prop_map(WorldSel::Pool),
    ]
}

fn field_alter() -> impl Strategy<Value = FieldAlter> {
    let small = || prop_oneof![Just(1i8), Just(-1i8), Just(2i8), Just(-2i8), any::<i8>()];
    prop::strategy::Union::new(vec![
        (prop::option::of(any::<u16>()), any::<u64>()).prop_map(|(other, seed)| FieldAlter::Hash { other, seed }).boxed(),
        any::<u64>().prop_map(FieldAlter::PreviousHashRandom).boxed(),
        small().prop_map(FieldAlter::EpochAdd).boxed(),
        u64_interesting().prop_map(FieldAlter::EpochSet).boxed(),
        prop::sample::select(vec!["", "mainnet", "testnet ", "x"]).prop_map(|s| FieldAlter::Network(s.to_string())).boxed(),
        prop::sample::select(vec!["", "0.1.1", "9.9.9"]).prop_map(|s| FieldAlter::Version(s.to_string())).boxed(),
        small().prop_map(FieldAlter::ParamK).boxed(),
        small().prop_map(FieldAlter::ParamM).boxed(),
        prop_oneof![Just(0i8), Just(1i8), Just(-1i8), any::<i8>()].prop_map(FieldAlter::ParamPhi).boxed(),
        prop_oneof![Just(1i64), Just(-1i64), any::<i64>()].prop_map(FieldAlter::InitiatedAt).boxed(),
        prop_oneof![Just(1i64), Just(-1i64), any::<i64>()].prop_map(FieldAlter::SealedAt).boxed(),
        Just(FieldAlter::SignersDrop).boxed(),
        any::<u64>().prop_map(FieldAlter::SignersAdd).boxed(),
        (any::<u16>(), small()).prop_map(|(j, d)| FieldAlter::SignerStake(j, d)).boxed(),
        small().prop_map(FieldAlter::PartEpochAdd).boxed(),
        world_sel().prop_map(FieldAlter::PartNextAvk).boxed(),
        world_sel().prop_map(FieldAlter::PartNextParams).boxed(),
        any::<u64>().prop_map(FieldAlter::PartDigest).boxed(),
        any::<u8>().prop_map(FieldAlter::PartRemove).boxed(),
        (any::<u8>(), any::<u64>()).prop_map(|(k, s)| FieldAlter::PartAdd(k, s)).boxed(),
        any::<u64>().prop_map(FieldAlter::SignedMessageRandom).boxed(),
        world_sel().prop_map(FieldAlter::Avk).boxed(),
        (0u8..5).prop_map(FieldAlter::EntityVariant).boxed(),
        any::<u64>().prop_map(FieldAlter::EntityNumber).boxed(),
        any::<u16>().prop_map(FieldAlter::SignatureOf).boxed(),
    ])
}

fn parent_fix() -> impl Strategy<Value = ParentFix> {
    prop_oneof![Just(ParentFix::None), Just(ParentFix::Commit), Just(ParentFix::CommitResync), Just(ParentFix::CommitResyncRehash), Just(ParentFix::CommitFakeBoundary)]
}

fn rel() -> impl Strategy<Value = Rel> {
    prop_oneof![2 => Just(Rel::SameEpoch), 2 => Just(Rel::Previous), 4 => Just(Rel::Next), 2 => Just(Rel::Older), 1 => Just(Rel::Genesis), 1 => Just(Rel::Own), 2 => Just(Rel::Raw)]
}

fn op_strategy() -> impl Strategy<Value = Op> {
    let b = || any::<bool>();
    let mostly = || prop::bool::weighted(0.75);
    let part_alter = prop_oneof![
        4 => (0u8..8).prop_map(FieldAlter::PartRemove),
        2 => prop_oneof![Just(-1i8), Just(1i8), Just(2i8)].prop_map(FieldAlter::PartEpochAdd),
        1 => (0u8..12, any::<u64>()).prop_map(|(k, s)| FieldAlter::PartAdd(k, s)),
        1 => any::<u64>().prop_map(FieldAlter::PartDigest),
    ];
    prop_oneof![
        4 => (any::<u16>(), part_alter, prop_oneof![4 => Just(WorldSel::Offset(0)), 1 => Just(WorldSel::Offset(-1)), 1 => Just(WorldSel::AdversarySameParams)]).prop_map(|(at, field, by)| Op::AlterResigned { at, field, by }),
        6 => (any::<u16>(), field_alter(), b(), mostly(), mostly()).prop_map(|(at, field, resync_msg, rehash, repoint)| Op::Alter { at, field, resync_msg, rehash, repoint }),
        3 => (any::<u16>(), world_sel(), mostly(), b(), mostly(), mostly()).prop_map(|(at, by, adopt_key, commit_next, rehash, repoint)| Op::Resign { at, by, adopt_key, commit_next, rehash, repoint }),
        3 => (any::<u16>(), b(), parent_fix()).prop_map(|(at, same_params, parent)| Op::AdvFork { at, same_params, parent }),
        2 => (any::<u16>(), b(), mostly()).prop_map(|(at, first_after_genesis, parent_too)| Op::LaxParams { at, first_after_genesis, parent_too }),
        4 => (any::<u16>(), rel(), any::<u16>(), mostly(), mostly()).prop_map(|(at, rel, to, rehash, repoint)| Op::Retarget { at, rel, to, rehash, repoint }),
        1 => any::<u16>().prop_map(|at| Op::Drop { at }),
        1 => (any::<u16>(), any::<u16>()).prop_map(|(key_of, cert)| Op::ServeFor { key_of, cert }),
        1 => (any::<u16>(), 0u8..3).prop_map(|(at, up)| Op::ServeAncestorForParent { at, up }),
        1 => (any::<u16>(), any::<u16>(), any::<i64>()).prop_map(|(at, child, delta)| Op::Duplicate { at, child, delta }),
        1 => (any::<u16>(), 0u8..3).prop_map(|(at, mode)| Op::SelfLoop { at, mode }),
        1 => (mostly(), mostly()).prop_map(|(rehash, repoint)| Op::GenesisOtherKey { rehash, repoint }),
        1 => (any::<u16>(), b(), mostly(), mostly()).prop_map(|(at, adversary_key, rehash, repoint)| Op::StandardAsGenesis { at, adversary_key, rehash, repoint }),
        1 => (world_sel(), mostly(), mostly()).prop_map(|(by, rehash, repoint)| Op::GenesisAsStandard { by, rehash, repoint }),
    ]
}

fn adv_strategy() -> impl Strategy<Value = AdvSpec> {
    (world_strategy(), any::<u64>()).prop_map(|(world, genesis_seed)| AdvSpec { world, genesis_seed })
}

fn head_strategy() -> impl Strategy<Value = HeadSel> {
    prop_oneof![2 => Just(HeadSel::Last), 3 => Just(HeadSel::Touched), 1 => any::<u16>().prop_map(HeadSel::Raw)]
}

fn case_strategy(pool: Vec<ChainSpec>) -> impl Strategy<Value = Case> {
    (prop::sample::select(pool), adv_strategy(), prop_oneof![1 => Just(vec![]), 8 => prop::collection::vec(op_strategy(), 1..=1), 3 => prop::collection::vec(op_strategy(), 2..=3)], head_strategy())
        .prop_map(|(chain, adv, ops, head)| Case { chain, adv, ops, head })
}

fn hist_strategy(pool: Vec<ChainSpec>) -> impl Strategy<Value = HistCase> {
    let step = || (prop_oneof![2 => Just(vec![]), 3 => prop::collection::vec(op_strategy(), 1..=2)], head_strategy()).prop_map(|(ops, head)| Step { ops, head });
    // the shapes named in the design: honest first then tampered sharing a suffix, the reverse, and the same fork served
    // with and without the parent's (unverifiable) commitment
    let fork_pattern = (any::<u16>(), any::<bool>(), parent_fix(), parent_fix(), any::<bool>(), head_strategy(), head_strategy(), prop::option::weighted(0.4, 0u8..3)).prop_map(
        |(at, same_params, p1, p2, honest_first, h1, h2, swap_parent)| {
            let mut steps = vec![];
            if honest_first {
                steps.push(Step { ops: vec![], head: HeadSel::Last });
            }
            steps.push(Step { ops: vec![Op::AdvFork { at, same_params, parent: p1 }], head: h1 });
            let mut ops = vec![Op::AdvFork { at, same_params, parent: p2 }];
            if let Some(up) = swap_parent {
                // the fork's (unverifiable) parent is replaced on the wire by one of its honest ancestors
                ops.push(Op::ServeAncestorForParent { at, up });
            }
            steps.push(Step { ops, head: h2 });
            steps
        },
    );
    (prop::sample::select(pool), adv_strategy(), prop_oneof![2 => prop::collection::vec(step(), 2..=4), 1 => fork_pattern]).prop_map(|(chain, adv, steps)| HistCase { chain, adv, steps })
}

// ------------------------------------------------------------------------------------------------------------------
// long walks
// ------------------------------------------------------------------------------------------------------------------

/// "reaches, in finitely many steps, a genesis certificate": `len` certificates of ONE epoch, all validly signed by the
/// provider's own signer set, linked in a row (same epoch, same key, same parameters: every link is well-formed), the
/// oldest one pointing to a certificate the provider does not serve - no genesis anywhere
#[derive(Clone, Debug, Serialize, Deserialize)]
pub struct LongCase {
    pub len: u32,
}

fn long_case(c: &LongCase) -> Report {
    let mut rep = Report::new();
    rep.label(format!("long-walk:{}", c.len));
    let (Some(built), Some(w)) = (chain_cached(&witness_chain()), world_cached(&witness_adv().world)) else {
        rep.discard("fixtures do not build");
        return rep;
    };
    let Some(base) = built.certs.iter().rev().find(|x| !x.is_genesis()).cloned() else {
        rep.discard("no standard certificate");
        return rep;
    };
    let mut tmpl = base;
    set_commitment(&mut tmpl, &w);
    tmpl.signed_message = tmpl.protocol_message.compute_hash();
    adopt_key(&mut tmpl, &w);
    if !resign(&mut tmpl, &w) {
        rep.discard("the provider's signers do not reach their quorum");
        return rep;
    }
    let mut served = BTreeMap::new();
    let mut prev = "0000000000000000000000000000000000000000000000000000000000000000".to_string();
    let mut head = tmpl.clone();
    let t0 = tmpl.metadata.sealed_at.timestamp_nanos_opt().unwrap_or(0);
    for i in 0..c.len {
        let mut x = tmpl.clone();
        x.metadata.sealed_at = chrono::DateTime::from_timestamp_nanos(t0.wrapping_add(i as i64));
        x.previous_hash = prev.clone();
        rehash(&mut x);
        prev = x.hash.clone();
        served.insert(x.hash.clone(), x.clone());
        head = x;
    }
    let retriever = Arc::new(StoreRetriever { served, log: Mutex::new((0, vec![])), budget: c.len as usize + 64 });
    let verifier = MithrilCertificateVerifier::new(logger(), retriever.clone(), Arc::new(built.genesis_verifier.clone()));
    let rt = tokio::runtime::Builder::new_current_thread().enable_all().build().expect("runtime");
    let r = catch(|| rt.block_on(verifier.verify_certificate_chain(head.clone())));
    let asked = retriever.log.lock().unwrap().0;
    rep.nontrivial(format!("long-walk|{}", c.len));
    match r {
        Ok(Ok(())) => {
            rep.violation(
                "accepted:walk-never-reaches-genesis",
                format!("verify_certificate_chain accepted the newest of {} certificates of one epoch signed by the provider's own signers and linked in a row; the oldest points to a certificate that is not served, there is no genesis certificate ({asked} certificates were asked for)", c.len),
            );
        }
        Ok(Err(_)) => {
            rep.label("long-walk:rejected");
        }
        Err(p) => {
            rep.violation("panic-in-verifier", format!("verifier panicked on a walk of {} certificates: {p}", c.len));
        }
    }
    rep
}

// ------------------------------------------------------------------------------------------------------------------
// witnesses
// ------------------------------------------------------------------------------------------------------------------

fn witness_chain() -> ChainSpec {
    let plan = |link: u16, same: bool, seed: u64| CertPlan { link, same_epoch_first: same, entity: 2, n1: seed, n2: 0, seed };
    ChainSpec {
        genesis_seed: 1,
        start_epoch: 10,
        constant: true,
        worlds: vec![WorldSpec { seed: 11, stakes: vec![100, 200, 300], params: PSpec::new(2, 8, 1.0) }, WorldSpec { seed: 12, stakes: vec![150, 250], params: PSpec::new(2, 8, 1.0) }],
        // epoch 10: genesis; epoch 11: A, B -> A; epoch 12: C -> A
        epochs: vec![vec![], vec![plan(0, false, 1), plan(0, true, 2)], vec![plan(0, false, 3)]],
        network: "testnet".into(),
    }
}

fn witness_adv() -> AdvSpec {
    AdvSpec { world: WorldSpec { seed: 99, stakes: vec![500, 500], params: PSpec::new(2, 8, 1.0) }, genesis_seed: 98 }
}

fn witness_following_epoch_case() -> Case {
    Case { chain: witness_chain(), adv: witness_adv(), ops: vec![Op::Retarget { at: 32768, rel: Rel::Next, to: 0, rehash: true, repoint: true }], head: HeadSel::Touched }
}

/// certificate B of epoch 11 is re-pointed (and re-hashed) to certificate C of epoch 12: accepted?
fn witness_following_epoch() -> bool {
    let c = witness_following_epoch_case();
    let r = case_fn(&c, &[]);
    matches!(&r.outcome, vcore::Outcome::Violation { key, .. } if key == KEY_FOLLOWING_EPOCH)
}

/// honest chain verified first (cache warm), then the adversary's fork served together with a parent carrying the
/// commitment the fork needs (stored hash kept): accepted?
fn witness_cache_poison_case() -> HistCase {
    HistCase {
        chain: witness_chain(),
        adv: witness_adv(),
        steps: vec![
            Step { ops: vec![], head: HeadSel::Last },
            Step { ops: vec![Op::AdvFork { at: 65535, same_params: true, parent: ParentFix::Commit }], head: HeadSel::Touched },
        ],
    }
}

/// development aid (never set by the registered commands): write the witness cases as replay files
fn write_witness_replays() {
    let root = std::env::var("VERIF_ROOT").unwrap_or_else(|_| "/verif".into());
    let dir = std::path::Path::new(&root).join("replays").join("C03");
    let _ = std::fs::create_dir_all(&dir);
    let files = [
        ("witness-link-to-following-epoch.json", "tampered-provider", KEY_FOLLOWING_EPOCH, serde_json::to_value(witness_following_epoch_case()).unwrap()),
        ("witness-client-cache.json", "client-cache-history", KEY_CACHE_POISON, serde_json::to_value(witness_cache_poison_case()).unwrap()),
    ];
    for (name, section, key, case) in files {
        let body = serde_json::json!({"property": "C03", "section": section, "seed": 0, "tier": "quick", "key": key, "what": "hand-minimised witness case", "case": case});
        let _ = std::fs::write(dir.join(name), serde_json::to_string_pretty(&body).unwrap());
    }
}

fn witness_cache_poison() -> bool {
    let c = witness_cache_poison_case();
    let r = hist_case(&c, &[]);
    matches!(&r.outcome, vcore::Outcome::Violation { key, .. } if key == KEY_CACHE_POISON)
}

pub fn run(args: &Args) -> i32 {
    let mut check = Check::new("C03", "exploration", args);
    // cases are expensive and come from a pool (little to shrink): bound the shrinking work
    check.shrink_iters(48);
    check
        .rule(
            "honest chain (1-6 epochs, 1-3 certificates per epoch, constant or rotating signer worlds) + 0-3 provider tamper ops (+ an adversary world and key); \
             non-trivial = at least one tampered certificate is the head or was fetched by the verifier; distinct by (op kinds with field / re-hash / re-sync / signer world, \
             position at an epoch boundary or not, world mode, first failing reference clause, verdict). History cases: 2-4 verify_chain calls sharing one verifier cache; \
             distinct by the per-step (ops, verdict, reference clause, provider calls)",
        )
        .assume("SHA-256 / certificate hash collision-free (C04); STM aggregate verification and Ed25519 verify_strict are trusted primitives (C01); key codecs trusted (C05)")
        .assume("the provider cannot sign with honest signer keys or the honest genesis key; it can with its own; certificates are tampered as entities (message-level malformations are C05)")
        .assume("the reference walks over every certificate the provider served (in any call of a history) whose stored hash matches its content")
        .require_label("class:adversary-resign+rehash")
        .require_label("class:retarget-next-epoch:constant-world")
        .require_label("op:GenesisOtherKey")
        .require_label("op:StandardAsGenesis")
        .require_label("op:GenesisAsStandard")
        .require_label("op:Drop")
        .require_label("op:ServeFor")
        .require_label("op:ServeAncestorForParent")
        .require_label("op:Duplicate")
        .require_label("op:SelfLoop")
        .require_label("class:cache-history")
        .require_label("history:accept-with-warm-cache")
        .require_label("ref:valid")
        .require_label("ref:invalid")
        .require_label("world:constant")
        .require_label("world:rotating");
    if std::env::var("VERIF_WRITE_WITNESS_REPLAYS").is_ok() {
        write_witness_replays();
    }
    let t = check.tier;
    let known: Vec<String> = [KEY_FOLLOWING_EPOCH, KEY_CACHE_POISON].iter().filter(|k| !args.strict && check.has_open_known(k)).map(|k| k.to_string()).collect();
    let pool: Vec<ChainSpec> = if check.is_replay() { vec![vcore::sample_one(&chain_strategy(2), 1)] } else { chain_pool(check.seed, t.pick(400, 5000) as usize, 6, check.threads) };
    if pool.is_empty() {
        check.inconclusive("no honest chain could be built".into());
        return check.finish();
    }
    {
        let pool = pool.clone();
        check.section("tampered-provider", move || case_strategy(pool.clone()), t.pick(8000, 80_000), |c: &Case| case_fn(c, &known));
    }
    {
        let pool = pool.clone();
        check.section("client-cache-history", move || hist_strategy(pool.clone()), t.pick(3000, 30_000), |c: &HistCase| hist_case(c, &known));
    }
    // walks far longer than any honest chain segment the generated cases contain
    check.enumerate("long-walks", [40u32, 300, 1100, 2500].into_iter().map(|len| LongCase { len }), false, long_case);
    if check.label_count("honest-rejected") > 0 {
        check.inconclusive("an untampered honest chain was rejected: the harness' chain builder is wrong".into());
    }
    check.witness(KEY_FOLLOWING_EPOCH, "a link to a certificate of the FOLLOWING epoch is accepted (constant signer set)", witness_following_epoch);
    check.witness(KEY_CACHE_POISON, "with the verifier cache, a fork whose key the honest parent never committed to is accepted", witness_cache_poison);
    let _ = mix(0, 0);
    check.finish()
}
