//! Shared helpers of the C03 / C04 checks (included by `#[path]` from both files).
//!
//! * STM "worlds" (key registrations + signers + clerk) built from generated seeds through the public mithril-stm API,
//! * genesis key pairs from seeds,
//! * honest certificate chains built from a small, serialisable [`ChainSpec`] (cached per process: the same chain
//!   serves many tampering cases),
//! * [`CertSpec`]: a field-by-field, serialisable description of one certificate (used by C04).
#![allow(dead_code)]

use std::collections::{BTreeMap, HashMap};
use std::sync::{Arc, Mutex, OnceLock};

use chrono::{DateTime, Utc};
use mithril_common::crypto_helper::{
    GenesisEd25519Signature, GenesisEd25519Signer, GenesisSigner, GenesisVerifier, ProtocolAggregateVerificationKeyForConcatenation,
    ProtocolMultiSignature,
};
use mithril_common::entities::{
    BlockNumber, BlockNumberOffset, CardanoDbBeacon, Certificate, CertificateMetadata, CertificateSignature, Epoch, ProtocolMessage,
    ProtocolMessagePartKey, ProtocolParameters, SignedEntityType, StakeDistributionParty,
};
use mithril_stm::{
    AggregateSignatureType, AggregateVerificationKey, AncillaryGenesisData, AncillaryProofInput, Clerk, Initializer, KeyRegistration,
    MithrilMembershipDigest, Parameters, Signer,
};
use proptest::prelude::*;
use rand_chacha::ChaCha20Rng;
use rand_core::SeedableRng;
use serde::{Deserialize, Serialize};
use sha2::{Digest, Sha256};
use vcore::{mix, pick_index};

pub type D = MithrilMembershipDigest;

pub const ALL_KEYS: [ProtocolMessagePartKey; 12] = [
    ProtocolMessagePartKey::SnapshotDigest,
    ProtocolMessagePartKey::CardanoTransactionsMerkleRoot,
    ProtocolMessagePartKey::CardanoBlocksTransactionsMerkleRoot,
    ProtocolMessagePartKey::NextAggregateVerificationKey,
    ProtocolMessagePartKey::NextProtocolParameters,
    ProtocolMessagePartKey::CurrentEpoch,
    ProtocolMessagePartKey::LatestBlockNumber,
    ProtocolMessagePartKey::CardanoBlocksTransactionsBlockNumberOffset,
    ProtocolMessagePartKey::CardanoStakeDistributionEpoch,
    ProtocolMessagePartKey::CardanoStakeDistributionMerkleRoot,
    ProtocolMessagePartKey::CardanoDatabaseMerkleRoot,
    ProtocolMessagePartKey::NextSnarkAggregateVerificationKey,
];

pub fn seed_bytes(seed: u64) -> [u8; 32] {
    let mut s = [0u8; 32];
    for i in 0..4 {
        s[i * 8..(i + 1) * 8].copy_from_slice(&mix(seed, 0x5eed + i as u64).to_le_bytes());
    }
    s
}

pub fn hex_digest(seed: u64) -> String {
    hex::encode(seed_bytes(seed))
}

// ------------------------------------------------------------------------------------------------------------------
// protocol parameters
// ------------------------------------------------------------------------------------------------------------------

#[derive(Clone, Debug, Serialize, Deserialize, PartialEq)]
pub struct PSpec {
    pub k: u64,
    pub m: u64,
    /// phi_f as IEEE bits (exact through replay files)
    pub phi_bits: u64,
}

impl PSpec {
    pub fn new(k: u64, m: u64, phi: f64) -> PSpec {
        PSpec { k, m, phi_bits: phi.to_bits() }
    }
    pub fn phi(&self) -> f64 {
        f64::from_bits(self.phi_bits)
    }
    pub fn stm(&self) -> Parameters {
        Parameters { m: self.m, k: self.k, phi_f: self.phi() }
    }
    pub fn entity(&self) -> ProtocolParameters {
        ProtocolParameters::new(self.k, self.m, self.phi())
    }
}

/// phi at the protocol's fixed-point precision (U8F24, round to nearest, ties to even), computed without the
/// `fixed` crate: scaling by 2^24 is exact in binary floating point. None outside [0, 256).
pub fn phi_fixed(phi: f64) -> Option<u32> {
    if !(phi >= 0.0) || phi >= 256.0 {
        return None;
    }
    let scaled = (phi * 16_777_216.0).round_ties_even();
    if scaled >= 4_294_967_296.0 { None } else { Some(scaled as u32) }
}

/// reference digest of protocol parameters: sha256(k_be ‖ m_be ‖ phi_fixed_be), hex
pub fn ref_params_hash(k: u64, m: u64, phi: f64) -> Option<String> {
    let f = phi_fixed(phi)?;
    let mut h = Sha256::new();
    h.update(k.to_be_bytes());
    h.update(m.to_be_bytes());
    h.update(f.to_be_bytes());
    Some(hex::encode(h.finalize()))
}

// ------------------------------------------------------------------------------------------------------------------
// STM worlds
// ------------------------------------------------------------------------------------------------------------------

#[derive(Clone, Debug, Serialize, Deserialize, PartialEq)]
pub struct WorldSpec {
    pub seed: u64,
    pub stakes: Vec<u64>,
    pub params: PSpec,
}

pub struct World {
    pub spec: WorldSpec,
    pub params: Parameters,
    pub signers: Vec<Signer<D>>,
    pub clerk: Clerk<D>,
    pub avk: AggregateVerificationKey<D>,
    /// json-hex of the concatenation aggregate verification key (the wire / protocol-message form)
    pub avk_hex: String,
    pub parties: Vec<StakeDistributionParty>,
}

impl World {
    pub fn build(spec: &WorldSpec) -> Option<World> {
        let params = spec.params.stm();
        if spec.stakes.is_empty() || spec.stakes.iter().any(|s| *s == 0) {
            return None;
        }
        let mut total = 0u64;
        for s in &spec.stakes {
            total = total.checked_add(*s)?;
        }
        let _ = total;
        let inits: Vec<Initializer> = spec
            .stakes
            .iter()
            .enumerate()
            .map(|(i, st)| {
                let mut rng = ChaCha20Rng::from_seed(seed_bytes(mix(spec.seed, i as u64)));
                Initializer::new(params, *st, &mut rng)
            })
            .collect();
        let mut reg = KeyRegistration::initialize();
        for i in &inits {
            reg.register_by_entry(&i.clone().try_into().ok()?).ok()?;
        }
        let closed = reg.close_registration(&params).ok()?;
        let signers: Vec<Signer<D>> = inits.iter().map(|i| i.clone().try_create_signer::<D>(&closed)).collect::<Result<_, _>>().ok()?;
        let clerk = Clerk::new_clerk_from_closed_key_registration(&params, &closed);
        let avk = clerk.compute_aggregate_verification_key();
        let avk_key: ProtocolAggregateVerificationKeyForConcatenation = avk.to_concatenation_aggregate_verification_key().to_owned().into();
        let avk_hex = avk_key.to_json_hex().ok()?;
        let parties = spec
            .stakes
            .iter()
            .enumerate()
            .map(|(i, st)| StakeDistributionParty { party_id: format!("pool{:x}p{i}", spec.seed & 0xffff_ffff), stake: *st })
            .collect();
        Some(World { spec: spec.clone(), params, signers, clerk, avk, avk_hex, parties })
    }

    pub fn avk_key(&self) -> ProtocolAggregateVerificationKeyForConcatenation {
        self.avk.to_concatenation_aggregate_verification_key().to_owned().into()
    }

    /// honest multi-signature of `msg` (None if the lotteries did not reach the quorum)
    pub fn sign(&self, msg: &[u8]) -> Option<ProtocolMultiSignature> {
        let sigs: Vec<_> = self.signers.iter().filter_map(|s| s.create_single_signature(msg).ok()).collect();
        let (agg, _) = self
            .clerk
            .aggregate_signatures_with_type(
                &sigs,
                msg,
                AggregateSignatureType::Concatenation,
                AncillaryProofInput::new(None, AncillaryGenesisData::new()),
            )
            .ok()?;
        Some(agg.into())
    }
}

static WORLDS: OnceLock<Mutex<HashMap<String, Option<Arc<World>>>>> = OnceLock::new();

pub fn world_cached(spec: &WorldSpec) -> Option<Arc<World>> {
    let key = serde_json::to_string(spec).unwrap_or_default();
    let cache = WORLDS.get_or_init(Default::default);
    if let Some(w) = cache.lock().unwrap().get(&key) {
        return w.clone();
    }
    let w = World::build(spec).map(Arc::new);
    let mut g = cache.lock().unwrap();
    if g.len() > 4000 {
        g.clear();
    }
    g.insert(key, w.clone());
    w
}

/// cheap-quorum worlds: 2–5 signers, phi = 1 (every signer wins every lottery) or high
pub fn world_strategy() -> impl Strategy<Value = WorldSpec> {
    (
        any::<u64>(),
        prop::collection::vec(100u64..1000, 2..=5),
        2u64..=4,
        0u64..=8,
        prop_oneof![3 => Just(1.0f64), 1 => Just(0.9f64)],
    )
        .prop_map(|(seed, stakes, k, extra, phi)| WorldSpec { seed, stakes, params: PSpec::new(k, 3 * k + extra, phi) })
}

// ------------------------------------------------------------------------------------------------------------------
// genesis keys
// ------------------------------------------------------------------------------------------------------------------

pub fn genesis_signer(seed: u64) -> GenesisSigner {
    let rng = ChaCha20Rng::from_seed(seed_bytes(mix(seed, 0x6e5)));
    GenesisSigner::from_ed25519(GenesisEd25519Signer::create_test_signer(rng))
}

pub fn genesis_vk_hex(verifier: &GenesisVerifier) -> String {
    verifier.to_ed25519_verification_key().to_json_hex().expect("vk hex")
}

// ------------------------------------------------------------------------------------------------------------------
// signed entity types
// ------------------------------------------------------------------------------------------------------------------

#[derive(Clone, Debug, Serialize, Deserialize, PartialEq, Eq)]
pub enum EntitySpec {
    Msd(u64),
    Csd(u64),
    Cdb(u64, u64),
    Ctx(u64, u64),
    Cbt(u64, u64, u64),
}

impl EntitySpec {
    pub fn entity(&self) -> SignedEntityType {
        match *self {
            EntitySpec::Msd(e) => SignedEntityType::MithrilStakeDistribution(Epoch(e)),
            EntitySpec::Csd(e) => SignedEntityType::CardanoStakeDistribution(Epoch(e)),
            EntitySpec::Cdb(e, n) => SignedEntityType::CardanoDatabase(CardanoDbBeacon::new(e, n)),
            EntitySpec::Ctx(e, n) => SignedEntityType::CardanoTransactions(Epoch(e), BlockNumber(n)),
            EntitySpec::Cbt(e, n, o) => SignedEntityType::CardanoBlocksTransactions(Epoch(e), BlockNumber(n), BlockNumberOffset(o)),
        }
    }
    pub fn of(t: &SignedEntityType) -> EntitySpec {
        match t {
            SignedEntityType::MithrilStakeDistribution(e) => EntitySpec::Msd(e.0),
            SignedEntityType::CardanoStakeDistribution(e) => EntitySpec::Csd(e.0),
            SignedEntityType::CardanoDatabase(b) => EntitySpec::Cdb(b.epoch.0, b.immutable_file_number),
            SignedEntityType::CardanoTransactions(e, n) => EntitySpec::Ctx(e.0, n.0),
            SignedEntityType::CardanoBlocksTransactions(e, n, o) => EntitySpec::Cbt(e.0, n.0, o.0),
        }
    }
    pub fn name(&self) -> &'static str {
        match self {
            EntitySpec::Msd(..) => "MSD",
            EntitySpec::Csd(..) => "CSD",
            EntitySpec::Cdb(..) => "CDb",
            EntitySpec::Ctx(..) => "CTx",
            EntitySpec::Cbt(..) => "CBT",
        }
    }
    pub fn numbers(&self) -> Vec<u64> {
        match *self {
            EntitySpec::Msd(e) | EntitySpec::Csd(e) => vec![e],
            EntitySpec::Cdb(e, n) | EntitySpec::Ctx(e, n) => vec![e, n],
            EntitySpec::Cbt(e, n, o) => vec![e, n, o],
        }
    }
    /// the same numbers under variant `v` (0..5), padding / truncating the number list
    pub fn with_variant(&self, v: u8, pad: u64) -> EntitySpec {
        let mut n = self.numbers();
        n.resize(3, pad);
        match v % 5 {
            0 => EntitySpec::Msd(n[0]),
            1 => EntitySpec::Csd(n[0]),
            2 => EntitySpec::Cdb(n[0], n[1]),
            3 => EntitySpec::Ctx(n[0], n[1]),
            _ => EntitySpec::Cbt(n[0], n[1], n[2]),
        }
    }
}

pub fn u64_interesting() -> impl Strategy<Value = u64> {
    prop_oneof![
        4 => 0u64..20,
        2 => any::<u64>(),
        1 => prop::sample::select(vec![0u64, 1, 255, 256, 65535, 65536, u32::MAX as u64, 1 << 32, (1 << 53) - 1, 1 << 53, (1 << 53) + 1, i64::MAX as u64, 1 << 63, u64::MAX - 1, u64::MAX]),
    ]
}

pub fn entity_strategy() -> impl Strategy<Value = EntitySpec> {
    (0u8..5, u64_interesting(), u64_interesting(), u64_interesting()).prop_map(|(v, a, b, c)| EntitySpec::Cbt(a, b, c).with_variant(v, 0))
}

// ------------------------------------------------------------------------------------------------------------------
// honest chains
// ------------------------------------------------------------------------------------------------------------------

#[derive(Clone, Debug, Serialize, Deserialize)]
pub struct CertPlan {
    /// raw selector of the parent among the allowed ones (earlier certificates of the same epoch, every certificate of
    /// the previous epoch)
    pub link: u16,
    /// prefer a parent in the same epoch when there is one (the aggregator's "master certificate" shape)
    pub same_epoch_first: bool,
    pub entity: u8,
    pub n1: u64,
    pub n2: u64,
    pub seed: u64,
}

#[derive(Clone, Debug, Serialize, Deserialize)]
pub struct ChainSpec {
    pub genesis_seed: u64,
    /// epoch of the genesis certificate
    pub start_epoch: u64,
    /// all epochs share worlds[0]
    pub constant: bool,
    /// world of epoch offset i = worlds[i % len] (rotating) or worlds[0] (constant)
    pub worlds: Vec<WorldSpec>,
    /// certificates per epoch offset; offset 0 holds the genesis certificate first (then `epochs[0]` standard ones,
    /// used only in the constant world)
    pub epochs: Vec<Vec<CertPlan>>,
    pub network: String,
}

pub struct Built {
    pub spec: ChainSpec,
    /// genesis first, then in creation order
    pub certs: Vec<Certificate>,
    /// (epoch offset, index inside the epoch) of each certificate
    pub pos: Vec<(usize, usize)>,
    pub genesis_signer: GenesisSigner,
    pub genesis_verifier: GenesisVerifier,
    pub worlds: Vec<Arc<World>>,
}

impl ChainSpec {
    pub fn world_index(&self, offset: usize) -> usize {
        if self.constant { 0 } else { offset % self.worlds.len() }
    }
    pub fn total(&self) -> usize {
        1 + self.epochs.iter().map(|e| e.len()).sum::<usize>()
    }
}

pub fn ts(ns: i64) -> DateTime<Utc> {
    DateTime::from_timestamp_nanos(ns)
}

pub fn entity_parts(pm: &mut ProtocolMessage, entity: &EntitySpec, seed: u64) {
    match entity {
        EntitySpec::Msd(_) => {}
        EntitySpec::Csd(e) => {
            pm.set_message_part(ProtocolMessagePartKey::CardanoStakeDistributionEpoch, e.to_string());
            pm.set_message_part(ProtocolMessagePartKey::CardanoStakeDistributionMerkleRoot, hex_digest(seed));
        }
        EntitySpec::Cdb(..) => {
            pm.set_message_part(ProtocolMessagePartKey::CardanoDatabaseMerkleRoot, hex_digest(seed));
        }
        EntitySpec::Ctx(_, n) => {
            pm.set_message_part(ProtocolMessagePartKey::CardanoTransactionsMerkleRoot, hex_digest(seed));
            pm.set_message_part(ProtocolMessagePartKey::LatestBlockNumber, n.to_string());
        }
        EntitySpec::Cbt(_, n, o) => {
            pm.set_message_part(ProtocolMessagePartKey::CardanoBlocksTransactionsMerkleRoot, hex_digest(seed));
            pm.set_message_part(ProtocolMessagePartKey::LatestBlockNumber, n.to_string());
            pm.set_message_part(ProtocolMessagePartKey::CardanoBlocksTransactionsBlockNumberOffset, o.to_string());
        }
    }
}

/// the protocol message of a certificate of `epoch` that commits to `next` as the signers of the following epoch
pub fn chain_message(epoch: u64, next: &World) -> ProtocolMessage {
    let mut pm = ProtocolMessage::new();
    pm.set_message_part(ProtocolMessagePartKey::NextAggregateVerificationKey, next.avk_hex.clone());
    pm.set_message_part(ProtocolMessagePartKey::NextProtocolParameters, next.spec.params.entity().compute_hash());
    pm.set_message_part(ProtocolMessagePartKey::CurrentEpoch, epoch.to_string());
    pm
}

pub fn rehash(c: &mut Certificate) {
    c.hash = c.try_compute_hash().expect("certificate hash");
}

/// a standard certificate of `epoch` signed by `world`, committing to `next`
#[allow(clippy::too_many_arguments)]
pub fn standard_certificate(
    epoch: u64,
    world: &World,
    next: &World,
    entity: &EntitySpec,
    seed: u64,
    previous_hash: &str,
    network: &str,
) -> Option<Certificate> {
    let mut pm = chain_message(epoch, next);
    entity_parts(&mut pm, entity, seed);
    let signed_message = pm.compute_hash();
    let sig = world.sign(signed_message.as_bytes())?;
    let t0 = 1_600_000_000_000_000_000i64 + (mix(seed, epoch) % 1_000_000_000_000_000) as i64;
    let mut c = Certificate {
        hash: String::new(),
        previous_hash: previous_hash.to_string(),
        epoch: Epoch(epoch),
        metadata: CertificateMetadata::new(network, "0.1.0", world.spec.params.entity(), ts(t0), ts(t0 + 1 + (seed % 977) as i64), world.parties.clone()),
        protocol_message: pm,
        signed_message,
        aggregate_verification_key: world.avk_key(),
        ancillary_prover_data: None,
        ancillary_verifier_data: None,
        signature: CertificateSignature::MultiSignature(entity.entity(), sig),
    };
    rehash(&mut c);
    Some(c)
}

/// genesis certificate in the shape of `CertificateGenesisProducer`: it carries (and commits to) the key of the signers
/// of the following epoch
pub fn genesis_certificate(epoch: u64, current: &World, next: &World, signer: &GenesisSigner, network: &str) -> Certificate {
    let pm = chain_message(epoch, next);
    let signed_message = pm.compute_hash();
    let sig: GenesisEd25519Signature = signer.ed25519.sign(signed_message.as_bytes());
    let t0 = 1_500_000_000_123_456_789i64 + epoch as i64 % 1000;
    let mut c = Certificate {
        hash: String::new(),
        previous_hash: String::new(),
        epoch: Epoch(epoch),
        metadata: CertificateMetadata::new(network, "0.1.0", current.spec.params.entity(), ts(t0), ts(t0), vec![]),
        protocol_message: pm,
        signed_message,
        aggregate_verification_key: next.avk_key(),
        ancillary_prover_data: None,
        ancillary_verifier_data: None,
        signature: CertificateSignature::GenesisSignature(sig),
    };
    rehash(&mut c);
    c
}

pub fn plan_entity(p: &CertPlan, epoch: u64) -> EntitySpec {
    EntitySpec::Cbt(epoch, p.n1, p.n2).with_variant(p.entity, 0)
}

pub fn build_chain(spec: &ChainSpec) -> Option<Built> {
    if spec.worlds.is_empty() || spec.epochs.is_empty() {
        return None;
    }
    let n_epochs = spec.epochs.len();
    spec.start_epoch.checked_add(n_epochs as u64 + 2)?;
    let worlds: Vec<Arc<World>> = spec.worlds.iter().map(world_cached).collect::<Option<_>>()?;
    let world_at = |off: usize| worlds[spec.world_index(off)].clone();
    let gs = genesis_signer(spec.genesis_seed);
    let gv = gs.create_verifier();
    let mut certs = vec![genesis_certificate(spec.start_epoch, &world_at(0), &world_at(1), &gs, &spec.network)];
    let mut pos = vec![(0usize, 0usize)];
    for (off, plans) in spec.epochs.iter().enumerate() {
        if off == 0 && !spec.constant && !plans.is_empty() {
            // the genesis certificate carries the key of the NEXT epoch: same-epoch successors exist only if keys are constant
            return None;
        }
        for p in plans {
            let same: Vec<usize> = (0..certs.len()).filter(|i| pos[*i].0 == off).collect();
            let prev: Vec<usize> = if off == 0 { vec![] } else { (0..certs.len()).filter(|i| pos[*i].0 == off - 1).collect() };
            let candidates: Vec<usize> = if !same.is_empty() && (p.same_epoch_first || prev.is_empty()) {
                same.clone()
            } else if !prev.is_empty() {
                prev.clone()
            } else {
                return None; // an epoch without certificates below this one: not a chain
            };
            let parent = candidates[pick_index(p.link, candidates.len())];
            let epoch = spec.start_epoch + off as u64;
            let index_in_epoch = same.len();
            let c = standard_certificate(
                epoch,
                &world_at(off),
                &world_at(off + 1),
                &plan_entity(p, epoch),
                mix(p.seed, certs.len() as u64),
                &certs[parent].hash.clone(),
                &spec.network,
            )?;
            certs.push(c);
            pos.push((off, index_in_epoch));
        }
        if off > 0 && plans.is_empty() {
            return None;
        }
    }
    Some(Built { spec: spec.clone(), certs, pos, genesis_signer: gs, genesis_verifier: gv, worlds })
}

static CHAINS: OnceLock<Mutex<HashMap<String, Option<Arc<Built>>>>> = OnceLock::new();

pub fn chain_cached(spec: &ChainSpec) -> Option<Arc<Built>> {
    let key = serde_json::to_string(spec).unwrap_or_default();
    let cache = CHAINS.get_or_init(Default::default);
    if let Some(b) = cache.lock().unwrap().get(&key) {
        return b.clone();
    }
    let b = build_chain(spec).map(Arc::new);
    let mut g = cache.lock().unwrap();
    if g.len() > 3000 {
        g.clear();
    }
    g.insert(key, b.clone());
    b
}

pub fn plan_strategy() -> impl Strategy<Value = CertPlan> {
    (any::<u16>(), prop::bool::weighted(0.7), 0u8..5, u64_interesting(), u64_interesting(), any::<u64>())
        .prop_map(|(link, same_epoch_first, entity, n1, n2, seed)| CertPlan { link, same_epoch_first, entity, n1, n2, seed })
}

/// honest chains: 1–6 epochs after/including the genesis epoch, 1–3 certificates per epoch, constant or rotating worlds
pub fn chain_strategy(max_epochs: usize) -> impl Strategy<Value = ChainSpec> {
    (
        any::<u64>(),
        prop_oneof![3 => 0u64..4, 2 => 0u64..1000, 1 => Just(u64::MAX - 12), 1 => any::<u64>().prop_map(|e| e % (u64::MAX - 16))],
        any::<bool>(),
        prop::collection::vec(world_strategy(), 2..=4),
        prop::collection::vec(prop::collection::vec(plan_strategy(), 1..=3), 1..=max_epochs),
        prop::collection::vec(plan_strategy(), 0..=2),
        prop::sample::select(vec!["testnet", "mainnet", "preview", ""]),
    )
        .prop_map(|(genesis_seed, start_epoch, constant, worlds, later, first, network)| {
            let mut epochs = vec![if constant { first } else { vec![] }];
            epochs.extend(later);
            ChainSpec { genesis_seed, start_epoch, constant, worlds, epochs, network: network.to_string() }
        })
}

/// per-run pool of honest chains (a pure function of the seed); every member builds
pub fn chain_pool(seed: u64, size: usize, max_epochs: usize, threads: usize) -> Vec<ChainSpec> {
    let specs: Vec<ChainSpec> = (0..size).map(|i| vcore::sample_one(&chain_strategy(max_epochs), mix(seed, 0xC03 + i as u64))).collect();
    let next = std::sync::atomic::AtomicUsize::new(0);
    std::thread::scope(|sc| {
        for _ in 0..threads.max(1) {
            sc.spawn(|| {
                loop {
                    let i = next.fetch_add(1, std::sync::atomic::Ordering::Relaxed);
                    if i >= specs.len() {
                        break;
                    }
                    let _ = chain_cached(&specs[i]);
                }
            });
        }
    });
    specs.into_iter().filter(|s| chain_cached(s).is_some()).collect()
}

// ------------------------------------------------------------------------------------------------------------------
// field-by-field certificate description (C04)
// ------------------------------------------------------------------------------------------------------------------

#[derive(Clone, Debug, Serialize, Deserialize, PartialEq)]
pub enum SigSpec {
    /// bytes-hex of an Ed25519 signature (64 bytes)
    Genesis(String),
    /// signed entity type + json-hex of an aggregate signature
    Multi(EntitySpec, String),
}

#[derive(Clone, Debug, Serialize, Deserialize, PartialEq)]
pub struct CertSpec {
    pub hash: String,
    pub previous_hash: String,
    pub epoch: u64,
    pub network: String,
    pub version: String,
    pub params: PSpec,
    pub initiated_ns: i64,
    pub sealed_ns: i64,
    pub signers: Vec<(String, u64)>,
    /// (index into ALL_KEYS, value); a later entry for the same key overrides an earlier one
    pub parts: Vec<(u8, String)>,
    /// None = digest of the protocol message
    pub signed_message: Option<String>,
    /// json-hex of the aggregate verification key
    pub avk: String,
    pub sig: SigSpec,
}

impl CertSpec {
    pub fn parts_map(&self) -> BTreeMap<ProtocolMessagePartKey, String> {
        self.parts.iter().map(|(k, v)| (ALL_KEYS[*k as usize % ALL_KEYS.len()], v.clone())).collect()
    }

    pub fn protocol_message(&self) -> ProtocolMessage {
        let mut pm = ProtocolMessage::new();
        for (k, v) in self.parts_map() {
            pm.set_message_part(k, v);
        }
        pm
    }

    pub fn effective_signed_message(&self) -> String {
        match &self.signed_message {
            Some(s) => s.clone(),
            None => self.protocol_message().compute_hash(),
        }
    }

    /// Err = a pool string does not decode (outside the domain)
    pub fn certificate(&self) -> Result<Certificate, String> {
        let pm = self.protocol_message();
        let signature = match &self.sig {
            // 64 raw bytes are an Ed25519 signature whatever their value: decoded here without the key codec of the
            // code under test, so that a codec which refuses some honest signatures cannot shrink the domain
            SigSpec::Genesis(h) => CertificateSignature::GenesisSignature(match hex::decode(h).ok().and_then(|b| <[u8; 64]>::try_from(b).ok()) {
                Some(raw) => GenesisEd25519Signature::new(ed25519_dalek::Signature::from_bytes(&raw)),
                None => GenesisEd25519Signature::try_from(h.as_str()).map_err(|e| format!("genesis signature: {e}"))?,
            }),
            SigSpec::Multi(e, h) => {
                CertificateSignature::MultiSignature(e.entity(), ProtocolMultiSignature::try_from(h.as_str()).map_err(|e| format!("multi-signature: {e}"))?)
            }
        };
        Ok(Certificate {
            hash: self.hash.clone(),
            previous_hash: self.previous_hash.clone(),
            epoch: Epoch(self.epoch),
            metadata: CertificateMetadata::new(
                self.network.clone(),
                self.version.clone(),
                self.params.entity(),
                ts(self.initiated_ns),
                ts(self.sealed_ns),
                self.signers.iter().map(|(p, s)| StakeDistributionParty { party_id: p.clone(), stake: *s }).collect(),
            ),
            signed_message: self.effective_signed_message(),
            protocol_message: pm,
            aggregate_verification_key: ProtocolAggregateVerificationKeyForConcatenation::try_from(self.avk.as_str()).map_err(|e| format!("avk: {e}"))?,
            ancillary_prover_data: None,
            ancillary_verifier_data: None,
            signature,
        })
    }

    pub fn of(c: &Certificate) -> CertSpec {
        let key_index = |k: &ProtocolMessagePartKey| ALL_KEYS.iter().position(|x| x == k).unwrap() as u8;
        CertSpec {
            hash: c.hash.clone(),
            previous_hash: c.previous_hash.clone(),
            epoch: c.epoch.0,
            network: c.metadata.network.clone(),
            version: c.metadata.protocol_version.clone(),
            params: PSpec::new(c.metadata.protocol_parameters.k, c.metadata.protocol_parameters.m, c.metadata.protocol_parameters.phi_f),
            initiated_ns: c.metadata.initiated_at.timestamp_nanos_opt().expect("in range"),
            sealed_ns: c.metadata.sealed_at.timestamp_nanos_opt().expect("in range"),
            signers: c.metadata.signers.iter().map(|p| (p.party_id.clone(), p.stake)).collect(),
            parts: c.protocol_message.message_parts.iter().map(|(k, v)| (key_index(k), v.clone())).collect(),
            signed_message: Some(c.signed_message.clone()),
            avk: c.aggregate_verification_key.to_json_hex().expect("avk hex"),
            sig: match &c.signature {
                CertificateSignature::GenesisSignature(s) => SigSpec::Genesis(s.to_bytes_hex().expect("sig hex")),
                CertificateSignature::MultiSignature(e, s) => SigSpec::Multi(EntitySpec::of(e), s.to_json_hex().expect("sig hex")),
            },
        }
    }
}

/// a synthetic aggregate verification key (json-hex) with arbitrary commitment bytes
pub fn synthetic_avk(root_seed: u64, nr_leaves: u64, total_stake: u64) -> String {
    let root: Vec<u8> = seed_bytes(root_seed).to_vec();
    let v = serde_json::json!({"mt_commitment": {"root": root, "nr_leaves": nr_leaves, "hasher": null}, "total_stake": total_stake});
    hex::encode(v.to_string())
}
