//! C11 — certified transaction, block and stake sets are reported exactly as signed.
//!
//! Honest side = the aggregator's production path: blocks go through the real `CardanoChainDataImporter` into the
//! real sqlite `AggregatorCardanoChainDataRepository`; the signed protocol messages come from the real signable
//! builders, the proofs from the real `LegacyMithrilProverService` / `MithrilProverService`; responses are assembled
//! the way the HTTP routes assemble them. A tampering grammar rewrites the RESPONSE (JSON view, including the decoded
//! Merkle proof), the documented client flow is run on it (`verify()`, `MessageBuilder::compute_*_message`,
//! `certificate.match_message`), and an accepted response is compared with the harness' own ground truth (the chain
//! it generated, the stake map it generated).

use std::collections::{BTreeMap, BTreeSet, HashMap};
use std::sync::{Arc, Mutex, OnceLock};

use mithril_aggregator::database::repository::AggregatorCardanoChainDataRepository;
use mithril_aggregator::services::{
    AggregatorChainDataImporter, LegacyMithrilProverService, LegacyProverService, MithrilProverService, ProverService,
};
use mithril_cardano_node_chain::chain_importer::CardanoChainDataImporter;
use mithril_cardano_node_chain::entities::ScannedBlock;
use mithril_cardano_node_chain::test::double::DumbBlockScanner;
use mithril_client::MessageBuilder;
use mithril_common::crypto_helper::{MKMapProof, MKTreeStoreInMemory, ProtocolMkProof};
use mithril_common::entities::{
    BlockNumber, BlockNumberOffset, BlockRange, Epoch, ProtocolMessage, ProtocolMessagePartKey, SlotNumber,
};
use mithril_common::messages::{
    CardanoBlocksProofsMessage, CardanoStakeDistributionMessage, CardanoTransactionsProofsMessage,
    CardanoTransactionsProofsV2Message, CertificateMessage,
};
use mithril_common::signable_builder::{
    CardanoBlocksTransactionsSignableBuilder, CardanoStakeDistributionSignableBuilder, CardanoTransactionsSignableBuilder,
    SignableBuilder, StakeDistributionRetriever,
};
use mithril_common::test::double::Dummy;
use mithril_persistence::sqlite::{ConnectionBuilder, ConnectionOptions};
use proptest::prelude::*;
use serde::{Deserialize, Serialize};
use serde_json::{Value, json};
use vcore::util::Scratch;
use vcore::{Args, Check, Report, catch, mix, pick_index};

fn logger() -> slog::Logger {
    slog::Logger::root(slog::Discard, slog::o!())
}

fn hex_hash(seed: u64, a: u64, b: u64) -> String {
    let mut out = String::with_capacity(64);
    for i in 0..4u64 {
        out.push_str(&format!("{:016x}", mix(mix(seed, a * 4 + i), b ^ 0x5bd1e995)));
    }
    out
}

// ------------------------------------------------------------------------------------------- the chain

#[derive(Clone, Debug, Serialize, Deserialize, PartialEq)]
pub struct ChainSpec {
    pub seed: u64,
    /// number of the first block
    pub first: u64,
    /// transactions per block (length = number of blocks, 1..=80)
    pub txs: Vec<u8>,
    /// signed beacon = number of the block at this index
    pub up_to_idx: u16,
    /// security parameter (tip − signed block number)
    pub offset: u64,
    pub epoch: u64,
}

#[derive(Clone, Debug, PartialEq, Eq, PartialOrd, Ord)]
pub struct Blk {
    pub hash: String,
    pub number: u64,
    pub slot: u64,
    pub txs: Vec<String>,
}

pub fn chain_of(spec: &ChainSpec) -> Vec<Blk> {
    let mut slot = spec.first * 20 + (spec.seed % 7);
    spec.txs
        .iter()
        .enumerate()
        .map(|(i, n)| {
            slot += 1 + mix(spec.seed, 900 + i as u64) % 40;
            Blk {
                hash: hex_hash(spec.seed, i as u64, 1),
                number: spec.first + i as u64,
                slot,
                txs: (0..*n as u64).map(|t| hex_hash(spec.seed, i as u64, 100 + t)).collect(),
            }
        })
        .collect()
}

/// One honest response in JSON form together with the query that produced it.
#[derive(Clone, Debug)]
pub struct Response {
    pub query: Vec<String>,
    pub json: Value,
}

pub struct Honest {
    pub spec: ChainSpec,
    pub chain: Vec<Blk>,
    pub up_to: u64,
    /// beacon of the legacy certificate: the last block of the last complete block range (None = no such range yet)
    pub up_to_legacy: Option<u64>,
    /// signed protocol messages (builder output + the parts every certificate carries)
    pub pm_legacy: ProtocolMessage,
    pub pm_v2: ProtocolMessage,
    pub cert_legacy: CertificateMessage,
    pub cert_v2: CertificateMessage,
    pub legacy: Vec<Response>,
    pub v2_tx: Vec<Response>,
    pub v2_blk: Vec<Response>,
    /// ground truth: what the signed roots cover
    pub certified_legacy: BTreeSet<String>,
    /// (tx hash, block hash, block number, slot)
    pub certified_tx: BTreeSet<(String, String, u64, u64)>,
    /// (block hash, block number, slot)
    pub certified_blk: BTreeSet<(String, u64, u64)>,
}

fn with_common_parts(mut pm: ProtocolMessage, spec: &ChainSpec) -> ProtocolMessage {
    pm.set_message_part(ProtocolMessagePartKey::NextAggregateVerificationKey, format!("avk-{:x}", spec.seed));
    pm.set_message_part(ProtocolMessagePartKey::NextProtocolParameters, "protocol-parameters-hash".to_string());
    pm.set_message_part(ProtocolMessagePartKey::CurrentEpoch, spec.epoch.to_string());
    pm
}

fn certificate(hash: &str, pm: &ProtocolMessage, epoch: u64) -> CertificateMessage {
    CertificateMessage {
        hash: hash.to_string(),
        epoch: Epoch(epoch),
        protocol_message: pm.clone(),
        signed_message: pm.compute_hash(),
        ..CertificateMessage::dummy()
    }
}

/// the queries of a chain: a pure function of the spec
fn queries(spec: &ChainSpec, chain: &[Blk], blocks: bool) -> Vec<Vec<String>> {
    let all: Vec<(usize, String)> = if blocks {
        chain.iter().enumerate().map(|(i, b)| (i, b.hash.clone())).collect()
    } else {
        chain.iter().enumerate().flat_map(|(i, b)| b.txs.iter().map(move |t| (i, t.clone()))).collect()
    };
    let tag = if blocks { 7000 } else { 3000 };
    let r = |k: u64| mix(spec.seed, tag + k);
    let absent = |k: u64| hex_hash(spec.seed ^ 0xdead, k, 9);
    let mut qs: Vec<Vec<String>> = vec![];
    if all.is_empty() {
        return vec![vec![absent(1)], vec![absent(2), absent(3)]];
    }
    let pick = |k: u64| all[(r(k) % all.len() as u64) as usize].clone();
    // one present item
    qs.push(vec![pick(1).1]);
    // a few present items across ranges
    qs.push((0..2 + r(2) % 5).map(|j| pick(10 + j).1).collect());
    // every item of one block range
    let range_start = (chain[pick(3).0].number / 15) * 15;
    qs.push(all.iter().filter(|(i, _)| chain[*i].number / 15 * 15 == range_start).map(|x| x.1.clone()).collect());
    // present and absent mixed
    qs.push(vec![pick(4).1, absent(4), pick(5).1, absent(5)]);
    // everything
    qs.push(all.iter().map(|x| x.1.clone()).collect());
    // two neighbours (adjacent leaves of one sub-tree, if in the same range)
    let p = (r(6) % all.len() as u64) as usize;
    qs.push(all[p..(p + 2).min(all.len())].iter().map(|x| x.1.clone()).collect());
    for q in qs.iter_mut() {
        let mut seen = BTreeSet::new();
        q.retain(|h| seen.insert(h.clone()));
    }
    qs
}

async fn build_honest(spec: &ChainSpec) -> anyhow::Result<Honest> {
    let chain = chain_of(spec);
    anyhow::ensure!(!chain.is_empty(), "empty chain");
    let up_to_idx = pick_index(spec.up_to_idx, chain.len());
    let up_to = chain[up_to_idx].number;
    let scratch = Scratch::new("c11");
    let db = scratch.path().join("chain.sqlite3");
    let pool = Arc::new(
        ConnectionBuilder::open_file(&db)
            .with_options(&[ConnectionOptions::EnableForeignKeys])
            .with_migrations(mithril_persistence::database::cardano_transaction_migration::get_migrations())
            .build_pool(2)?,
    );
    let repo = Arc::new(AggregatorCardanoChainDataRepository::new(pool));
    // the node has produced the blocks up to the signed beacon (the real scanner stops at the beacon)
    let scanned: Vec<ScannedBlock> = chain[..=up_to_idx]
        .iter()
        .map(|b| ScannedBlock::new(hex::decode(&b.hash).unwrap(), BlockNumber(b.number), SlotNumber(b.slot), b.txs.clone()))
        .collect();
    let scanner = Arc::new(DumbBlockScanner::new().forwards(vec![scanned]));
    let importer = Arc::new(CardanoChainDataImporter::new(scanner, repo.clone(), logger()));
    let agg_importer = Arc::new(AggregatorChainDataImporter::new(importer));
    let legacy_builder = CardanoTransactionsSignableBuilder::<MKTreeStoreInMemory>::new(agg_importer.clone(), repo.clone());
    let v2_builder = CardanoBlocksTransactionsSignableBuilder::<MKTreeStoreInMemory>::new(agg_importer.clone(), repo.clone());
    // legacy beacons are always the last block of a complete block range (CardanoTransactionsSigningConfig:
    // multiple of the range length, minus one); a chain without a complete range has no legacy certificate
    let up_to_legacy = ((up_to + 1) / 15 * 15).checked_sub(1).filter(|b| *b >= chain[0].number);
    let pm_legacy = match up_to_legacy {
        Some(b) => legacy_builder.compute_protocol_message(BlockNumber(b)).await.ok(),
        None => None,
    };
    let pm_v2 = v2_builder.compute_protocol_message((BlockNumber(up_to), BlockNumberOffset(spec.offset))).await?;
    let pm_legacy = with_common_parts(pm_legacy.unwrap_or_default(), spec);
    let pm_v2 = with_common_parts(pm_v2, spec);
    let has_legacy = pm_legacy.get_message_part(&ProtocolMessagePartKey::CardanoTransactionsMerkleRoot).is_some();
    let cert_legacy = certificate(&format!("cert-ctx-{:x}", spec.seed), &pm_legacy, spec.epoch);
    let cert_v2 = certificate(&format!("cert-cbtx-{:x}", spec.seed), &pm_v2, spec.epoch);

    let mut legacy = vec![];
    if let (true, Some(b)) = (has_legacy, up_to_legacy) {
        let prover = LegacyMithrilProverService::<MKTreeStoreInMemory>::new(repo.clone(), repo.clone(), 1, logger());
        prover.compute_cache(BlockNumber(b)).await?;
        for q in queries(spec, &chain, false) {
            let set_proofs = prover.compute_transactions_proofs(BlockNumber(b), &q).await?;
            let certified: Vec<String> = set_proofs.iter().flat_map(|p| p.transactions_hashes().to_vec()).collect();
            let non_certified: Vec<String> = q.iter().filter(|h| !certified.contains(h)).cloned().collect();
            let mut parts = vec![];
            for sp in set_proofs {
                parts.push(sp.try_into()?);
            }
            let msg = CardanoTransactionsProofsMessage::new(&cert_legacy.hash, parts, non_certified, BlockNumber(b));
            legacy.push(Response { query: q, json: serde_json::to_value(&msg)? });
        }
    }
    let prover = MithrilProverService::<MKTreeStoreInMemory>::new(repo.clone(), repo.clone(), 1, logger());
    prover.compute_cache(BlockNumber(up_to)).await?;
    let mut v2_tx = vec![];
    for q in queries(spec, &chain, false) {
        let (certified, non_certified) = match prover.compute_transactions_proofs(BlockNumber(up_to), &q).await? {
            Some(sp) => {
                let hs: Vec<String> = sp.transactions_hashes().cloned().collect();
                (Some(sp.try_into()?), q.iter().filter(|h| !hs.contains(h)).cloned().collect())
            }
            None => (None, q.clone()),
        };
        let msg = CardanoTransactionsProofsV2Message::new(&cert_v2.hash, certified, non_certified, BlockNumber(up_to), BlockNumberOffset(spec.offset));
        v2_tx.push(Response { query: q, json: serde_json::to_value(&msg)? });
    }
    let mut v2_blk = vec![];
    for q in queries(spec, &chain, true) {
        let (certified, non_certified) = match prover.compute_blocks_proofs(BlockNumber(up_to), &q).await? {
            Some(sp) => {
                let hs: Vec<String> = sp.blocks_hashes().cloned().collect();
                (Some(sp.try_into()?), q.iter().filter(|h| !hs.contains(h)).cloned().collect())
            }
            None => (None, q.clone()),
        };
        let msg = CardanoBlocksProofsMessage::new(&cert_v2.hash, certified, non_certified, BlockNumber(up_to), BlockNumberOffset(spec.offset));
        v2_blk.push(Response { query: q, json: serde_json::to_value(&msg)? });
    }
    // ground truth. Legacy roots exist for complete block ranges only.
    let certified_legacy = match (has_legacy, up_to_legacy) {
        (true, Some(bound)) => chain.iter().filter(|b| b.number <= bound).flat_map(|b| b.txs.iter().cloned()).collect(),
        _ => BTreeSet::new(),
    };
    let certified_tx = chain
        .iter()
        .filter(|b| b.number <= up_to)
        .flat_map(|b| b.txs.iter().map(move |t| (t.clone(), b.hash.clone(), b.number, b.slot)))
        .collect();
    let certified_blk = chain.iter().filter(|b| b.number <= up_to).map(|b| (b.hash.clone(), b.number, b.slot)).collect();
    drop(scratch);
    Ok(Honest { spec: spec.clone(), chain, up_to, up_to_legacy: up_to_legacy.filter(|_| has_legacy), pm_legacy, pm_v2, cert_legacy, cert_v2, legacy, v2_tx, v2_blk, certified_legacy, certified_tx, certified_blk })
}

static HONEST: OnceLock<Mutex<HashMap<String, Option<Arc<Honest>>>>> = OnceLock::new();

/// cached honest side of a chain (chains come from a per-run pool; a replay rebuilds on demand)
pub fn honest_cached(spec: &ChainSpec) -> Option<Arc<Honest>> {
    let key = serde_json::to_string(spec).unwrap_or_default();
    let cache = HONEST.get_or_init(Default::default);
    if let Some(h) = cache.lock().unwrap().get(&key) {
        return h.clone();
    }
    // import() runs on a blocking thread and re-enters the runtime handle: a (small) multi-thread runtime
    let rt = tokio::runtime::Builder::new_multi_thread().worker_threads(1).enable_all().build().expect("runtime");
    let h = match catch(|| rt.block_on(build_honest(spec))) {
        Ok(Ok(h)) => Some(Arc::new(h)),
        _ => None,
    };
    let mut g = cache.lock().unwrap();
    if g.len() > 30_000 {
        g.clear();
    }
    g.insert(key, h.clone());
    h
}

// ------------------------------------------------------------------------------------------- tampering

#[derive(Clone, Copy, Debug, Serialize, Deserialize, PartialEq, Eq)]
pub enum Fmt {
    Legacy,
    V2Tx,
    V2Blk,
}

#[derive(Clone, Copy, Debug, Serialize, Deserialize, PartialEq, Eq)]
pub enum NumEdit {
    Plus(u8),
    Minus(u8),
    Zero,
    Max,
    Set(u64),
}

impl NumEdit {
    fn apply(&self, v: u64) -> u64 {
        match *self {
            NumEdit::Plus(d) => v.saturating_add(1 + d as u64 % 20),
            NumEdit::Minus(d) => v.saturating_sub(1 + d as u64 % 20),
            NumEdit::Zero => 0,
            NumEdit::Max => u64::MAX,
            NumEdit::Set(x) => x,
        }
    }
}

#[derive(Clone, Copy, Debug, Serialize, Deserialize, PartialEq, Eq)]
pub enum CertSel {
    /// the certificate the response names
    Matching,
    /// the certificate of the other transaction format for the same chain
    OtherFormat,
    /// the certificate of the same format for another chain
    Foreign,
}

#[derive(Clone, Copy, Debug, Serialize, Deserialize, PartialEq, Eq)]
pub enum Field {
    TxHash,
    BlockHash,
    BlockNumber,
    Slot,
}

#[derive(Clone, Copy, Debug, Serialize, Deserialize, PartialEq, Eq)]
pub enum EmptyKind {
    EmptyList,
    Null,
    NoItemsKeepProof,
}

#[derive(Clone, Copy, Debug, Serialize, Deserialize, PartialEq, Eq)]
pub enum Tamper {
    AddAbsent { at: u16, seed: u64 },
    AddUnproven { at: u16, pick: u16 },
    AddTail { at: u16, pick: u16 },
    PromoteNonCertified { at: u16, pick: u16 },
    EditHashChar { at: u16, item: u16, field: Field, pos: u16 },
    EditNumber { at: u16, item: u16, field: Field, edit: NumEdit },
    MoveToBlock { at: u16, item: u16, block: u16 },
    SwapField { at: u16, a: u16, b: u16, field: Field },
    DropItem { at: u16, item: u16 },
    DupItem { at: u16, item: u16 },
    /// v2: a second copy of a genuine item with the same (transaction / block) hash but another block number, slot or
    /// block hash, placed right after / right before the genuine one or at the end
    DupItemAltered { at: u16, item: u16, what: u8, place: u8, block: u16 },
    /// legacy: the list of set proofs rebuilt slot by slot from own proofs (bit 0) and another chain's proofs (bit 1);
    /// at least one foreign proof, up to 5 slots
    InterleaveSetProofs { pattern: u8, slots: u8 },
    SpliceSecond,
    SpliceForeign { front: bool },
    SwapProofs { a: u16, b: u16 },
    ReplaceProofForeign { at: u16 },
    ReplaceItemsForeign { at: u16 },
    Empty(EmptyKind),
    DetachSubProof { at: u16, which: u16 },
    DetachAllSubProofs { at: u16 },
    PromoteSubProof { at: u16, which: u16 },
    /// a sub-proof of another chain's response (and its items) added under the own master proof
    GraftForeignSubProof { at: u16, which: u16, replace: bool },
    LeafDupPosition { at: u16, leaf: u16, seed: u64, fake_first: bool },
    LeafAdd { at: u16, seed: u64 },
    /// a proven leaf is listed a SECOND time in the proof (same position, same value: the Merkle verification tolerates
    /// it) and a forged item is added to the reported items (counts match again, every proof leaf is a reported item)
    LeafDupIdenticalAddItem { at: u16, leaf: u16, seed: u64, replace: bool },
    /// the letter case of a hash of a reported item is changed (and nothing else)
    HashCase { at: u16, item: u16, field: Field, upper_all: bool },
    LeafReplace { at: u16, leaf: u16, seed: u64 },
    SiblingBoundaryMove { at: u16, pair: u16, k: i8 },
    ProofSize { at: u16, sub: bool, edit: NumEdit },
    DropProofItem { at: u16, sub: bool, i: u16 },
    FlipRoot { at: u16, byte: u8 },
    LatestBlock(NumEdit),
    Offset(NumEdit),
    CertificateHash,
    AsLegacy,
    AsV2,
}

fn tamper_name(t: &Tamper) -> String {
    let s = format!("{t:?}");
    let head = s.split([' ', '{', '(']).next().unwrap_or("").to_string();
    match t {
        Tamper::EditHashChar { field, .. } | Tamper::EditNumber { field, .. } | Tamper::SwapField { field, .. } => format!("{head}:{field:?}"),
        Tamper::Empty(k) => format!("{head}:{k:?}"),
        Tamper::SiblingBoundaryMove { k, .. } => format!("{head}:{}", if *k > 0 { "right-to-left" } else { "left-to-right" }),
        Tamper::LeafDupPosition { fake_first, .. } => format!("{head}:{}", if *fake_first { "fake-first" } else { "fake-last" }),
        Tamper::DupItemAltered { place, .. } => format!("{head}:{}", ["after", "before", "end"][*place as usize % 3]),
        _ => head,
    }
}

fn container_key(fmt: Fmt) -> &'static str {
    match fmt {
        Fmt::Legacy | Fmt::V2Tx => "certified_transactions",
        Fmt::V2Blk => "certified_blocks",
    }
}

fn items_key(fmt: Fmt) -> &'static str {
    match fmt {
        Fmt::Legacy => "transactions_hashes",
        _ => "items",
    }
}

fn non_certified_key(fmt: Fmt) -> &'static str {
    match fmt {
        Fmt::V2Blk => "non_certified_blocks",
        _ => "non_certified_transactions",
    }
}

fn n_set_proofs(m: &Value, fmt: Fmt) -> usize {
    let c = &m[container_key(fmt)];
    match fmt {
        Fmt::Legacy => c.as_array().map(|a| a.len()).unwrap_or(0),
        _ => c.is_object() as usize,
    }
}

fn set_proof_mut(m: &mut Value, fmt: Fmt, raw: u16) -> Option<&mut Value> {
    let n = n_set_proofs(m, fmt);
    if n == 0 {
        return None;
    }
    let c = &mut m[container_key(fmt)];
    match fmt {
        Fmt::Legacy => c.as_array_mut()?.get_mut(pick_index(raw, n)),
        _ => Some(c),
    }
}

fn items_mut(m: &mut Value, fmt: Fmt, raw: u16) -> Option<&mut Vec<Value>> {
    set_proof_mut(m, fmt, raw)?.get_mut(items_key(fmt))?.as_array_mut()
}

fn tx_item(t: &(String, String, u64, u64)) -> Value {
    json!({"transaction_hash": t.0, "block_hash": t.1, "block_number": t.2, "slot_number": t.3})
}

fn blk_item(b: &(String, u64, u64)) -> Value {
    json!({"block_hash": b.0, "block_number": b.1, "slot_number": b.2})
}

/// the Merkle leaf the verifier derives from a reported item
fn leaf_of(fmt: Fmt, item: &Value) -> Option<Vec<u8>> {
    Some(match fmt {
        Fmt::Legacy => item.as_str()?.as_bytes().to_vec(),
        Fmt::V2Tx => format!(
            "Tx/{}/{}/{}/{}",
            item["transaction_hash"].as_str()?,
            item["block_hash"].as_str()?,
            item["block_number"].as_u64()?,
            item["slot_number"].as_u64()?
        )
        .into_bytes(),
        Fmt::V2Blk => format!("Block/{}/{}/{}", item["block_hash"].as_str()?, item["block_number"].as_u64()?, item["slot_number"].as_u64()?).into_bytes(),
    })
}

fn bytes_json(b: &[u8]) -> Value {
    Value::Array(b.iter().map(|x| Value::from(*x)).collect())
}

fn json_bytes(v: &Value) -> Option<Vec<u8>> {
    v.as_array()?.iter().map(|x| x.as_u64().and_then(|n| u8::try_from(n).ok())).collect()
}

/// wire encodings of the proof: the legacy message carries JSON-hex, the v2 messages bytes-hex (bincode)
fn decode_proof(fmt: Fmt, hexs: &str) -> Option<ProtocolMkProof> {
    match fmt {
        Fmt::Legacy => ProtocolMkProof::from_json_hex(hexs).ok(),
        _ => ProtocolMkProof::from_bytes_hex(hexs).ok(),
    }
}

fn proof_view(fmt: Fmt, hexs: &str) -> Option<Value> {
    serde_json::to_value(&*decode_proof(fmt, hexs)?).ok()
}

fn proof_hex(fmt: Fmt, v: &Value) -> Option<String> {
    let p: MKMapProof<BlockRange> = serde_json::from_value(v.clone()).ok()?;
    match fmt {
        Fmt::Legacy => ProtocolMkProof::new(p).to_json_hex().ok(),
        _ => ProtocolMkProof::new(p).to_bytes_hex().ok(),
    }
}

/// the MKProof (JSON view) that holds the item leaves of sub-proof `which` (or the master proof when there is none)
fn leaf_holder_mut(pv: &mut Value, which: u16) -> Option<&mut Value> {
    let n = pv["sub_proofs"].as_array().map(|a| a.len()).unwrap_or(0);
    if n == 0 {
        pv.get_mut("master_proof")
    } else {
        pv["sub_proofs"].as_array_mut()?.get_mut(pick_index(which, n))?.get_mut(1)?.get_mut("master_proof")
    }
}

/// run `f` on the decoded proof of one set proof and write it back
fn with_proof(m: &mut Value, fmt: Fmt, at: u16, f: impl FnOnce(&mut Value) -> bool) -> bool {
    let Some(sp) = set_proof_mut(m, fmt, at) else { return false };
    let Some(hexs) = sp["proof"].as_str() else { return false };
    let Some(mut pv) = proof_view(fmt, hexs) else { return false };
    if !f(&mut pv) {
        return false;
    }
    let Some(h) = proof_hex(fmt, &pv) else { return false };
    sp["proof"] = Value::from(h);
    true
}

struct TamperCtx<'a> {
    h: &'a Honest,
    foreign: &'a Honest,
    second: Option<&'a Response>,
    foreign_resp: Option<&'a Response>,
}

fn fake_item(fmt: Fmt, seed: u64, h: &Honest) -> Value {
    let b = &h.chain[(mix(seed, 5) % h.chain.len() as u64) as usize];
    match fmt {
        Fmt::Legacy => Value::from(hex_hash(seed, 77, 1)),
        Fmt::V2Tx => tx_item(&(hex_hash(seed, 77, 1), b.hash.clone(), b.number, b.slot)),
        Fmt::V2Blk => blk_item(&(hex_hash(seed, 77, 2), b.number, b.slot)),
    }
}

/// genuine items of the chain: (certified under the format's beacon, beyond it)
fn genuine_items(fmt: Fmt, h: &Honest) -> (Vec<Value>, Vec<Value>) {
    match fmt {
        Fmt::Legacy => {
            let cert: Vec<Value> = h.certified_legacy.iter().map(|t| Value::from(t.clone())).collect();
            let tail = h.chain.iter().flat_map(|b| b.txs.iter()).filter(|t| !h.certified_legacy.contains(*t)).map(|t| Value::from(t.clone())).collect();
            (cert, tail)
        }
        Fmt::V2Tx => (
            h.certified_tx.iter().map(tx_item).collect(),
            h.chain.iter().filter(|b| b.number > h.up_to).flat_map(|b| b.txs.iter().map(move |t| tx_item(&(t.clone(), b.hash.clone(), b.number, b.slot)))).collect(),
        ),
        Fmt::V2Blk => (
            h.certified_blk.iter().map(blk_item).collect(),
            h.chain.iter().filter(|b| b.number > h.up_to).map(|b| blk_item(&(b.hash.clone(), b.number, b.slot))).collect(),
        ),
    }
}

fn field_key(fmt: Fmt, f: Field) -> Option<&'static str> {
    match (fmt, f) {
        (Fmt::Legacy, Field::TxHash) => Some(""),
        (Fmt::Legacy, _) => None,
        (Fmt::V2Blk, Field::TxHash) => None,
        (_, Field::TxHash) => Some("transaction_hash"),
        (_, Field::BlockHash) => Some("block_hash"),
        (_, Field::BlockNumber) => Some("block_number"),
        (_, Field::Slot) => Some("slot_number"),
    }
}

/// apply one tampering; false = not applicable / nothing changed. `fmt` may change (format confusion).
fn apply(m: &mut Value, fmt: &mut Fmt, t: &Tamper, cx: &TamperCtx) -> bool {
    let before = m.clone();
    let f = *fmt;
    match *t {
        Tamper::AddAbsent { at, seed } => {
            let it = fake_item(f, seed, cx.h);
            let Some(items) = items_mut(m, f, at) else { return false };
            items.push(it);
        }
        Tamper::AddUnproven { at, pick } | Tamper::AddTail { at, pick } => {
            let (cert, tail) = genuine_items(f, cx.h);
            let src = if matches!(t, Tamper::AddTail { .. }) { tail } else { cert };
            let Some(items) = items_mut(m, f, at) else { return false };
            let cand: Vec<Value> = src.into_iter().filter(|c| !items.contains(c)).collect();
            if cand.is_empty() {
                return false;
            }
            items.push(cand[pick_index(pick, cand.len())].clone());
        }
        Tamper::PromoteNonCertified { at, pick } => {
            let nc = m[non_certified_key(f)].as_array().cloned().unwrap_or_default();
            if nc.is_empty() {
                return false;
            }
            let hsh = nc[pick_index(pick, nc.len())].as_str().unwrap_or("").to_string();
            let it = match f {
                Fmt::Legacy => Value::from(hsh.clone()),
                _ => {
                    let mut it = fake_item(f, 1, cx.h);
                    it[if f == Fmt::V2Tx { "transaction_hash" } else { "block_hash" }] = Value::from(hsh.clone());
                    it
                }
            };
            let Some(items) = items_mut(m, f, at) else { return false };
            items.push(it);
            if let Some(a) = m[non_certified_key(f)].as_array_mut() {
                a.retain(|x| x.as_str() != Some(&hsh));
            }
        }
        Tamper::EditHashChar { at, item, field, pos } => {
            let Some(key) = field_key(f, field) else { return false };
            let Some(items) = items_mut(m, f, at) else { return false };
            if items.is_empty() {
                return false;
            }
            let i = pick_index(item, items.len());
            let target = if key.is_empty() { &mut items[i] } else { &mut items[i][key] };
            let Some(s) = target.as_str() else { return false };
            if s.is_empty() {
                return false;
            }
            let mut b = s.as_bytes().to_vec();
            let p = pick_index(pos, b.len());
            b[p] = match b[p] {
                b'0'..=b'8' => b[p] + 1,
                b'9' => b'a',
                b'a'..=b'e' => b[p] + 1,
                _ => b'0',
            };
            *target = Value::from(String::from_utf8_lossy(&b).to_string());
        }
        Tamper::EditNumber { at, item, field, edit } => {
            let Some(key) = field_key(f, field) else { return false };
            if key.is_empty() || !matches!(field, Field::BlockNumber | Field::Slot) {
                return false;
            }
            let Some(items) = items_mut(m, f, at) else { return false };
            if items.is_empty() {
                return false;
            }
            let i = pick_index(item, items.len());
            let Some(v) = items[i][key].as_u64() else { return false };
            items[i][key] = Value::from(edit.apply(v));
        }
        Tamper::MoveToBlock { at, item, block } => {
            if f != Fmt::V2Tx {
                return false;
            }
            let b = &cx.h.chain[pick_index(block, cx.h.chain.len())];
            let Some(items) = items_mut(m, f, at) else { return false };
            if items.is_empty() {
                return false;
            }
            let i = pick_index(item, items.len());
            items[i]["block_hash"] = Value::from(b.hash.clone());
            items[i]["block_number"] = Value::from(b.number);
            items[i]["slot_number"] = Value::from(b.slot);
        }
        Tamper::SwapField { at, a, b, field } => {
            let Some(key) = field_key(f, field) else { return false };
            let Some(items) = items_mut(m, f, at) else { return false };
            if items.len() < 2 {
                return false;
            }
            let a = pick_index(a, items.len());
            let mut b = pick_index(b, items.len());
            if a == b {
                b = (a + 1) % items.len();
            }
            if key.is_empty() {
                items.swap(a, b);
            } else {
                let (va, vb) = (items[a][key].clone(), items[b][key].clone());
                items[a][key] = vb;
                items[b][key] = va;
            }
        }
        Tamper::DropItem { at, item } => {
            let Some(items) = items_mut(m, f, at) else { return false };
            if items.is_empty() {
                return false;
            }
            let i = pick_index(item, items.len());
            items.remove(i);
        }
        Tamper::DupItem { at, item } => {
            let Some(items) = items_mut(m, f, at) else { return false };
            if items.is_empty() {
                return false;
            }
            let i = pick_index(item, items.len());
            let x = items[i].clone();
            items.push(x);
        }
        Tamper::DupItemAltered { at, item, what, place, block } => {
            if f == Fmt::Legacy {
                return false;
            }
            let b = &cx.h.chain[pick_index(block, cx.h.chain.len())];
            let Some(items) = items_mut(m, f, at) else { return false };
            if items.is_empty() {
                return false;
            }
            let i = pick_index(item, items.len());
            let mut x = items[i].clone();
            match what % 4 {
                0 => {
                    // the whole location of another block of the chain
                    if f == Fmt::V2Tx {
                        x["block_hash"] = Value::from(b.hash.clone());
                    }
                    x["block_number"] = Value::from(b.number);
                    x["slot_number"] = Value::from(b.slot);
                }
                1 => x["block_number"] = Value::from(x["block_number"].as_u64().unwrap_or(0).wrapping_add(1 + (block % 900) as u64)),
                2 => x["slot_number"] = Value::from(x["slot_number"].as_u64().unwrap_or(0).wrapping_add(1 + (block % 900) as u64)),
                _ => {
                    if f == Fmt::V2Tx {
                        x["block_hash"] = Value::from(b.hash.clone());
                    } else {
                        x["slot_number"] = Value::from(b.slot);
                    }
                }
            }
            if x == items[i] {
                return false;
            }
            match place % 3 {
                0 => items.insert(i + 1, x),
                1 => items.insert(i, x),
                _ => items.push(x),
            }
        }
        Tamper::InterleaveSetProofs { pattern, slots } => {
            if f != Fmt::Legacy {
                return false;
            }
            let Some(foreign) = cx.foreign_resp else { return false };
            let theirs = foreign.json[container_key(f)].as_array().cloned().unwrap_or_default();
            let mut own = m[container_key(f)].as_array().cloned().unwrap_or_default();
            if let Some(second) = cx.second {
                own.extend(second.json[container_key(f)].as_array().cloned().unwrap_or_default());
            }
            if theirs.is_empty() || own.is_empty() {
                return false;
            }
            let slots = 2 + (slots % 4) as usize;
            let mut bits: Vec<bool> = (0..slots).map(|i| pattern >> i & 1 == 1).collect();
            if !bits.iter().any(|b| *b) {
                let last = bits.len() - 1;
                bits[last] = true;
            }
            let (mut io, mut it) = (0usize, 0usize);
            let mut list = vec![];
            for foreign_slot in bits {
                if foreign_slot {
                    list.push(theirs[it % theirs.len()].clone());
                    it += 1;
                } else {
                    list.push(own[io % own.len()].clone());
                    io += 1;
                }
            }
            m[container_key(f)] = Value::from(list);
        }
        Tamper::SpliceSecond | Tamper::SpliceForeign { .. } => {
            let (src, front) = match t {
                Tamper::SpliceSecond => (cx.second, false),
                Tamper::SpliceForeign { front } => (cx.foreign_resp, *front),
                _ => unreachable!(),
            };
            let Some(src) = src else { return false };
            match f {
                Fmt::Legacy => {
                    let add = src.json[container_key(f)].as_array().cloned().unwrap_or_default();
                    if add.is_empty() {
                        return false;
                    }
                    let Some(a) = m[container_key(f)].as_array_mut() else { return false };
                    if front {
                        let mut n = add;
                        n.extend(a.drain(..));
                        *a = n;
                    } else {
                        a.extend(add);
                    }
                }
                _ => {
                    // a single set proof: take over the other response's items in addition to the own ones
                    let add = src.json[container_key(f)]["items"].as_array().cloned().unwrap_or_default();
                    if add.is_empty() {
                        return false;
                    }
                    let Some(items) = items_mut(m, f, 0) else { return false };
                    for x in add {
                        if !items.contains(&x) {
                            items.push(x);
                        }
                    }
                }
            }
        }
        Tamper::SwapProofs { a, b } => {
            let n = n_set_proofs(m, f);
            if n < 2 {
                return false;
            }
            let a = pick_index(a, n);
            let mut b = pick_index(b, n);
            if a == b {
                b = (a + 1) % n;
            }
            let arr = m[container_key(f)].as_array_mut().unwrap();
            let (pa, pb) = (arr[a]["proof"].clone(), arr[b]["proof"].clone());
            arr[a]["proof"] = pb;
            arr[b]["proof"] = pa;
        }
        Tamper::ReplaceProofForeign { at } | Tamper::ReplaceItemsForeign { at } => {
            let Some(src) = cx.foreign_resp else { return false };
            let other = match f {
                Fmt::Legacy => src.json[container_key(f)].get(0).cloned(),
                _ => Some(src.json[container_key(f)].clone()),
            };
            let Some(other) = other.filter(|o| o.is_object()) else { return false };
            let Some(sp) = set_proof_mut(m, f, at) else { return false };
            let key = if matches!(t, Tamper::ReplaceProofForeign { .. }) { "proof" } else { items_key(f) };
            sp[key] = other[key].clone();
        }
        Tamper::Empty(kind) => match (kind, f) {
            (EmptyKind::EmptyList, Fmt::Legacy) => m[container_key(f)] = json!([]),
            (EmptyKind::Null, _) => m[container_key(f)] = Value::Null,
            (EmptyKind::NoItemsKeepProof, _) => {
                let Some(items) = items_mut(m, f, 0) else { return false };
                items.clear();
            }
            _ => return false,
        },
        Tamper::DetachSubProof { at, which } => {
            return with_proof(m, f, at, |pv| {
                let Some(a) = pv["sub_proofs"].as_array_mut() else { return false };
                if a.is_empty() {
                    return false;
                }
                let i = pick_index(which, a.len());
                a.remove(i);
                true
            });
        }
        Tamper::DetachAllSubProofs { at } => {
            return with_proof(m, f, at, |pv| {
                let Some(a) = pv["sub_proofs"].as_array_mut() else { return false };
                if a.is_empty() {
                    return false;
                }
                a.clear();
                true
            });
        }
        Tamper::PromoteSubProof { at, which } => {
            return with_proof(m, f, at, |pv| {
                let Some(a) = pv["sub_proofs"].as_array() else { return false };
                if a.is_empty() {
                    return false;
                }
                let sub = a[pick_index(which, a.len())][1].clone();
                *pv = sub;
                true
            });
        }
        Tamper::GraftForeignSubProof { at, which, replace } => {
            let Some(src) = cx.foreign_resp else { return false };
            let other = match f {
                Fmt::Legacy => src.json[container_key(f)].get(0).cloned(),
                _ => Some(src.json[container_key(f)].clone()),
            };
            let Some(other) = other.filter(|o| o.is_object()) else { return false };
            let Some(ov) = other["proof"].as_str().and_then(|s| proof_view(f, s)) else { return false };
            let subs = ov["sub_proofs"].as_array().cloned().unwrap_or_default();
            if subs.is_empty() {
                return false;
            }
            let graft = subs[pick_index(which, subs.len())].clone();
            let ok = with_proof(m, f, at, |pv| {
                let Some(a) = pv["sub_proofs"].as_array_mut() else { return false };
                if replace && !a.is_empty() {
                    let i = pick_index(which.rotate_left(7), a.len());
                    a[i] = graft;
                } else {
                    a.push(graft);
                }
                true
            });
            if !ok {
                return false;
            }
            let add = other[items_key(f)].as_array().cloned().unwrap_or_default();
            if let Some(items) = items_mut(m, f, at) {
                if replace {
                    items.clear();
                }
                items.extend(add);
            }
        }
        Tamper::LeafDupPosition { at, leaf, seed, fake_first } => {
            let it = fake_item(f, seed, cx.h);
            let Some(lb) = leaf_of(f, &it) else { return false };
            let ok = with_proof(m, f, at, |pv| {
                let Some(holder) = leaf_holder_mut(pv, leaf) else { return false };
                let Some(leaves) = holder["inner_leaves"].as_array_mut() else { return false };
                if leaves.is_empty() {
                    return false;
                }
                let i = pick_index(leaf.rotate_left(5), leaves.len());
                let pos = leaves[i][0].clone();
                let entry = json!([pos, {"hash": bytes_json(&lb)}]);
                if fake_first {
                    leaves.insert(i, entry);
                } else {
                    leaves.insert(i + 1, entry);
                }
                true
            });
            if !ok {
                return false;
            }
            if let Some(items) = items_mut(m, f, at) {
                items.push(it);
            }
        }
        Tamper::LeafDupIdenticalAddItem { at, leaf, seed, replace } => {
            let it = fake_item(f, seed, cx.h);
            let ok = with_proof(m, f, at, |pv| {
                let Some(holder) = leaf_holder_mut(pv, leaf) else { return false };
                let Some(leaves) = holder["inner_leaves"].as_array_mut() else { return false };
                if leaves.is_empty() {
                    return false;
                }
                let i = pick_index(leaf.rotate_left(5), leaves.len());
                let copy = leaves[i].clone();
                leaves.insert(i + 1, copy);
                true
            });
            if !ok {
                return false;
            }
            let Some(items) = items_mut(m, f, at) else { return false };
            if replace && !items.is_empty() {
                // the forged item takes the place of a genuine one that is not the duplicated leaf's (best effort)
                let j = pick_index(leaf, items.len());
                items[j] = it;
            } else {
                items.push(it);
            }
        }
        Tamper::HashCase { at, item, field, upper_all } => {
            let Some(key) = field_key(f, field) else { return false };
            let Some(items) = items_mut(m, f, at) else { return false };
            if items.is_empty() {
                return false;
            }
            let i = pick_index(item, items.len());
            let target = if key.is_empty() { &mut items[i] } else { &mut items[i][key] };
            let Some(sv) = target.as_str().map(|x| x.to_string()) else { return false };
            let changed: String = if upper_all {
                sv.to_uppercase()
            } else {
                // the first letter only
                let mut done = false;
                sv.chars().map(|ch| if !done && ch.is_ascii_lowercase() { done = true; ch.to_ascii_uppercase() } else { ch }).collect()
            };
            if changed == sv {
                return false;
            }
            *target = Value::from(changed);
        }
        Tamper::LeafAdd { at, seed } => {
            let it = fake_item(f, seed, cx.h);
            let Some(lb) = leaf_of(f, &it) else { return false };
            let ok = with_proof(m, f, at, |pv| {
                let Some(holder) = leaf_holder_mut(pv, seed as u16) else { return false };
                let Some(leaves) = holder["inner_leaves"].as_array_mut() else { return false };
                let maxp = leaves.iter().filter_map(|l| l[0].as_u64()).max().unwrap_or(0);
                let pos = match seed % 3 {
                    0 => maxp + 1,
                    1 => maxp + 2,
                    _ => seed % (maxp + 2),
                };
                leaves.push(json!([pos, {"hash": bytes_json(&lb)}]));
                true
            });
            if !ok {
                return false;
            }
            if let Some(items) = items_mut(m, f, at) {
                items.push(it);
            }
        }
        Tamper::LeafReplace { at, leaf, seed } => {
            let it = fake_item(f, seed, cx.h);
            let Some(lb) = leaf_of(f, &it) else { return false };
            let mut old: Option<Vec<u8>> = None;
            let ok = with_proof(m, f, at, |pv| {
                let Some(holder) = leaf_holder_mut(pv, leaf) else { return false };
                let Some(leaves) = holder["inner_leaves"].as_array_mut() else { return false };
                if leaves.is_empty() {
                    return false;
                }
                let i = pick_index(leaf.rotate_left(5), leaves.len());
                old = json_bytes(&leaves[i][1]["hash"]);
                leaves[i][1]["hash"] = bytes_json(&lb);
                true
            });
            if !ok {
                return false;
            }
            if let Some(items) = items_mut(m, f, at) {
                if let Some(p) = items.iter().position(|x| leaf_of(f, x) == old) {
                    items[p] = it;
                } else {
                    items.push(it);
                }
            }
        }
        Tamper::SiblingBoundaryMove { at, pair, k } => {
            if f != Fmt::Legacy || k == 0 {
                return false;
            }
            let mut renamed: Vec<(Vec<u8>, Vec<u8>)> = vec![];
            let ok = with_proof(m, f, at, |pv| {
                // all (holder index, i, j) with leaves at adjacent positions = the two children of one inner node
                let nsub = pv["sub_proofs"].as_array().map(|a| a.len()).unwrap_or(0);
                let mut pairs = vec![];
                for s in 0..nsub.max(1) {
                    let holder = if nsub == 0 { &pv["master_proof"] } else { &pv["sub_proofs"][s][1]["master_proof"] };
                    let Some(leaves) = holder["inner_leaves"].as_array() else { continue };
                    for (i, a) in leaves.iter().enumerate() {
                        for (j, b) in leaves.iter().enumerate() {
                            if let (Some(pa), Some(pb)) = (a[0].as_u64(), b[0].as_u64()) {
                                if pb == pa + 1 {
                                    pairs.push((s, i, j));
                                }
                            }
                        }
                    }
                }
                if pairs.is_empty() {
                    return false;
                }
                let (s, i, j) = pairs[pick_index(pair, pairs.len())];
                let holder = if nsub == 0 { &mut pv["master_proof"] } else { &mut pv["sub_proofs"][s][1]["master_proof"] };
                let leaves = holder["inner_leaves"].as_array_mut().unwrap();
                let (Some(l), Some(r)) = (json_bytes(&leaves[i][1]["hash"]), json_bytes(&leaves[j][1]["hash"])) else { return false };
                let cat = [l.clone(), r.clone()].concat();
                let cut = l.len() as i64 + k as i64;
                if cut <= 0 || cut >= cat.len() as i64 {
                    return false;
                }
                let (nl, nr) = (cat[..cut as usize].to_vec(), cat[cut as usize..].to_vec());
                leaves[i][1]["hash"] = bytes_json(&nl);
                leaves[j][1]["hash"] = bytes_json(&nr);
                renamed.push((l, nl));
                renamed.push((r, nr));
                true
            });
            if !ok {
                return false;
            }
            if let Some(items) = items_mut(m, f, at) {
                for (old, new) in renamed {
                    let Ok(new) = String::from_utf8(new) else { return false };
                    if let Some(p) = items.iter().position(|x| x.as_str().map(|s| s.as_bytes()) == Some(&old[..])) {
                        items[p] = Value::from(new);
                    } else {
                        items.push(Value::from(new));
                    }
                }
            }
        }
        Tamper::ProofSize { at, sub, edit } => {
            return with_proof(m, f, at, |pv| {
                let holder = if sub { leaf_holder_mut(pv, 0) } else { pv.get_mut("master_proof") };
                let Some(holder) = holder else { return false };
                let Some(v) = holder["inner_proof_size"].as_u64() else { return false };
                let nv = edit.apply(v);
                holder["inner_proof_size"] = Value::from(nv);
                nv != v
            });
        }
        Tamper::DropProofItem { at, sub, i } => {
            return with_proof(m, f, at, |pv| {
                let holder = if sub { leaf_holder_mut(pv, i) } else { pv.get_mut("master_proof") };
                let Some(holder) = holder else { return false };
                let Some(a) = holder["inner_proof_items"].as_array_mut() else { return false };
                if a.is_empty() {
                    return false;
                }
                let p = pick_index(i, a.len());
                a.remove(p);
                true
            });
        }
        Tamper::FlipRoot { at, byte } => {
            return with_proof(m, f, at, |pv| {
                let Some(mut b) = json_bytes(&pv["master_proof"]["inner_root"]["hash"]) else { return false };
                if b.is_empty() {
                    return false;
                }
                let n = b.len();
                b[byte as usize % n] ^= 1;
                pv["master_proof"]["inner_root"]["hash"] = bytes_json(&b);
                true
            });
        }
        Tamper::LatestBlock(e) => {
            let Some(v) = m["latest_block_number"].as_u64() else { return false };
            m["latest_block_number"] = Value::from(e.apply(v));
        }
        Tamper::Offset(e) => {
            if f == Fmt::Legacy {
                return false;
            }
            let Some(v) = m["security_parameter"].as_u64() else { return false };
            m["security_parameter"] = Value::from(e.apply(v));
        }
        Tamper::CertificateHash => m["certificate_hash"] = Value::from("another-certificate"),
        Tamper::AsLegacy => {
            // the same proof presented in the legacy format: the leaf identifiers become "transaction hashes"
            if f == Fmt::Legacy || !m[container_key(f)].is_object() {
                return false;
            }
            let sp = m[container_key(f)].clone();
            let ids: Vec<Value> = sp["items"]
                .as_array()
                .map(|a| a.iter().filter_map(|x| leaf_of(f, x)).map(|b| Value::from(String::from_utf8_lossy(&b).to_string())).collect())
                .unwrap_or_default();
            let Some(proof) = sp["proof"].as_str().and_then(|s| proof_view(f, s)).and_then(|v| proof_hex(Fmt::Legacy, &v)) else { return false };
            *m = json!({
                "certificate_hash": m["certificate_hash"],
                "certified_transactions": [{"transactions_hashes": ids, "proof": proof}],
                "non_certified_transactions": [],
                "latest_block_number": m["latest_block_number"],
            });
            *fmt = Fmt::Legacy;
        }
        Tamper::AsV2 => {
            // a legacy proof presented in the v2 format with the true block data of each transaction
            if f != Fmt::Legacy {
                return false;
            }
            let Some(sp) = m[container_key(f)].get(0).cloned() else { return false };
            let items: Vec<Value> = sp["transactions_hashes"]
                .as_array()
                .map(|a| {
                    a.iter()
                        .filter_map(|x| x.as_str())
                        .map(|hsh| match cx.h.certified_tx.iter().find(|t| t.0 == hsh) {
                            Some(t) => tx_item(t),
                            None => tx_item(&(hsh.to_string(), cx.h.chain[0].hash.clone(), cx.h.chain[0].number, cx.h.chain[0].slot)),
                        })
                        .collect()
                })
                .unwrap_or_default();
            let Some(proof) = sp["proof"].as_str().and_then(|s| proof_view(f, s)).and_then(|v| proof_hex(Fmt::V2Tx, &v)) else { return false };
            *m = json!({
                "certificate_hash": m["certificate_hash"],
                "certified_transactions": {"items": items, "proof": proof},
                "non_certified_transactions": [],
                "latest_block_number": m["latest_block_number"],
                "security_parameter": cx.h.spec.offset,
            });
            *fmt = Fmt::V2Tx;
        }
    }
    *m != before
}

// ------------------------------------------------------------------------------------------- client flow

#[derive(Debug)]
enum Flow {
    Undecodable,
    VerifyRejected,
    MessageMismatch,
    Panicked(String),
    /// reported items (in the JSON item form of the format), the block number and offset the verified result
    /// carries, and the recomputed protocol message
    Accepted { reported: Vec<Value>, latest: Option<u64>, offset: Option<u64>, message: ProtocolMessage },
}

/// the documented client flow: verify the proofs, recompute the message, compare with the certificate
fn client_flow(fmt: Fmt, m: &Value, cert: &CertificateMessage) -> Flow {
    let r = catch(|| match fmt {
        Fmt::Legacy => {
            let Ok(msg) = serde_json::from_value::<CardanoTransactionsProofsMessage>(m.clone()) else { return Flow::Undecodable };
            let Ok(v) = msg.verify() else { return Flow::VerifyRejected };
            let pm = long_lived_builder(|b| b.compute_cardano_transactions_proofs_message(cert, &v));
            if !cert.match_message(&pm) {
                return Flow::MessageMismatch;
            }
            // the legacy verified object exposes its block number only through fill_protocol_message
            let mut probe = ProtocolMessage::new();
            v.fill_protocol_message(&mut probe);
            let latest = probe.get_message_part(&ProtocolMessagePartKey::LatestBlockNumber).and_then(|s| s.parse::<u64>().ok());
            Flow::Accepted { reported: v.certified_transactions().iter().map(|t| Value::from(t.clone())).collect(), latest, offset: None, message: pm }
        }
        Fmt::V2Tx => {
            let Ok(msg) = serde_json::from_value::<CardanoTransactionsProofsV2Message>(m.clone()) else { return Flow::Undecodable };
            let Ok(v) = msg.verify() else { return Flow::VerifyRejected };
            let pm = long_lived_builder(|b| b.compute_cardano_transactions_proofs_v2_message(cert, &v));
            if !cert.match_message(&pm) {
                return Flow::MessageMismatch;
            }
            Flow::Accepted {
                reported: v.certified_transactions().iter().filter_map(|t| serde_json::to_value(t).ok()).collect(),
                latest: Some(*v.latest_certified_block_number()),
                offset: Some(*v.security_parameter()),
                message: pm,
            }
        }
        Fmt::V2Blk => {
            let Ok(msg) = serde_json::from_value::<CardanoBlocksProofsMessage>(m.clone()) else { return Flow::Undecodable };
            let Ok(v) = msg.verify() else { return Flow::VerifyRejected };
            let pm = long_lived_builder(|b| b.compute_cardano_blocks_proofs_message(cert, &v));
            if !cert.match_message(&pm) {
                return Flow::MessageMismatch;
            }
            Flow::Accepted {
                reported: v.certified_blocks().iter().filter_map(|t| serde_json::to_value(t).ok()).collect(),
                latest: Some(*v.latest_certified_block_number()),
                offset: Some(*v.security_parameter()),
                message: pm,
            }
        }
    });
    match r {
        Ok(f) => f,
        Err(p) => Flow::Panicked(p),
    }
}

#[derive(Clone, Debug, Serialize, Deserialize)]
pub struct ProofCase {
    pub chain: ChainSpec,
    pub foreign: ChainSpec,
    pub fmt: Fmt,
    pub query: u16,
    pub second: u16,
    pub foreign_query: u16,
    pub tampers: Vec<Tamper>,
    pub cert: CertSel,
}

fn responses(h: &Honest, fmt: Fmt) -> &Vec<Response> {
    match fmt {
        Fmt::Legacy => &h.legacy,
        Fmt::V2Tx => &h.v2_tx,
        Fmt::V2Blk => &h.v2_blk,
    }
}

fn is_certified(fmt: Fmt, item: &Value, truth: &Honest) -> bool {
    match fmt {
        Fmt::Legacy => item.as_str().is_some_and(|s| truth.certified_legacy.contains(s)),
        Fmt::V2Tx => (|| {
            Some(truth.certified_tx.contains(&(
                item["transaction_hash"].as_str()?.to_string(),
                item["block_hash"].as_str()?.to_string(),
                item["block_number"].as_u64()?,
                item["slot_number"].as_u64()?,
            )))
        })()
        .unwrap_or(false),
        Fmt::V2Blk => (|| Some(truth.certified_blk.contains(&(item["block_hash"].as_str()?.to_string(), item["block_number"].as_u64()?, item["slot_number"].as_u64()?))))()
            .unwrap_or(false),
    }
}

/// narrow class: every uncertified reported hash is a *piece of two re-cut sibling leaves*: a proper prefix or suffix
/// of a certified hash, a certified hash followed by a proper prefix of a certified hash, or a proper suffix of a
/// certified hash followed by a certified hash (a fabricated or edited hash has 64 characters and never qualifies)
fn is_recut_piece(h: &str, cert: &BTreeSet<String>) -> bool {
    let n = h.len();
    if n == 64 || !(40..=88).contains(&n) || !h.is_ascii() {
        return false;
    }
    if n < 64 {
        cert.iter().any(|c| c.starts_with(h) || c.ends_with(h))
    } else {
        (cert.contains(&h[..64]) && cert.iter().any(|c| c.starts_with(&h[64..]))) || (cert.contains(&h[n - 64..]) && cert.iter().any(|c| c.ends_with(&h[..n - 64])))
    }
}

fn is_sibling_boundary_class(reported: &[Value], truth: &Honest) -> bool {
    let bad: Vec<&str> = reported.iter().filter_map(|x| x.as_str()).filter(|s| !truth.certified_legacy.contains(*s)).collect();
    !bad.is_empty() && reported.iter().all(|x| x.as_str().is_some()) && bad.iter().all(|h| is_recut_piece(h, &truth.certified_legacy))
}

pub const KEY_SIBLING: &str = "legacy-tx-sibling-leaf-boundary-move";
pub const KEY_STAKE_BOUNDARY: &str = "stake-leaf-boundary-move";
pub const KEY_STAKE_SIBLING: &str = "stake-sibling-leaf-boundary-move";

struct Known {
    sibling: bool,
    stake_boundary: bool,
    stake_sibling: bool,
}

fn proof_case(c: &ProofCase, known: &Known) -> Report {
    let mut rep = Report::new();
    let (Some(h), Some(foreign)) = (honest_cached(&c.chain), honest_cached(&c.foreign)) else {
        rep.discard("chain could not be built");
        return rep;
    };
    // a chain without a complete block range has no legacy certificate: use the v2 transaction format instead
    let c = &ProofCase { fmt: if c.fmt == Fmt::Legacy && h.legacy.is_empty() { Fmt::V2Tx } else { c.fmt }, ..c.clone() };
    let rs = responses(&h, c.fmt);
    if rs.is_empty() {
        rep.discard("no certificate of this format for this chain");
        return rep;
    }
    let qi = pick_index(c.query, rs.len());
    let resp = &rs[qi];
    let second = rs.get((qi + 1 + pick_index(c.second, rs.len().saturating_sub(1).max(1))) % rs.len()).filter(|_| rs.len() > 1);
    let frs = responses(&foreign, c.fmt);
    let foreign_resp = if frs.is_empty() { None } else { Some(&frs[pick_index(c.foreign_query, frs.len())]) };
    let own_cert = |f: Fmt, hh: &Honest| if f == Fmt::Legacy { hh.cert_legacy.clone() } else { hh.cert_v2.clone() };
    rep.label(format!("fmt:{:?}", c.fmt));
    // honest control
    let honest_flow = client_flow(c.fmt, &resp.json, &own_cert(c.fmt, &h));
    let expected: BTreeSet<String> = resp
        .query
        .iter()
        .filter(|q| match c.fmt {
            Fmt::Legacy => h.certified_legacy.contains(*q),
            Fmt::V2Tx => h.certified_tx.iter().any(|t| &t.0 == *q),
            Fmt::V2Blk => h.certified_blk.iter().any(|t| &t.0 == *q),
        })
        .cloned()
        .collect();
    match &honest_flow {
        Flow::Accepted { reported, .. } => {
            let got: BTreeSet<String> = reported
                .iter()
                .filter_map(|x| match c.fmt {
                    Fmt::Legacy => x.as_str().map(|s| s.to_string()),
                    Fmt::V2Tx => x["transaction_hash"].as_str().map(|s| s.to_string()),
                    Fmt::V2Blk => x["block_hash"].as_str().map(|s| s.to_string()),
                })
                .collect();
            if got != expected || reported.iter().any(|x| !is_certified(c.fmt, x, &h)) {
                rep.label("harness-model-mismatch");
                rep.discard("the honest response does not report what the model expects");
                return rep;
            }
            rep.label(format!("honest-accepted:{:?}", c.fmt));
        }
        Flow::VerifyRejected if expected.is_empty() => {
            rep.label("honest-nothing-certified");
        }
        other => {
            rep.label(format!("honest-not-accepted:{}", format!("{other:?}").split([' ', '(', '{']).next().unwrap_or("")));
            rep.discard("honest response not accepted");
            return rep;
        }
    }
    // tampering
    let mut m = resp.json.clone();
    let mut fmt = c.fmt;
    let cx = TamperCtx { h: &h, foreign: &foreign, second, foreign_resp };
    let mut names = vec![];
    for t in &c.tampers {
        if apply(&mut m, &mut fmt, t, &cx) {
            names.push(tamper_name(t));
        }
    }
    let _ = cx.foreign;
    for n in &names {
        rep.label(format!("tamper:{n}"));
    }
    let cert_is_legacy;
    let (cert, truth): (CertificateMessage, &Honest) = match c.cert {
        CertSel::Matching => {
            cert_is_legacy = c.fmt == Fmt::Legacy;
            (own_cert(c.fmt, &h), &h)
        }
        CertSel::OtherFormat => {
            cert_is_legacy = c.fmt != Fmt::Legacy;
            (if c.fmt == Fmt::Legacy { h.cert_v2.clone() } else { h.cert_legacy.clone() }, &h)
        }
        CertSel::Foreign => {
            cert_is_legacy = c.fmt == Fmt::Legacy;
            (own_cert(c.fmt, &foreign), &foreign)
        }
    };
    rep.label(format!("cert:{:?}", c.cert));
    if names.is_empty() && c.cert == CertSel::Matching {
        rep.label("untampered");
        return rep;
    }
    let flow = client_flow(fmt, &m, &cert);
    let verdict = match &flow {
        Flow::Undecodable => "undecodable",
        Flow::VerifyRejected => "verify-rejected",
        Flow::MessageMismatch => "message-mismatch",
        Flow::Panicked(_) => "panicked",
        Flow::Accepted { .. } => "accepted",
    };
    rep.label(format!("verdict:{verdict}"));
    if let Flow::Panicked(p) = &flow {
        // a crash on a tampered response is not an acceptance (decoder robustness is C05's subject); keep it visible
        rep.label(format!("flow-panicked:{}", p.rsplit(" @ ").next().unwrap_or("")));
    }
    if matches!(flow, Flow::Undecodable) {
        return rep;
    }
    let multi = n_set_proofs(&m, fmt) > 1;
    if multi {
        rep.label("several-set-proofs");
    }
    if names.iter().any(|n| n.starts_with("GraftForeignSubProof")) {
        rep.label("class:foreign-sub-proof-grafted");
    }
    if names.iter().any(|n| n.starts_with("SpliceForeign") || n.starts_with("ReplaceProofForeign") || n.starts_with("ReplaceItemsForeign") || n.starts_with("GraftForeignSubProof")) {
        rep.label("class:cross-root-mix");
    }
    if names.iter().any(|n| n == "MoveToBlock") {
        rep.label("class:moved-to-other-block");
    }
    if names.iter().any(|n| n.starts_with("SiblingBoundaryMove")) {
        rep.label("class:sibling-boundary-move");
    }
    if names.iter().any(|n| n.starts_with("LeafDupPosition")) {
        rep.label("class:duplicated-leaf-position");
    }
    if names.iter().any(|n| n.starts_with("Detach") || n.starts_with("PromoteSubProof")) {
        rep.label("class:detached-sub-proof");
    }
    if fmt != c.fmt {
        rep.label("class:format-confusion");
    }
    rep.nontrivial(format!("{:?}->{fmt:?} {names:?} cert:{:?} multi:{multi} {verdict}", c.fmt, c.cert));
    let Flow::Accepted { reported, latest, offset, message } = flow else { return rep };
    // ---- the oracle
    let what = |detail: String| format!("{detail}; format {:?}->{fmt:?}, tamperings {names:?}, certificate {:?}, query #{qi}", c.fmt, c.cert);
    if cert_is_legacy != (fmt == Fmt::Legacy) {
        rep.violation("accepted-under-certificate-of-another-entity-type", what(format!("a {fmt:?} response was accepted against a certificate of the other transaction format, reporting {} items", reported.len())));
        return rep;
    }
    let signed = if cert_is_legacy { &truth.pm_legacy } else { &truth.pm_v2 };
    if message.message_parts != signed.message_parts {
        rep.violation("recomputed-message-differs-from-signed", what(format!("accepted with parts {:?}, signed parts {:?}", message.message_parts, signed.message_parts)));
        return rep;
    }
    let (signed_latest, signed_offset) = if cert_is_legacy { (truth.up_to_legacy, None) } else { (Some(truth.up_to), Some(truth.spec.offset)) };
    if latest != signed_latest || offset != signed_offset {
        rep.violation(
            "reported-block-number-or-offset-differs-from-signed",
            what(format!("the verified result carries block number {latest:?} / offset {offset:?}, signed were {signed_latest:?} / {signed_offset:?}")),
        );
        return rep;
    }
    // every set proof under the signed root
    let root_key = if cert_is_legacy { ProtocolMessagePartKey::CardanoTransactionsMerkleRoot } else { ProtocolMessagePartKey::CardanoBlocksTransactionsMerkleRoot };
    let signed_root = signed.get_message_part(&root_key).cloned().unwrap_or_default();
    let proofs: Vec<Value> = match fmt {
        Fmt::Legacy => m[container_key(fmt)].as_array().cloned().unwrap_or_default(),
        _ => vec![m[container_key(fmt)].clone()],
    };
    for (i, sp) in proofs.iter().enumerate() {
        let root = sp["proof"].as_str().and_then(|s| decode_proof(fmt, s)).map(|p| p.compute_root().to_hex());
        if root.as_deref() != Some(signed_root.as_str()) {
            rep.violation("set-proof-under-another-root", what(format!("set proof #{i} has root {root:?}, the signed root is {signed_root}")));
            return rep;
        }
    }
    let bad: Vec<&Value> = reported.iter().filter(|x| !is_certified(fmt, x, truth)).collect();
    if !bad.is_empty() {
        if fmt == Fmt::Legacy && is_sibling_boundary_class(&reported, truth) {
            if known.sibling {
                rep.excluded_known(KEY_SIBLING);
            } else {
                rep.violation(KEY_SIBLING, what(format!("reported as certified: {bad:?} — not transactions of the chain; they are two certified neighbour hashes with characters moved across the leaf boundary")));
            }
        } else {
            rep.violation("reported-item-not-certified", what(format!("reported as certified but not among the certified items of the signed chain: {bad:?}")));
        }
        return rep;
    }
    rep.label("accepted-and-rule-holds");
    rep
}

// ------------------------------------------------------------------------------- Cardano stake distribution

#[derive(Clone, Copy, Debug, Serialize, Deserialize, PartialEq, Eq)]
pub enum StakeTamper {
    EditIdChar { pool: u16, pos: u16 },
    EditStake { pool: u16, edit: NumEdit },
    /// k > 0: the last k characters of the id become the first digits of the stake; k < 0: the first |k| digits of
    /// the stake are appended to the id
    BoundaryMove { pool: u16, k: i8 },
    /// two neighbouring entries re-cut: new boundary at old boundary + cut, then dl / dr trailing digits as stakes
    Resplit { pool: u16, cut: i8, dl: u8, dr: u8 },
    AddPool { seed: u64, stake: u64 },
    RemovePool { pool: u16 },
    SwapStakes { a: u16, b: u16 },
    Epoch(NumEdit),
}

#[derive(Clone, Debug, Serialize, Deserialize)]
pub struct StakeCase {
    pub pools: Vec<(String, u64)>,
    pub epoch: u64,
    pub tampers: Vec<StakeTamper>,
}

struct FixedDistribution(BTreeMap<String, u64>);

#[async_trait::async_trait]
impl StakeDistributionRetriever for FixedDistribution {
    async fn retrieve(&self, _epoch: Epoch) -> mithril_common::StdResult<Option<BTreeMap<String, u64>>> {
        Ok(Some(self.0.clone()))
    }
}

fn canonical_u64(s: &str) -> Option<u64> {
    if s.is_empty() || !s.bytes().all(|b| b.is_ascii_digit()) {
        return None;
    }
    s.parse::<u64>().ok()
}

fn stake_tamper_name(t: &StakeTamper) -> String {
    let s = format!("{t:?}");
    let head = s.split([' ', '{', '(']).next().unwrap_or("").to_string();
    match t {
        StakeTamper::BoundaryMove { k, .. } => format!("{head}:{}", if *k > 0 { "id-to-stake" } else { "stake-to-id" }),
        _ => head,
    }
}

fn apply_stake(entries: &mut Vec<(String, u64)>, epoch: &mut u64, t: &StakeTamper) -> bool {
    let before = (entries.clone(), *epoch);
    let n = entries.len();
    match *t {
        StakeTamper::Epoch(e) => *epoch = e.apply(*epoch),
        StakeTamper::AddPool { seed, stake } => entries.push((bech32ish(seed, 12), stake)),
        _ if n == 0 => return false,
        StakeTamper::EditIdChar { pool, pos } => {
            let e = &mut entries[pick_index(pool, n)];
            let mut b = e.0.as_bytes().to_vec();
            if b.is_empty() {
                return false;
            }
            let p = pick_index(pos, b.len());
            b[p] = if b[p] == b'q' { b'p' } else { b'q' };
            e.0 = String::from_utf8_lossy(&b).to_string();
        }
        StakeTamper::EditStake { pool, edit } => {
            let e = &mut entries[pick_index(pool, n)];
            e.1 = edit.apply(e.1);
        }
        StakeTamper::BoundaryMove { pool, k } => {
            let e = &mut entries[pick_index(pool, n)];
            let st = e.1.to_string();
            if k > 0 {
                let k = k as usize;
                if k >= e.0.len() {
                    return false;
                }
                let (id, tail) = e.0.split_at(e.0.len() - k);
                let Some(ns) = canonical_u64(&format!("{tail}{st}")) else { return false };
                *e = (id.to_string(), ns);
            } else {
                let k = k.unsigned_abs() as usize;
                if k == 0 || k >= st.len() {
                    return false;
                }
                let Some(ns) = canonical_u64(&st[k..]) else { return false };
                *e = (format!("{}{}", e.0, &st[..k]), ns);
            }
        }
        StakeTamper::Resplit { pool, cut, dl, dr } => {
            if n < 2 {
                return false;
            }
            // neighbours in leaf order (= map order)
            entries.sort();
            let i = pick_index(pool, n - 1);
            let left = format!("{}{}", entries[i].0, entries[i].1);
            let right = format!("{}{}", entries[i + 1].0, entries[i + 1].1);
            let cat = format!("{left}{right}");
            let at = left.len() as i64 + cut as i64;
            if at <= 1 || at >= cat.len() as i64 - 1 || !cat.is_char_boundary(at as usize) {
                return false;
            }
            let (l, r) = cat.split_at(at as usize);
            let cut_stake = |s: &str, d: u8| -> Option<(String, u64)> {
                let d = 1 + d as usize % 6;
                if d >= s.len() {
                    return None;
                }
                let (id, st) = s.split_at(s.len() - d);
                Some((id.to_string(), canonical_u64(st)?))
            };
            let (Some(nl), Some(nr)) = (cut_stake(l, dl), cut_stake(r, dr)) else { return false };
            entries[i] = nl;
            entries[i + 1] = nr;
        }
        StakeTamper::RemovePool { pool } => {
            entries.remove(pick_index(pool, n));
        }
        StakeTamper::SwapStakes { a, b } => {
            if n < 2 {
                return false;
            }
            let a = pick_index(a, n);
            let mut b = pick_index(b, n);
            if a == b {
                b = (a + 1) % n;
            }
            let (sa, sb) = (entries[a].1, entries[b].1);
            entries[a].1 = sb;
            entries[b].1 = sa;
        }
    }
    (entries.clone(), *epoch) != before
}

const BECH: &[u8] = b"qpzry9x8gf2tvdw0s3jn54khce6mua7l";

fn bech32ish(seed: u64, len: usize) -> String {
    let mut s = String::from("pool1");
    for i in 0..len {
        s.push(BECH[(mix(seed, i as u64) % 32) as usize] as char);
    }
    s
}

fn leaves_of(map: &BTreeMap<String, u64>) -> Vec<String> {
    map.iter().map(|(k, v)| format!("{k}{v}")).collect()
}

/// honest certificate + response for a stake distribution
fn honest_stake(map: &BTreeMap<String, u64>, epoch: u64) -> Option<(CertificateMessage, ProtocolMessage, Value)> {
    let builder = CardanoStakeDistributionSignableBuilder::new(Arc::new(FixedDistribution(map.clone())));
    let rt = tokio::runtime::Builder::new_current_thread().enable_all().build().ok()?;
    let pm = rt.block_on(builder.compute_protocol_message(Epoch(epoch))).ok()?;
    let spec = ChainSpec { seed: epoch, first: 0, txs: vec![], up_to_idx: 0, offset: 0, epoch: epoch + 1 };
    let pm = with_common_parts(pm, &spec);
    let cert = certificate("cert-csd", &pm, epoch + 1);
    let msg = CardanoStakeDistributionMessage {
        epoch: Epoch(epoch),
        // the artifact's own identifier, unique per distribution as the aggregator's is (an altered response keeps it)
        hash: format!("csd-{:016x}", map.iter().fold(epoch, |a, (k, v)| vcore::mix(vcore::mix(a, *v), k.bytes().fold(0u64, |h, b| vcore::mix(h, b as u64))))),
        certificate_hash: cert.hash.clone(),
        stake_distribution: map.clone(),
        ..CardanoStakeDistributionMessage::dummy()
    };
    Some((cert, pm, serde_json::to_value(&msg).ok()?))
}

/// One long-lived `MessageBuilder` per worker thread, as a client application keeps one: what it remembers from the
/// responses it has already processed (honest ones first, in every case) must not help a later altered response.
fn long_lived_builder<T>(f: impl FnOnce(&MessageBuilder) -> T) -> T {
    thread_local! {
        static BUILDER: MessageBuilder = MessageBuilder::new();
    }
    BUILDER.with(|b| f(b))
}

/// client flow for a Cardano stake distribution response: Some(reported map, epoch) when accepted
fn stake_flow(m: &Value, cert: &CertificateMessage) -> Result<Option<(BTreeMap<String, u64>, u64)>, String> {
    catch(|| {
        let Ok(msg) = serde_json::from_value::<CardanoStakeDistributionMessage>(m.clone()) else { return Err("undecodable".to_string()) };
        let Ok(pm) = long_lived_builder(|b| b.compute_cardano_stake_distribution_message(cert, &msg)) else { return Ok(None) };
        if !cert.match_message(&pm) {
            return Ok(None);
        }
        Ok(Some((msg.stake_distribution.clone(), *msg.epoch)))
    })
    .unwrap_or_else(|p| Err(format!("panicked: {p}")))
}

fn stake_case(c: &StakeCase, known: &Known) -> Report {
    let mut rep = Report::new();
    let certified: BTreeMap<String, u64> = c.pools.iter().cloned().collect();
    if certified.is_empty() {
        rep.discard("empty distribution");
        return rep;
    }
    let Some((cert, _pm, honest)) = honest_stake(&certified, c.epoch) else {
        rep.discard("signable builder refused the distribution");
        return rep;
    };
    match stake_flow(&honest, &cert) {
        Ok(Some((map, e))) if map == certified && e == c.epoch => {
            rep.label("csd-honest-accepted");
        }
        other => {
            rep.label("csd-honest-not-accepted");
            rep.discard(format!("honest stake distribution not accepted: {other:?}"));
            return rep;
        }
    }
    let mut entries: Vec<(String, u64)> = certified.iter().map(|(k, v)| (k.clone(), *v)).collect();
    let mut epoch = c.epoch;
    let mut names = vec![];
    for t in &c.tampers {
        if apply_stake(&mut entries, &mut epoch, t) {
            names.push(stake_tamper_name(t));
        }
    }
    for n in &names {
        rep.label(format!("csd-tamper:{n}"));
    }
    if names.is_empty() {
        rep.label("csd-untampered");
        return rep;
    }
    let mut m = honest.clone();
    m["epoch"] = Value::from(epoch);
    m["stake_distribution"] = Value::Object(entries.iter().map(|(k, v)| (k.clone(), Value::from(*v))).collect());
    let reported_in: BTreeMap<String, u64> = entries.iter().cloned().collect();
    let same_leaves = leaves_of(&reported_in) == leaves_of(&certified);
    let same_concat = leaves_of(&reported_in).concat() == leaves_of(&certified).concat() && reported_in.len() == certified.len();
    if reported_in != certified && same_leaves {
        rep.label("class:stake-boundary-move-same-leaves");
    } else if reported_in != certified && same_concat {
        rep.label("class:stake-sibling-boundary-move-same-concatenation");
    }
    let flow = stake_flow(&m, &cert);
    let verdict = match &flow {
        Ok(Some(_)) => "accepted",
        Ok(None) => "rejected",
        Err(e) if e == "undecodable" => "undecodable",
        Err(_) => "panicked",
    };
    rep.label(format!("csd-verdict:{verdict}"));
    rep.nontrivial(format!("csd {names:?} n:{} same-leaves:{same_leaves} same-concat:{same_concat} {verdict}", certified.len().min(8)));
    if let Ok(Some((map, e))) = flow {
        if map != certified || e != c.epoch {
            let diff: Vec<String> = map.iter().filter(|(k, v)| certified.get(*k) != Some(*v)).map(|(k, v)| format!("{k}:{v}")).collect();
            let what = format!(
                "the client accepted a stake distribution that differs from the certified one; reported-only entries {diff:?}, epoch {e} (signed {}), tamperings {names:?}, certified {:?}",
                c.epoch,
                certified.iter().take(6).collect::<Vec<_>>()
            );
            if e == c.epoch && leaves_of(&map) == leaves_of(&certified) {
                if known.stake_boundary {
                    rep.excluded_known(KEY_STAKE_BOUNDARY);
                } else {
                    rep.violation(KEY_STAKE_BOUNDARY, what);
                }
            } else if e == c.epoch && leaves_of(&map).concat() == leaves_of(&certified).concat() && map.len() == certified.len() {
                if known.stake_sibling {
                    rep.excluded_known(KEY_STAKE_SIBLING);
                } else {
                    rep.violation(KEY_STAKE_SIBLING, what);
                }
            } else {
                rep.violation("stake-distribution-differs-from-certified", what);
            }
        } else {
            rep.label("csd-accepted-and-equal");
        }
    }
    rep
}

// ------------------------------------------------------------------------------- Mithril stake distribution

#[derive(Clone, Copy, Debug, Serialize, Deserialize, PartialEq, Eq)]
pub enum MsdTamper {
    EditStake { i: u16, edit: NumEdit },
    SwapStakes { a: u16, b: u16 },
    SwapPartyIds { a: u16, b: u16 },
    EditPartyId { i: u16, pos: u16 },
    /// party id + operational certificate + KES signature + KES period exchanged between two signers
    SwapIdentity { a: u16, b: u16 },
    Remove { i: u16 },
    Duplicate { i: u16 },
    Reverse,
    AddOutsider { stake: u64 },
}

#[derive(Clone, Debug, Serialize, Deserialize)]
pub struct MsdCase {
    /// (operator seed, KES evolution of the signature, stake)
    pub signers: Vec<(u64, u8, u64)>,
    pub outsider: u64,
    pub epoch: u64,
    pub tampers: Vec<MsdTamper>,
}

fn msd_signer(seed: u64, e_sig: u8, stake: u64) -> mithril_common::entities::SignerWithStake {
    crate::c07::honest_signer_with_stake(&crate::c07::PoolSpec { seed, start: 0, issue: 0, e_sig, stake: None }, stake)
}

fn msd_map(m: &Value) -> Option<(BTreeMap<String, u64>, usize)> {
    let a = m["signers"].as_array()?;
    let mut map = BTreeMap::new();
    for s in a {
        map.insert(s["party_id"].as_str()?.to_string(), s["stake"].as_u64()?);
    }
    Some((map, a.len()))
}

fn msd_flow(m: &Value, cert: &CertificateMessage) -> Result<bool, String> {
    use mithril_common::messages::MithrilStakeDistributionMessage;
    catch(|| {
        let Ok(msg) = serde_json::from_value::<MithrilStakeDistributionMessage>(m.clone()) else { return Err("undecodable".to_string()) };
        let Ok(pm) = long_lived_builder(|b| b.compute_mithril_stake_distribution_message(cert, &msg)) else { return Ok(false) };
        Ok(cert.match_message(&pm))
    })
    .unwrap_or_else(|p| Err(format!("panicked: {p}")))
}

fn msd_case(c: &MsdCase) -> Report {
    use mithril_common::entities::ProtocolParameters;
    use mithril_common::messages::{MithrilStakeDistributionMessage, SignerWithStakeMessagePart};
    use mithril_common::protocol::SignerBuilder;
    let mut rep = Report::new();
    let mut seen = BTreeSet::new();
    let specs: Vec<(u64, u8, u64)> = c.signers.iter().filter(|s| seen.insert(s.0)).cloned().collect();
    if specs.is_empty() || specs.iter().all(|s| s.2 == 0) {
        rep.label("msd-discard:no-signer-with-stake");
        rep.discard("no signer with stake");
        return rep;
    }
    let signers: Vec<_> = specs.iter().map(|s| msd_signer(s.0, s.1, s.2)).collect();
    let params = ProtocolParameters { k: 5, m: 100, phi_f: 0.65 };
    // signed: the aggregate verification key of the next signers, encoded as the aggregator encodes it
    let builder = match SignerBuilder::new(&signers, &params) {
        Ok(b) => b,
        Err(e) => {
            let _ = e;
            rep.label("msd-honest-signers-refused");
            rep.label("msd-discard:honest-signers-refused");
        rep.discard("honest signers refused");
            return rep;
        }
    };
    let avk = builder.compute_aggregate_verification_key();
    let Ok(avk) = mithril_common::crypto_helper::ProtocolKey::new(avk.to_concatenation_aggregate_verification_key().to_owned()).to_json_hex() else {
        rep.label("msd-discard:avk-encoding");
        rep.discard("avk encoding");
        return rep;
    };
    let mut pm = ProtocolMessage::new();
    pm.set_message_part(ProtocolMessagePartKey::NextAggregateVerificationKey, avk);
    pm.set_message_part(ProtocolMessagePartKey::NextProtocolParameters, "protocol-parameters-hash".to_string());
    pm.set_message_part(ProtocolMessagePartKey::CurrentEpoch, c.epoch.to_string());
    let cert = certificate("cert-msd", &pm, c.epoch);
    let msg = MithrilStakeDistributionMessage {
        epoch: Epoch(c.epoch),
        signers_with_stake: SignerWithStakeMessagePart::from_signers(signers.clone()),
        hash: "msd-hash".to_string(),
        certificate_hash: cert.hash.clone(),
        protocol_parameters: params.clone(),
        ..MithrilStakeDistributionMessage::dummy()
    };
    let Ok(honest) = serde_json::to_value(&msg) else {
        rep.label("msd-discard:message-encoding");
        rep.discard("message encoding");
        return rep;
    };
    let Some((certified, n_certified)) = msd_map(&honest) else {
        rep.label("msd-discard:message-shape");
        rep.discard("message shape");
        return rep;
    };
    if msd_flow(&honest, &cert) != Ok(true) {
        rep.label("msd-honest-not-accepted");
        rep.label("msd-discard:honest-Mithril-stake-distribution-not-accepted");
        rep.discard("honest Mithril stake distribution not accepted");
        return rep;
    }
    rep.label("msd-honest-accepted");
    let mut m = honest.clone();
    let mut names = vec![];
    for t in &c.tampers {
        let Some(a) = m["signers"].as_array_mut() else { break };
        let n = a.len();
        let before = a.clone();
        let two = |x: u16, y: u16| {
            let x = pick_index(x, n);
            let mut y = pick_index(y, n);
            if x == y {
                y = (x + 1) % n;
            }
            (x, y)
        };
        match *t {
            MsdTamper::AddOutsider { stake } => {
                let s = SignerWithStakeMessagePart::from_signers(vec![msd_signer(c.outsider, 0, stake)]);
                a.push(serde_json::to_value(&s[0]).unwrap_or(Value::Null));
            }
            _ if n == 0 => continue,
            MsdTamper::EditStake { i, edit } => {
                let i = pick_index(i, n);
                let v = a[i]["stake"].as_u64().unwrap_or(0);
                a[i]["stake"] = Value::from(edit.apply(v));
            }
            MsdTamper::EditPartyId { i, pos } => {
                let i = pick_index(i, n);
                let mut b = a[i]["party_id"].as_str().unwrap_or("").as_bytes().to_vec();
                if b.is_empty() {
                    continue;
                }
                let p = pick_index(pos, b.len());
                b[p] = if b[p] == b'q' { b'p' } else { b'q' };
                a[i]["party_id"] = Value::from(String::from_utf8_lossy(&b).to_string());
            }
            MsdTamper::Remove { i } => {
                a.remove(pick_index(i, n));
            }
            MsdTamper::Duplicate { i } => {
                let x = a[pick_index(i, n)].clone();
                a.push(x);
            }
            MsdTamper::Reverse => a.reverse(),
            _ if n < 2 => continue,
            MsdTamper::SwapStakes { a: x, b: y } => {
                let (x, y) = two(x, y);
                let (sx, sy) = (a[x]["stake"].clone(), a[y]["stake"].clone());
                a[x]["stake"] = sy;
                a[y]["stake"] = sx;
            }
            MsdTamper::SwapPartyIds { a: x, b: y } => {
                let (x, y) = two(x, y);
                let (sx, sy) = (a[x]["party_id"].clone(), a[y]["party_id"].clone());
                a[x]["party_id"] = sy;
                a[y]["party_id"] = sx;
            }
            MsdTamper::SwapIdentity { a: x, b: y } => {
                let (x, y) = two(x, y);
                for k in ["party_id", "operational_certificate", "verification_key_signature", "kes_period"] {
                    let (sx, sy) = (a[x][k].clone(), a[y][k].clone());
                    a[x][k] = sy;
                    a[y][k] = sx;
                }
            }
        }
        if *a != before {
            names.push(format!("{t:?}").split([' ', '{', '(']).next().unwrap_or("").to_string());
        }
    }
    for nme in &names {
        rep.label(format!("msd-tamper:{nme}"));
    }
    if names.is_empty() {
        return rep;
    }
    let flow = msd_flow(&m, &cert);
    let verdict = match &flow {
        Ok(true) => "accepted",
        Ok(false) => "rejected",
        Err(e) if e == "undecodable" => "undecodable",
        Err(_) => "panicked",
    };
    rep.label(format!("msd-verdict:{verdict}"));
    rep.nontrivial(format!("msd {names:?} n:{n_certified} {verdict}"));
    if flow == Ok(true) {
        match msd_map(&m) {
            Some((map, n)) if map == certified && n == n_certified => {
                rep.label("msd-accepted-and-equal");
            }
            other => {
                rep.violation(
                    "mithril-stake-distribution-differs-from-certified",
                    format!("the client accepted a Mithril stake distribution whose pool→stake map differs from the certified one: reported {other:?}, certified {certified:?}; tamperings {names:?}"),
                );
            }
        }
    }
    rep
}

// ------------------------------------------------------------------------------------------- strategies

fn chain_strategy() -> impl Strategy<Value = ChainSpec> {
    (
        any::<u64>(),
        prop::sample::select(vec![0u64, 0, 1, 7, 14, 15, 29, 1000, 12_345]),
        prop_oneof![2 => 1usize..=12, 3 => 13usize..=40, 3 => 41usize..=80],
        prop_oneof![1 => Just(0u8), 3 => Just(1u8), 6 => Just(4u8)],
        prop_oneof![3 => Just(u16::MAX), 2 => any::<u16>()],
        prop_oneof![Just(0u64), 0u64..3000],
        1u64..500,
    )
        .prop_flat_map(|(seed, first, n, density, up_to_idx, offset, epoch)| {
            let max = density.max(1);
            (prop::collection::vec(if density == 0 { 0u8..=1 } else { 0u8..=max }, n), Just((seed, first, up_to_idx, offset, epoch)))
        })
        .prop_map(|(txs, (seed, first, up_to_idx, offset, epoch))| ChainSpec { seed, first, txs, up_to_idx, offset, epoch })
}

fn num_edit() -> impl Strategy<Value = NumEdit> {
    prop_oneof![3 => (0u8..20).prop_map(NumEdit::Plus), 3 => (0u8..20).prop_map(NumEdit::Minus), 1 => Just(NumEdit::Zero), 1 => Just(NumEdit::Max), 1 => any::<u64>().prop_map(NumEdit::Set)]
}

fn field() -> impl Strategy<Value = Field> {
    prop::sample::select(vec![Field::TxHash, Field::BlockHash, Field::BlockNumber, Field::Slot])
}

fn tamper_strategy() -> impl Strategy<Value = Tamper> {
    let r = any::<u16>();
    prop_oneof![
        3 => (r, any::<u64>()).prop_map(|(at, seed)| Tamper::AddAbsent { at, seed }),
        2 => (r, r).prop_map(|(at, pick)| Tamper::AddUnproven { at, pick }),
        2 => (r, r).prop_map(|(at, pick)| Tamper::AddTail { at, pick }),
        2 => (r, r).prop_map(|(at, pick)| Tamper::PromoteNonCertified { at, pick }),
        3 => (r, r, field(), r).prop_map(|(at, item, field, pos)| Tamper::EditHashChar { at, item, field, pos }),
        3 => (r, r, field(), num_edit()).prop_map(|(at, item, field, edit)| Tamper::EditNumber { at, item, field, edit }),
        4 => (r, r, r).prop_map(|(at, item, block)| Tamper::MoveToBlock { at, item, block }),
        2 => (r, r, r, field()).prop_map(|(at, a, b, field)| Tamper::SwapField { at, a, b, field }),
        1 => (r, r).prop_map(|(at, item)| Tamper::DropItem { at, item }),
        1 => (r, r).prop_map(|(at, item)| Tamper::DupItem { at, item }),
        5 => (r, r, any::<u8>(), any::<u8>(), r).prop_map(|(at, item, what, place, block)| Tamper::DupItemAltered { at, item, what, place, block }),
        5 => (any::<u8>(), any::<u8>()).prop_map(|(pattern, slots)| Tamper::InterleaveSetProofs { pattern, slots }),
        3 => Just(Tamper::SpliceSecond),
        4 => any::<bool>().prop_map(|front| Tamper::SpliceForeign { front }),
        2 => (r, r).prop_map(|(a, b)| Tamper::SwapProofs { a, b }),
        3 => r.prop_map(|at| Tamper::ReplaceProofForeign { at }),
        2 => r.prop_map(|at| Tamper::ReplaceItemsForeign { at }),
        2 => prop::sample::select(vec![EmptyKind::EmptyList, EmptyKind::Null, EmptyKind::NoItemsKeepProof]).prop_map(Tamper::Empty),
        3 => (r, r).prop_map(|(at, which)| Tamper::DetachSubProof { at, which }),
        1 => r.prop_map(|at| Tamper::DetachAllSubProofs { at }),
        2 => (r, r).prop_map(|(at, which)| Tamper::PromoteSubProof { at, which }),
        4 => (r, r, any::<bool>()).prop_map(|(at, which, replace)| Tamper::GraftForeignSubProof { at, which, replace }),
        4 => (r, r, any::<u64>(), any::<bool>()).prop_map(|(at, leaf, seed, fake_first)| Tamper::LeafDupPosition { at, leaf, seed, fake_first }),
        2 => (r, any::<u64>()).prop_map(|(at, seed)| Tamper::LeafAdd { at, seed }),
        4 => (r, r, any::<u64>(), any::<bool>()).prop_map(|(at, leaf, seed, replace)| Tamper::LeafDupIdenticalAddItem { at, leaf, seed, replace }),
        4 => (r, r, field(), any::<bool>()).prop_map(|(at, item, field, upper_all)| Tamper::HashCase { at, item, field, upper_all }),
        2 => (r, r, any::<u64>()).prop_map(|(at, leaf, seed)| Tamper::LeafReplace { at, leaf, seed }),
        4 => (r, r, prop_oneof![-6i8..=-1, 1i8..=6]).prop_map(|(at, pair, k)| Tamper::SiblingBoundaryMove { at, pair, k }),
        1 => (r, any::<bool>(), num_edit()).prop_map(|(at, sub, edit)| Tamper::ProofSize { at, sub, edit }),
        1 => (r, any::<bool>(), r).prop_map(|(at, sub, i)| Tamper::DropProofItem { at, sub, i }),
        1 => (r, any::<u8>()).prop_map(|(at, byte)| Tamper::FlipRoot { at, byte }),
        3 => num_edit().prop_map(Tamper::LatestBlock),
        3 => num_edit().prop_map(Tamper::Offset),
        1 => Just(Tamper::CertificateHash),
        2 => Just(Tamper::AsLegacy),
        1 => Just(Tamper::AsV2),
    ]
}

fn proof_case_strategy(pool: Vec<ChainSpec>) -> impl Strategy<Value = ProofCase> {
    (
        prop::sample::select(pool.clone()),
        prop::sample::select(pool),
        prop_oneof![3 => Just(Fmt::Legacy), 3 => Just(Fmt::V2Tx), 2 => Just(Fmt::V2Blk)],
        any::<u16>(),
        any::<u16>(),
        any::<u16>(),
        prop_oneof![1 => Just(vec![]), 14 => prop::collection::vec(tamper_strategy(), 1..=1), 5 => prop::collection::vec(tamper_strategy(), 2..=2)],
        prop_oneof![16 => Just(CertSel::Matching), 2 => Just(CertSel::OtherFormat), 2 => Just(CertSel::Foreign)],
    )
        .prop_map(|(chain, foreign, fmt, query, second, foreign_query, tampers, cert)| ProofCase { chain, foreign, fmt, query, second, foreign_query, tampers, cert })
}

fn stake_value() -> impl Strategy<Value = u64> {
    prop_oneof![1 => Just(0u64), 2 => 1u64..100, 3 => 100u64..1_000_000_000, 1 => any::<u64>()]
}

/// ids are bech32-shaped; many end in digits and many stakes start with the digits that follow
fn pools_strategy() -> impl Strategy<Value = Vec<(String, u64)>> {
    prop::collection::vec((any::<u64>(), 6usize..40, prop_oneof![2 => Just(None), 3 => (0u64..1000).prop_map(Some)], stake_value()), 1..=30).prop_map(|v| {
        v.into_iter()
            .map(|(seed, len, tail_digits, stake)| {
                let mut id = bech32ish(seed, len);
                if let Some(d) = tail_digits {
                    // digit tail taken from the bech32 alphabet (no '1')
                    id.push_str(&d.to_string().replace('1', "7"));
                }
                (id, stake)
            })
            .collect()
    })
}

fn stake_tamper_strategy() -> impl Strategy<Value = StakeTamper> {
    let r = any::<u16>();
    prop_oneof![
        2 => (r, r).prop_map(|(pool, pos)| StakeTamper::EditIdChar { pool, pos }),
        3 => (r, num_edit()).prop_map(|(pool, edit)| StakeTamper::EditStake { pool, edit }),
        6 => (r, prop_oneof![-4i8..=-1, 1i8..=4]).prop_map(|(pool, k)| StakeTamper::BoundaryMove { pool, k }),
        3 => (r, -5i8..=5, 0u8..6, 0u8..6).prop_map(|(pool, cut, dl, dr)| StakeTamper::Resplit { pool, cut, dl, dr }),
        2 => (any::<u64>(), stake_value()).prop_map(|(seed, stake)| StakeTamper::AddPool { seed, stake }),
        2 => r.prop_map(|pool| StakeTamper::RemovePool { pool }),
        2 => (r, r).prop_map(|(a, b)| StakeTamper::SwapStakes { a, b }),
        1 => num_edit().prop_map(StakeTamper::Epoch),
    ]
}

fn stake_case_strategy() -> impl Strategy<Value = StakeCase> {
    (pools_strategy(), 1u64..1000, prop_oneof![1 => Just(vec![]), 12 => prop::collection::vec(stake_tamper_strategy(), 1..=1), 4 => prop::collection::vec(stake_tamper_strategy(), 2..=2)])
        .prop_map(|(pools, epoch, tampers)| StakeCase { pools, epoch, tampers })
}

fn msd_tamper_strategy() -> impl Strategy<Value = MsdTamper> {
    let r = any::<u16>();
    prop_oneof![
        3 => (r, num_edit()).prop_map(|(i, edit)| MsdTamper::EditStake { i, edit }),
        2 => (r, r).prop_map(|(a, b)| MsdTamper::SwapStakes { a, b }),
        3 => (r, r).prop_map(|(a, b)| MsdTamper::SwapPartyIds { a, b }),
        2 => (r, r).prop_map(|(i, pos)| MsdTamper::EditPartyId { i, pos }),
        2 => (r, r).prop_map(|(a, b)| MsdTamper::SwapIdentity { a, b }),
        1 => r.prop_map(|i| MsdTamper::Remove { i }),
        1 => r.prop_map(|i| MsdTamper::Duplicate { i }),
        1 => Just(MsdTamper::Reverse),
        1 => stake_value().prop_map(|stake| MsdTamper::AddOutsider { stake }),
    ]
}

fn msd_case_strategy(seeds: Vec<u64>) -> impl Strategy<Value = MsdCase> {
    (
        prop::collection::vec((prop::sample::select(seeds.clone()), prop::sample::select(vec![0u8, 1, 30, 63]), prop_oneof![1 => Just(0u64), 5 => 1u64..1_000_000]), 1..=5),
        prop::sample::select(seeds),
        1u64..500,
        prop::collection::vec(msd_tamper_strategy(), 1..=2),
    )
        .prop_map(|(signers, outsider, epoch, tampers)| MsdCase { signers, outsider, epoch, tampers })
}

/// the per-run pool of chains: a pure function of the run seed; built (and cached) in parallel
fn build_pool(seed: u64, size: usize, threads: usize) -> Vec<ChainSpec> {
    let specs: Vec<ChainSpec> = (0..size).map(|i| vcore::sample_one(&chain_strategy(), mix(seed, 0xC11 + i as u64))).collect();
    let next = std::sync::atomic::AtomicUsize::new(0);
    std::thread::scope(|sc| {
        for _ in 0..threads.max(1) {
            sc.spawn(|| loop {
                let i = next.fetch_add(1, std::sync::atomic::Ordering::Relaxed);
                if i >= specs.len() {
                    break;
                }
                let _ = honest_cached(&specs[i]);
            });
        }
    });
    specs.into_iter().filter(|s| honest_cached(s).is_some()).collect()
}

fn witness_stake_boundary() -> bool {
    let certified: BTreeMap<String, u64> = [("pool1abc".to_string(), 123u64)].into_iter().collect();
    let Some((cert, _, mut m)) = honest_stake(&certified, 7) else { return false };
    m["stake_distribution"] = json!({"pool1abc1": 23});
    matches!(stake_flow(&m, &cert), Ok(Some((map, _))) if map != certified)
}

fn witness_stake_sibling() -> bool {
    // leaves "pool1qmjmkc0" ‖ "pool1vxm06u3910000" re-cut as "pool1qmjmkc0pool1" ‖ "vxm06u3910000" (same order, same root)
    let certified: BTreeMap<String, u64> = [("pool1qmjmkc".to_string(), 0u64), ("pool1vxm06u".to_string(), 3_910_000)].into_iter().collect();
    let Some((cert, _, mut m)) = honest_stake(&certified, 7) else { return false };
    m["stake_distribution"] = json!({"pool1qmjmkc0pool": 1, "vxm06u39": 10000});
    matches!(stake_flow(&m, &cert), Ok(Some((map, _))) if map != certified)
}

fn witness_sibling() -> bool {
    // 15 blocks with one transaction each = one complete block range; neighbours 0 and 1 are sibling leaves
    let spec = ChainSpec { seed: 0x51b, first: 0, txs: vec![1; 15], up_to_idx: u16::MAX, offset: 0, epoch: 3 };
    let Some(h) = honest_cached(&spec) else { return false };
    let (a, b) = (h.chain[0].txs[0].clone(), h.chain[1].txs[0].clone());
    let Some(resp) = h.legacy.iter().find(|r| r.query.contains(&a) && r.query.contains(&b)) else { return false };
    let mut m = resp.json.clone();
    let mut fmt = Fmt::Legacy;
    let cx = TamperCtx { h: &h, foreign: &h, second: None, foreign_resp: None };
    for pair in [0u16, 20000, 40000, 60000] {
        let mut mm = m.clone();
        if apply(&mut mm, &mut fmt, &Tamper::SiblingBoundaryMove { at: 0, pair, k: 3 }, &cx) {
            if let Flow::Accepted { reported, .. } = client_flow(Fmt::Legacy, &mm, &h.cert_legacy) {
                if reported.iter().any(|x| !is_certified(Fmt::Legacy, x, &h)) {
                    return true;
                }
            }
        }
    }
    m = Value::Null;
    let _ = m;
    false
}

pub fn run(args: &Args) -> i32 {
    let mut check = Check::new("C11", "exploration", args);
    check
        .rule("chains of 1..80 blocks (first block 0..12345, 0..4 transactions per block, 1..7 block ranges of 15) imported by the real importer into the real sqlite repository; signed messages from the real signable builders (legacy beacon = end of the last complete range, v2 beacon anywhere, offset 0..3000); 6 queries per chain and format (single, multi-range, whole range, present+absent, everything, two neighbours) answered by the real provers; the response (JSON view incl. the decoded Merkle map proof) rewritten by 1..2 of 32 tamperings (items added / renamed / moved to another block / swapped; set proofs spliced from a second response or from another chain, proofs and item lists exchanged; sub-proofs detached / promoted / grafted from another chain; leaves added / replaced / at a duplicated position / characters moved between sibling leaves; proof size / items / root edited; latest block number, offset, certificate hash; v2 proof presented as legacy and back) and verified against the matching certificate, the certificate of the other format or of another chain. Stake distributions: 1..30 bech32-shaped pools with digit tails and stakes incl. 0, edited ids / stakes, characters moved across the id|stake boundary and across neighbouring entries, pools added / removed / swapped; Mithril stake distributions of 1..5 certified signers with stakes / party ids / identities edited. Non-trivial = at least one tampering applied and the response still decodes; distinct by (format, applied tamperings, certificate choice, verdict)")
        .assume("the certificate itself is genuine (its chain validation is C03); collision resistance of Blake2s/SHA-256; ground truth = the generated chain / stake map")
        .assume("legacy certificates exist only for beacons at the end of a complete block range (CardanoTransactionsSigningConfig), v2 certificates for any beacon")
        .require_label("honest-accepted:Legacy")
        .require_label("honest-accepted:V2Tx")
        .require_label("honest-accepted:V2Blk")
        .require_label("verdict:accepted")
        .require_label("verdict:verify-rejected")
        .require_label("verdict:message-mismatch")
        .require_label("accepted-and-rule-holds")
        .require_label("several-set-proofs")
        .require_label("class:cross-root-mix")
        .require_label("class:moved-to-other-block")
        .require_label("class:sibling-boundary-move")
        .require_label("class:duplicated-leaf-position")
        .require_label("class:detached-sub-proof")
        .require_label("class:foreign-sub-proof-grafted")
        .require_label("class:format-confusion")
        .require_label("cert:OtherFormat")
        .require_label("cert:Foreign")
        .require_label("csd-honest-accepted")
        .require_label("class:stake-boundary-move-same-leaves")
        .require_label("csd-tamper:Resplit")
        .require_label("csd-verdict:rejected")
        .require_label("msd-honest-accepted")
        .require_label("msd-verdict:rejected");
    let t = check.tier;
    check.shrink_iters(300);
    let known = Known {
        sibling: check.has_open_known(KEY_SIBLING),
        stake_boundary: check.has_open_known(KEY_STAKE_BOUNDARY),
        stake_sibling: check.has_open_known(KEY_STAKE_SIBLING),
    };
    let scale = if check.is_replay() { 0 } else { 1 };
    let pool = build_pool(check.seed, scale * t.pick(200, 6000) as usize, check.threads);
    check.note_section("pool", json!({"chains": pool.len()}));
    if !check.is_replay() && pool.len() < 20 {
        check.inconclusive("chain pool too small".into());
        return check.finish();
    }
    let pool = if pool.is_empty() { vec![ChainSpec { seed: 1, first: 0, txs: vec![1; 15], up_to_idx: u16::MAX, offset: 0, epoch: 1 }] } else { pool };
    check.section("proofs", || proof_case_strategy(pool.clone()), t.pick(40_000, 600_000), |c| proof_case(c, &known));
    check.section("cardano-stake-distribution", stake_case_strategy, t.pick(15_000, 300_000), |c| stake_case(c, &known));
    let seeds: Vec<u64> = (0..12).map(|i| mix(check.seed, 0x5d + i) >> 1).collect();
    check.section("mithril-stake-distribution", || msd_case_strategy(seeds.clone()), t.pick(400, 10_000), msd_case);
    check.witness(KEY_STAKE_BOUNDARY, "the client accepts {pool1abc1: 23} against the certificate of {pool1abc: 123}", witness_stake_boundary);
    check.witness(KEY_STAKE_SIBLING, "the client accepts {pool1qmjmkc0pool: 1, vxm06u39: 10000} against the certificate of {pool1qmjmkc: 0, pool1vxm06u: 3910000}", witness_stake_sibling);
    check.witness(KEY_SIBLING, "legacy proof: characters moved between two sibling transaction-hash leaves are accepted and reported as certified transactions", witness_sibling);
    check.finish()
}
