//! C04 — certificates are tamper-evident and survive the wire unchanged.
//!
//! (i)   `single-field`: a certificate generated field by field and exactly one field changed to a different value
//!       (compared on a canonical form computed by the harness) must get a different `try_compute_hash()`.
//! (ii)  `protocol-message-pairs`: two protocol messages over the honest value grammar related by a boundary move /
//!       drop / add / swap / re-key: different part maps ⇒ different digests.
//! (iii) `wire-roundtrip`: Certificate → CertificateMessage → JSON text → re-serialised text (field order, whitespace,
//!       number formatting, string escapes, optional fields absent / null / explicit default) → CertificateMessage →
//!       Certificate keeps the hash (stored and recomputed), the signed message and the verdicts of the real
//!       verifier's checks (`verify_genesis_certificate` / `verify_standard_certificate`) and of harness-side
//!       integrity bits.

#[path = "certs.rs"]
mod certs;

use std::collections::BTreeMap;
use std::sync::Arc;

use async_trait::async_trait;
use certs::*;
use mithril_common::certificate_chain::{CertificateRetriever, CertificateRetrieverError, CertificateVerifier, MithrilCertificateVerifier};
use mithril_common::crypto_helper::GenesisVerifier;
use mithril_common::entities::{Certificate, CertificateSignature, ProtocolMessage, ProtocolMessagePartKey};
use mithril_common::messages::CertificateMessage;
use proptest::prelude::*;
use serde::{Deserialize, Serialize};
use serde_json::Value;
use vcore::{Args, Check, Report, catch, mix, pick_index};

pub const KEY_MSD_CSD: &str = "hash-collision:signed-entity-discriminant:MSD/CSD";
pub const KEY_CTX_CDB: &str = "hash-collision:signed-entity-discriminant:CTx/CDb";
pub const KEY_PHI: &str = "roundtrip:phi_f-not-preserved";

// ------------------------------------------------------------------------------------------------------------------
// value generators
// ------------------------------------------------------------------------------------------------------------------

#[derive(Clone, Debug, Default)]
struct Strings {
    avks: Vec<String>,
    msigs: Vec<String>,
    gsigs: Vec<String>,
}

fn small_string() -> impl Strategy<Value = String> {
    prop_oneof![
        3 => prop::sample::select(vec!["", "a", "ab", "abc", "b", "mainnet", "preprod", "testnet", "testnet2", "0.1.0", "0.1.10", "0.1", "1", "é", "\"\\\n\u{0}", "\u{1F600}x", "/"]).prop_map(String::from),
        2 => "[ -~]{0,12}",
        1 => "\\PC{0,6}",
    ]
}

fn hashlike() -> impl Strategy<Value = String> {
    prop_oneof![
        3 => any::<u64>().prop_map(hex_digest),
        1 => Just(String::new()),
        1 => small_string(),
    ]
}

fn ts_strategy() -> impl Strategy<Value = i64> {
    prop_oneof![
        3 => (0i64..4_000_000_000, 0i64..1_000_000_000).prop_map(|(s, n)| s * 1_000_000_000 + n),
        2 => any::<i64>(),
        1 => prop::sample::select(vec![i64::MIN, i64::MIN + 1, i64::MAX, i64::MAX - 1, 0, 1, -1, 999_999_999, 1_000_000_000, -999_999_999, -1_000_000_000, -1_000_000_001, 1_707_743_507_012_304_300]),
    ]
}

/// phi in (0, 1] as IEEE bits: short decimals, uniform, exact fixed-point ties and their neighbours, tiny values, 1
fn phi_strategy() -> impl Strategy<Value = u64> {
    prop_oneof![
        3 => (1u32..=10_000).prop_map(|n| n as f64 / 10_000.0),
        2 => any::<u64>().prop_map(|x| (((x >> 11) as f64) / 9_007_199_254_740_992.0).max(f64::MIN_POSITIVE)),
        2 => (0u32..(1 << 24), -1i8..=1).prop_map(|(j, d)| {
            let tie = (2.0 * j as f64 + 1.0) / 33_554_432.0;
            match d { -1 => tie.next_down(), 1 => tie.next_up(), _ => tie }
        }),
        1 => (1u32..=(1 << 24)).prop_map(|j| j as f64 / 16_777_216.0),
        1 => prop::sample::select(vec![1.0f64, f64::MIN_POSITIVE, 1e-9, 2.9e-8, 0.2, 0.65, 0.999_999_999_999_999_9]),
    ]
    .prop_map(|p: f64| if p > 0.0 && p <= 1.0 { p.to_bits() } else { 1.0f64.to_bits() })
}

fn party_strategy() -> impl Strategy<Value = (String, u64)> {
    (
        prop_oneof![
            2 => prop::sample::select(vec!["pool1abc", "pool1abc1", "pool1", "pool", "1", "12", "", "é"]).prop_map(String::from),
            1 => "[a-z0-9]{0,10}",
        ],
        u64_interesting(),
    )
}

#[derive(Clone, Copy, PartialEq, Eq, Debug)]
enum Grammar {
    Digest,
    Decimal,
    HexKey,
}

fn grammar_of(key: u8) -> Grammar {
    match ALL_KEYS[key as usize % ALL_KEYS.len()] {
        ProtocolMessagePartKey::CurrentEpoch
        | ProtocolMessagePartKey::LatestBlockNumber
        | ProtocolMessagePartKey::CardanoBlocksTransactionsBlockNumberOffset
        | ProtocolMessagePartKey::CardanoStakeDistributionEpoch => Grammar::Decimal,
        ProtocolMessagePartKey::NextAggregateVerificationKey | ProtocolMessagePartKey::NextSnarkAggregateVerificationKey => Grammar::HexKey,
        _ => Grammar::Digest,
    }
}

fn is_hex(s: &str) -> bool {
    !s.is_empty() && s.len() % 2 == 0 && s.bytes().all(|b| b.is_ascii_digit() || (b'a'..=b'f').contains(&b))
}

/// the honest value grammar: lower-case hex of a non-empty byte string, or a canonical decimal u64
fn well_formed(key: u8, v: &str) -> bool {
    match grammar_of(key) {
        Grammar::Digest | Grammar::HexKey => is_hex(v),
        Grammar::Decimal => v.parse::<u64>().map(|n| n.to_string() == v).unwrap_or(false),
    }
}

fn hex_bytes(len: impl Strategy<Value = usize>) -> impl Strategy<Value = String> {
    (len, any::<u64>()).prop_map(|(n, seed)| {
        let mut out = String::new();
        let mut i = 0u64;
        while out.len() < 2 * n {
            out.push_str(&hex_digest(mix(seed, i)));
            i += 1;
        }
        out.truncate(2 * n);
        out
    })
}

fn part_value(key: u8, pool: Arc<Strings>) -> BoxedStrategy<String> {
    match grammar_of(key) {
        Grammar::Decimal => u64_interesting().prop_map(|n| n.to_string()).boxed(),
        Grammar::Digest => prop_oneof![4 => hex_bytes(Just(32usize)), 1 => hex_bytes(1usize..40)].boxed(),
        Grammar::HexKey => {
            if ALL_KEYS[key as usize] == ProtocolMessagePartKey::NextAggregateVerificationKey && !pool.avks.is_empty() {
                prop_oneof![
                    2 => prop::sample::select(pool.avks.clone()),
                    1 => (any::<u64>(), 1u64..50, u64_interesting()).prop_map(|(r, n, t)| synthetic_avk(r, n, t)),
                ]
                .boxed()
            } else {
                hex_bytes(40usize..100).boxed()
            }
        }
    }
}

fn parts_strategy(pool: Arc<Strings>) -> impl Strategy<Value = Vec<(u8, String)>> {
    let per_key: Vec<BoxedStrategy<Option<(u8, String)>>> = (0..ALL_KEYS.len() as u8)
        .map(|k| {
            let pool = pool.clone();
            prop::option::weighted(0.4, part_value(k, pool)).prop_map(move |v| v.map(|v| (k, v))).boxed()
        })
        .collect();
    per_key.prop_map(|v| v.into_iter().flatten().collect())
}

/// `verifiable`: the key may reach the STM verification, whose cost explodes (and which divides by zero) when the
/// total stake is below the stake of a registered party: keep the synthetic total stake above every pool stake
fn avk_strategy(pool: Arc<Strings>, verifiable: bool) -> impl Strategy<Value = String> {
    prop_oneof![
        2 => prop::sample::select(pool.avks.clone()),
        1 => (any::<u64>(), u64_interesting(), u64_interesting()).prop_map(move |(r, n, t)| synthetic_avk(r, n, if verifiable { t.max(1_000_000) } else { t })),
    ]
}

fn gsig_strategy(pool: Arc<Strings>) -> impl Strategy<Value = String> {
    prop_oneof![1 => prop::sample::select(pool.gsigs.clone()), 1 => hex_bytes(Just(64usize))]
}

fn sig_strategy(pool: Arc<Strings>) -> impl Strategy<Value = SigSpec> {
    prop_oneof![
        1 => gsig_strategy(pool.clone()).prop_map(SigSpec::Genesis),
        3 => (entity_strategy(), prop::sample::select(pool.msigs.clone())).prop_map(|(e, s)| SigSpec::Multi(e, s)),
    ]
}

fn cert_spec_strategy(pool: Arc<Strings>, verifiable: bool) -> impl Strategy<Value = CertSpec> {
    (
        (hashlike(), hashlike(), u64_interesting(), small_string(), small_string()),
        (u64_interesting(), u64_interesting(), phi_strategy(), ts_strategy(), ts_strategy()),
        prop::collection::vec(party_strategy(), 0..=6),
        parts_strategy(pool.clone()),
        prop_oneof![3 => Just(None), 1 => any::<u64>().prop_map(|s| Some(hex_digest(s))), 1 => small_string().prop_map(Some)],
        avk_strategy(pool.clone(), verifiable),
        sig_strategy(pool),
    )
        .prop_map(|((hash, previous_hash, epoch, network, version), (k, m, phi_bits, initiated_ns, sealed_ns), signers, parts, signed_message, avk, sig)| CertSpec {
            hash,
            previous_hash,
            epoch,
            network,
            version,
            params: PSpec { k, m, phi_bits },
            initiated_ns,
            sealed_ns,
            signers,
            parts,
            signed_message,
            avk,
            sig,
        })
}

// ------------------------------------------------------------------------------------------------------------------
// single-field changes
// ------------------------------------------------------------------------------------------------------------------

#[derive(Clone, Debug, Serialize, Deserialize)]
pub enum StrEdit {
    Set(String),
    Append(String),
    Prepend(String),
    DropLast,
    /// change the letter case of the `n`-th ASCII letter (scaled into the string): a value that differs from the
    /// original only by case is still another value
    FlipCase(u16),
}

#[derive(Clone, Debug, Serialize, Deserialize)]
pub enum NumEdit {
    Set(u64),
    Add(u64),
    FlipBit(u8),
}

#[derive(Clone, Debug, Serialize, Deserialize)]
pub enum TsEdit {
    Set(i64),
    Add(i64),
}

#[derive(Clone, Debug, Serialize, Deserialize)]
pub enum PhiEdit {
    SetBits(u64),
    /// ± n steps at the fixed-point precision
    FixedStep(i32),
    /// the neighbouring f64 (up / down), normally equal at the fixed-point precision
    Nudge(bool),
}

#[derive(Clone, Debug, Serialize, Deserialize)]
pub enum EntityEdit {
    /// same numbers, another variant (padding with `pad`)
    Variant { v: u8, pad: u64 },
    Number { idx: u8, e: NumEdit },
    Set(EntitySpec),
}

#[derive(Clone, Debug, Serialize, Deserialize)]
pub enum Change {
    PreviousHash(StrEdit),
    Epoch(NumEdit),
    Network(StrEdit),
    Version(StrEdit),
    K(NumEdit),
    M(NumEdit),
    Phi(PhiEdit),
    InitiatedAt(TsEdit),
    SealedAt(TsEdit),
    SignerAdd { at: u16, id: String, stake: u64 },
    SignerRemove { at: u16 },
    SignerId { at: u16, e: StrEdit },
    SignerStake { at: u16, e: NumEdit },
    SignerSwap { a: u16, b: u16 },
    PartSet { key: u8, value: String },
    PartEdit { at: u16, e: StrEdit },
    PartRemove { at: u16 },
    PartRekey { at: u16, key: u8 },
    SignedMessage(StrEdit),
    Avk(String),
    Entity(EntityEdit),
    MultiSig(String),
    GenesisSig(String),
    ToGenesis(String),
    ToMulti(EntitySpec, String),
}

fn str_edit() -> impl Strategy<Value = StrEdit> {
    prop_oneof![
        2 => small_string().prop_map(StrEdit::Set),
        1 => any::<u64>().prop_map(|s| StrEdit::Set(hex_digest(s))),
        2 => "[ -~]{1,3}".prop_map(StrEdit::Append),
        1 => "[ -~]{1,3}".prop_map(StrEdit::Prepend),
        1 => Just(StrEdit::DropLast),
        1 => any::<u16>().prop_map(StrEdit::FlipCase),
    ]
}

fn num_edit() -> impl Strategy<Value = NumEdit> {
    prop_oneof![2 => u64_interesting().prop_map(NumEdit::Set), 2 => prop_oneof![Just(1u64), Just(u64::MAX), 1u64..300, any::<u64>()].prop_map(NumEdit::Add), 1 => (0u8..64).prop_map(NumEdit::FlipBit)]
}

fn ts_edit() -> impl Strategy<Value = TsEdit> {
    prop_oneof![
        2 => ts_strategy().prop_map(TsEdit::Set),
        // sub-second moves (the second stays the same most of the time), whole seconds, anything
        3 => prop_oneof![Just(1i64), Just(-1i64), -999_999_999i64..=999_999_999, Just(1_000_000_000i64), any::<i64>()].prop_map(TsEdit::Add),
    ]
}

fn change_strategy(pool: Arc<Strings>, verifiable: bool) -> impl Strategy<Value = Change> {
    let p = pool.clone();
    let arms: Vec<(u32, BoxedStrategy<Change>)> = vec![
        (1, str_edit().prop_map(Change::PreviousHash).boxed()),
        (1, num_edit().prop_map(Change::Epoch).boxed()),
        (1, str_edit().prop_map(Change::Network).boxed()),
        (1, str_edit().prop_map(Change::Version).boxed()),
        (1, num_edit().prop_map(Change::K).boxed()),
        (1, num_edit().prop_map(Change::M).boxed()),
        (
            1,
            prop_oneof![
                2 => phi_strategy().prop_map(PhiEdit::SetBits),
                2 => prop_oneof![Just(1i32), Just(-1i32), -1000i32..1000].prop_map(PhiEdit::FixedStep),
                1 => any::<bool>().prop_map(PhiEdit::Nudge),
            ]
            .prop_map(Change::Phi)
            .boxed(),
        ),
        (1, ts_edit().prop_map(Change::InitiatedAt).boxed()),
        (1, ts_edit().prop_map(Change::SealedAt).boxed()),
        (1, (any::<u16>(), party_strategy()).prop_map(|(at, (id, stake))| Change::SignerAdd { at, id, stake }).boxed()),
        (1, any::<u16>().prop_map(|at| Change::SignerRemove { at }).boxed()),
        (1, (any::<u16>(), str_edit()).prop_map(|(at, e)| Change::SignerId { at, e }).boxed()),
        (1, (any::<u16>(), num_edit()).prop_map(|(at, e)| Change::SignerStake { at, e }).boxed()),
        (1, (any::<u16>(), any::<u16>()).prop_map(|(a, b)| Change::SignerSwap { a, b }).boxed()),
        (1, (0u8..ALL_KEYS.len() as u8).prop_flat_map(move |key| part_value(key, p.clone()).prop_map(move |value| Change::PartSet { key, value })).boxed()),
        (1, (any::<u16>(), str_edit()).prop_map(|(at, e)| Change::PartEdit { at, e }).boxed()),
        (1, any::<u16>().prop_map(|at| Change::PartRemove { at }).boxed()),
        (1, (any::<u16>(), 0u8..ALL_KEYS.len() as u8).prop_map(|(at, key)| Change::PartRekey { at, key }).boxed()),
        (1, str_edit().prop_map(Change::SignedMessage).boxed()),
        (1, avk_strategy(pool.clone(), verifiable).prop_map(Change::Avk).boxed()),
        (
            3,
            prop_oneof![
                3 => (0u8..5, u64_interesting()).prop_map(|(v, pad)| EntityEdit::Variant { v, pad }),
                1 => (0u8..3, num_edit()).prop_map(|(idx, e)| EntityEdit::Number { idx, e }),
                1 => entity_strategy().prop_map(EntityEdit::Set),
            ]
            .prop_map(Change::Entity)
            .boxed(),
        ),
        (1, prop::sample::select(pool.msigs.clone()).prop_map(Change::MultiSig).boxed()),
        (1, gsig_strategy(pool.clone()).prop_map(Change::GenesisSig).boxed()),
        (1, gsig_strategy(pool.clone()).prop_map(Change::ToGenesis).boxed()),
        (1, (entity_strategy(), prop::sample::select(pool.msigs.clone())).prop_map(|(e, s)| Change::ToMulti(e, s)).boxed()),
    ];
    prop::strategy::Union::new_weighted(arms)
}

fn edit_str(s: &str, e: &StrEdit) -> String {
    match e {
        StrEdit::Set(v) => v.clone(),
        StrEdit::Append(v) => format!("{s}{v}"),
        StrEdit::Prepend(v) => format!("{v}{s}"),
        StrEdit::DropLast => {
            let mut t = s.to_string();
            if t.pop().is_none() {
                t.push('x');
            }
            t
        }
        StrEdit::FlipCase(n) => {
            let letters: Vec<usize> = s.char_indices().filter(|(_, c)| c.is_ascii_alphabetic()).map(|(i, _)| i).collect();
            if letters.is_empty() {
                return s.to_string();
            }
            let at = letters[pick_index(*n, letters.len())];
            let mut b = s.as_bytes().to_vec();
            b[at] ^= 0x20;
            String::from_utf8(b).expect("ASCII letter flipped in place")
        }
    }
}

fn edit_num(n: u64, e: &NumEdit) -> u64 {
    match e {
        NumEdit::Set(v) => *v,
        NumEdit::Add(v) => n.wrapping_add(*v),
        NumEdit::FlipBit(b) => n ^ (1u64 << (b % 64)),
    }
}

fn edit_ts(n: i64, e: &TsEdit) -> i64 {
    match e {
        TsEdit::Set(v) => *v,
        TsEdit::Add(v) => n.wrapping_add(*v),
    }
}

fn change_name(c: &Change) -> String {
    let s = format!("{c:?}");
    s.split([' ', '{', '(']).next().unwrap_or("").to_string()
}

/// apply the change (total: a change that does not fit the base falls back to a neighbouring one)
fn apply(base: &CertSpec, c: &Change) -> CertSpec {
    let mut s = base.clone();
    // a part change must not drag the derived signed message along: exactly ONE field changes
    let freeze_signed_message = |s: &mut CertSpec| {
        if s.signed_message.is_none() {
            s.signed_message = Some(base.effective_signed_message());
        }
    };
    match c {
        Change::PreviousHash(e) => s.previous_hash = edit_str(&s.previous_hash, e),
        Change::Epoch(e) => s.epoch = edit_num(s.epoch, e),
        Change::Network(e) => s.network = edit_str(&s.network, e),
        Change::Version(e) => s.version = edit_str(&s.version, e),
        Change::K(e) => s.params.k = edit_num(s.params.k, e),
        Change::M(e) => s.params.m = edit_num(s.params.m, e),
        Change::Phi(e) => {
            let phi = s.params.phi();
            let new = match e {
                PhiEdit::SetBits(b) => f64::from_bits(*b),
                PhiEdit::FixedStep(d) => {
                    let f = phi_fixed(phi).unwrap_or(0) as i64;
                    let mut g = (f + *d as i64).clamp(0, 1 << 24);
                    if g == f {
                        g = if f > 0 { f - 1 } else { f + 1 };
                    }
                    g as f64 / 16_777_216.0
                }
                PhiEdit::Nudge(up) => {
                    let n = if *up { phi.next_up() } else { phi.next_down() };
                    if n > 0.0 && n <= 1.0 { n } else { phi.next_down() }
                }
            };
            s.params.phi_bits = new.to_bits();
        }
        Change::InitiatedAt(e) => s.initiated_ns = edit_ts(s.initiated_ns, e),
        Change::SealedAt(e) => s.sealed_ns = edit_ts(s.sealed_ns, e),
        Change::SignerAdd { at, id, stake } => {
            let i = pick_index(*at, s.signers.len() + 1);
            s.signers.insert(i, (id.clone(), *stake));
        }
        Change::SignerRemove { at } => {
            if s.signers.is_empty() {
                s.signers.push(("pool1".into(), 1));
            } else {
                let i = pick_index(*at, s.signers.len());
                s.signers.remove(i);
            }
        }
        Change::SignerId { at, e } => {
            if s.signers.is_empty() {
                s.signers.push(("pool1".into(), 1));
            } else {
                let i = pick_index(*at, s.signers.len());
                s.signers[i].0 = edit_str(&s.signers[i].0, e);
            }
        }
        Change::SignerStake { at, e } => {
            if s.signers.is_empty() {
                s.signers.push(("pool1".into(), 1));
            } else {
                let i = pick_index(*at, s.signers.len());
                s.signers[i].1 = edit_num(s.signers[i].1, e);
            }
        }
        Change::SignerSwap { a, b } => {
            if s.signers.len() < 2 {
                s.signers.push(("pool2".into(), 2));
            } else {
                let i = pick_index(*a, s.signers.len());
                let j = pick_index(*b, s.signers.len());
                s.signers.swap(i, j);
            }
        }
        Change::PartSet { key, value } => {
            freeze_signed_message(&mut s);
            s.parts.retain(|(k, _)| k != key);
            s.parts.push((*key, value.clone()));
        }
        Change::PartEdit { at, e } => {
            freeze_signed_message(&mut s);
            if s.parts.is_empty() {
                s.parts.push((0, "00".into()));
            } else {
                let i = pick_index(*at, s.parts.len());
                s.parts[i].1 = edit_str(&s.parts[i].1, e);
            }
        }
        Change::PartRemove { at } => {
            freeze_signed_message(&mut s);
            if s.parts.is_empty() {
                s.parts.push((0, "00".into()));
            } else {
                let i = pick_index(*at, s.parts.len());
                s.parts.remove(i);
            }
        }
        Change::PartRekey { at, key } => {
            freeze_signed_message(&mut s);
            if s.parts.is_empty() {
                s.parts.push((*key, "00".into()));
            } else {
                let i = pick_index(*at, s.parts.len());
                let v = s.parts[i].1.clone();
                s.parts.remove(i);
                s.parts.retain(|(k, _)| k != key);
                s.parts.push((*key, v));
            }
        }
        Change::SignedMessage(e) => s.signed_message = Some(edit_str(&base.effective_signed_message(), e)),
        Change::Avk(a) => s.avk = a.clone(),
        Change::Entity(e) => {
            s.sig = match &s.sig {
                SigSpec::Multi(old, sig) => {
                    let new = match e {
                        EntityEdit::Variant { v, pad } => old.with_variant(*v, *pad),
                        EntityEdit::Number { idx, e } => {
                            let mut n = old.numbers();
                            let i = *idx as usize % n.len();
                            n[i] = edit_num(n[i], e);
                            n.resize(3, 0);
                            let variant = match old {
                                EntitySpec::Msd(..) => 0,
                                EntitySpec::Csd(..) => 1,
                                EntitySpec::Cdb(..) => 2,
                                EntitySpec::Ctx(..) => 3,
                                EntitySpec::Cbt(..) => 4,
                            };
                            EntitySpec::Cbt(n[0], n[1], n[2]).with_variant(variant, 0)
                        }
                        EntityEdit::Set(n) => n.clone(),
                    };
                    SigSpec::Multi(new, sig.clone())
                }
                SigSpec::Genesis(g) => SigSpec::Genesis(edit_str(g, &StrEdit::Set(hex::encode([7u8; 64])))),
            }
        }
        Change::MultiSig(m) => {
            s.sig = match &s.sig {
                SigSpec::Multi(e, _) => SigSpec::Multi(e.clone(), m.clone()),
                SigSpec::Genesis(_) => SigSpec::Multi(EntitySpec::Msd(s.epoch), m.clone()),
            }
        }
        Change::GenesisSig(g) | Change::ToGenesis(g) => s.sig = SigSpec::Genesis(g.clone()),
        Change::ToMulti(e, m) => s.sig = SigSpec::Multi(e.clone(), m.clone()),
    }
    s
}

/// canonical, harness-side value of every hashed field (None = a pool string does not decode)
fn canon(s: &CertSpec) -> Option<BTreeMap<&'static str, String>> {
    let c = s.certificate().ok()?;
    let mut m = BTreeMap::new();
    m.insert("previous_hash", s.previous_hash.clone());
    m.insert("epoch", s.epoch.to_string());
    m.insert("metadata.network", s.network.clone());
    m.insert("metadata.version", s.version.clone());
    m.insert("metadata.parameters.k", s.params.k.to_string());
    m.insert("metadata.parameters.m", s.params.m.to_string());
    m.insert("metadata.parameters.phi_f", format!("{:?}", phi_fixed(s.params.phi())));
    m.insert("metadata.initiated_at", s.initiated_ns.to_string());
    m.insert("metadata.sealed_at", s.sealed_ns.to_string());
    m.insert("metadata.signers", serde_json::to_string(&s.signers).ok()?);
    m.insert("protocol_message", serde_json::to_string(&s.parts_map().iter().map(|(k, v)| (k.to_string(), v.clone())).collect::<Vec<_>>()).ok()?);
    m.insert("signed_message", s.effective_signed_message());
    m.insert("aggregate_verification_key", c.aggregate_verification_key.to_json_hex().ok()?);
    match &c.signature {
        CertificateSignature::GenesisSignature(g) => {
            m.insert("signature.kind", "genesis".into());
            m.insert("signed_entity_type", "-".into());
            m.insert("signature", g.to_bytes_hex().ok()?);
        }
        CertificateSignature::MultiSignature(e, sig) => {
            m.insert("signature.kind", "multi".into());
            m.insert("signed_entity_type", format!("{:?}", EntitySpec::of(e)));
            m.insert("signature", sig.to_json_hex().ok()?);
        }
    }
    Some(m)
}

fn sig_kind(s: &CertSpec) -> &'static str {
    match &s.sig {
        SigSpec::Genesis(_) => "genesis",
        SigSpec::Multi(e, _) => e.name(),
    }
}

/// the two pair classes of the known finding (equal numbers, discriminant not hashed)
fn known_entity_class(a: &EntitySpec, b: &EntitySpec) -> Option<&'static str> {
    match (a, b) {
        (EntitySpec::Msd(x), EntitySpec::Csd(y)) | (EntitySpec::Csd(x), EntitySpec::Msd(y)) if x == y => Some(KEY_MSD_CSD),
        (EntitySpec::Ctx(x, n), EntitySpec::Cdb(y, o)) | (EntitySpec::Cdb(x, n), EntitySpec::Ctx(y, o)) if x == y && n == o => Some(KEY_CTX_CDB),
        _ => None,
    }
}

#[derive(Clone, Debug, Serialize, Deserialize)]
pub struct FieldCase {
    pub base: CertSpec,
    pub change: Change,
}

fn field_case(c: &FieldCase, known_open: &[bool; 2]) -> Report {
    let mut rep = Report::new();
    let changed = apply(&c.base, &c.change);
    let (Some(f0), Some(f1)) = (canon(&c.base), canon(&changed)) else {
        rep.discard("a pool string does not decode");
        return rep;
    };
    let diff: Vec<&'static str> = f0.keys().filter(|k| f0[*k] != f1[*k]).copied().collect();
    let diff: Vec<&'static str> = if diff.contains(&"signature.kind") { vec!["signature.kind"] } else { diff };
    rep.label(format!("change:{}", change_name(&c.change)));
    if diff.is_empty() {
        rep.label("no-effective-change");
        if let Change::Phi(_) = c.change {
            // equal at the fixed-point precision: the statement requires nothing (recorded only)
            let same = c.base.certificate().ok().and_then(|x| x.try_compute_hash().ok()) == changed.certificate().ok().and_then(|x| x.try_compute_hash().ok());
            rep.label(if same { "phi-equal-at-precision:same-hash" } else { "phi-equal-at-precision:other-hash" });
        }
        return rep;
    }
    if diff.len() != 1 {
        rep.discard(format!("change touched several fields: {diff:?}"));
        return rep;
    }
    let field = diff[0];
    rep.label(format!("field:{field}"));
    rep.label(format!("sig:{}", sig_kind(&c.base)));
    let value_class = if f0[field].is_empty() || f1[field].is_empty() {
        "empty"
    } else if f0[field].starts_with(f1[field].as_str()) || f1[field].starts_with(f0[field].as_str()) {
        "prefix"
    } else if f0[field].eq_ignore_ascii_case(f1[field].as_str()) {
        "letter-case-only"
    } else if f0[field].len() == f1[field].len() {
        "same-len"
    } else {
        "other"
    };
    let mut known_key = None;
    if field == "signed_entity_type" {
        if let (SigSpec::Multi(a, _), SigSpec::Multi(b, _)) = (&c.base.sig, &changed.sig) {
            rep.label(format!("entity-pair:{}->{}", a.name(), b.name()));
            rep.label(if a.numbers() == b.numbers() || a.numbers().starts_with(&b.numbers()) || b.numbers().starts_with(&a.numbers()) { "entity:same-numbers" } else { "entity:other-numbers" });
            known_key = known_entity_class(a, b);
        }
    }
    rep.nontrivial(format!("{field}|{}|{}|{value_class}", change_name(&c.change), sig_kind(&changed)));
    if let Some(k) = known_key {
        rep.label(format!("known-class:{k}"));
        let idx = if k == KEY_MSD_CSD { 0 } else { 1 };
        if known_open[idx] {
            rep.excluded_known(k);
            return rep;
        }
    }
    let h0 = c.base.certificate().map_err(|e| e.to_string()).and_then(|x| x.try_compute_hash().map_err(|e| e.to_string()));
    let h1 = changed.certificate().map_err(|e| e.to_string()).and_then(|x| x.try_compute_hash().map_err(|e| e.to_string()));
    match (h0, h1) {
        (Ok(a), Ok(b)) => {
            if a == b {
                let key = known_key.map(String::from).unwrap_or_else(|| format!("hash-collision:{field}"));
                rep.violation(key, format!("field `{field}` changed from {:.200?} to {:.200?} but both certificates hash to {a}", f0[field], f1[field]));
            }
        }
        (a, b) => {
            rep.discard(format!("hash not computable: {a:?} / {b:?}"));
        }
    }
    rep
}

// ------------------------------------------------------------------------------------------------------------------
// protocol message pairs
// ------------------------------------------------------------------------------------------------------------------

#[derive(Clone, Debug, Serialize, Deserialize)]
pub enum Move {
    /// move `n` characters from the end of part `at` to the start of the next part (or back)
    Boundary { at: u16, n: u8, forward: bool },
    Drop { at: u16 },
    Add { key: u8, value: String },
    Swap { a: u16, b: u16 },
    Rekey { at: u16, key: u8 },
    /// remove the next part and append its value to part `at`
    Merge { at: u16 },
    /// split the last `n` characters of part `at` off into a new part under `key`
    Split { at: u16, n: u8, key: u8 },
    Replace { at: u16, value: String },
}

#[derive(Clone, Debug, Serialize, Deserialize)]
pub struct MsgCase {
    pub parts: Vec<(u8, String)>,
    pub mv: Move,
}

fn msg_case_strategy(pool: Arc<Strings>) -> impl Strategy<Value = MsgCase> {
    let p1 = pool.clone();
    let p2 = pool.clone();
    (
        parts_strategy(pool),
        prop_oneof![
            4 => (any::<u16>(), prop_oneof![3 => Just(2u8), 2 => Just(4u8), 2 => (1u8..6).prop_map(|n| 2 * n), 1 => 1u8..10, 1 => Just(64u8)], any::<bool>()).prop_map(|(at, n, forward)| Move::Boundary { at, n, forward }),
            1 => any::<u16>().prop_map(|at| Move::Drop { at }),
            1 => (0u8..ALL_KEYS.len() as u8).prop_flat_map(move |key| part_value(key, p1.clone()).prop_map(move |value| Move::Add { key, value })),
            2 => (any::<u16>(), any::<u16>()).prop_map(|(a, b)| Move::Swap { a, b }),
            2 => (any::<u16>(), 0u8..ALL_KEYS.len() as u8).prop_map(|(at, key)| Move::Rekey { at, key }),
            2 => any::<u16>().prop_map(|at| Move::Merge { at }),
            2 => (any::<u16>(), prop_oneof![3 => Just(2u8), 3 => (1u8..12).prop_map(|n| 2 * n), 1 => 1u8..20, 1 => Just(64u8)], 0u8..ALL_KEYS.len() as u8).prop_map(|(at, n, key)| Move::Split { at, n, key }),
            1 => (any::<u16>(), 0u8..ALL_KEYS.len() as u8).prop_flat_map(move |(at, key)| part_value(key, p2.clone()).prop_map(move |value| Move::Replace { at, value })),
        ],
    )
        .prop_map(|(parts, mv)| MsgCase { parts, mv })
}

fn message_of(parts: &BTreeMap<u8, String>) -> ProtocolMessage {
    let mut pm = ProtocolMessage::new();
    for (k, v) in parts {
        pm.set_message_part(ALL_KEYS[*k as usize % ALL_KEYS.len()], v.clone());
    }
    pm
}

fn move_name(m: &Move) -> String {
    let s = format!("{m:?}");
    s.split([' ', '{', '(']).next().unwrap_or("").to_string()
}

fn msg_case(c: &MsgCase) -> Report {
    let mut rep = Report::new();
    // BTreeMap over the key INDEX: the protocol message orders by the enum, i.e. by the same index
    let m1: BTreeMap<u8, String> = c.parts.iter().map(|(k, v)| (*k % ALL_KEYS.len() as u8, v.clone())).collect();
    let mut m2 = m1.clone();
    let keys: Vec<u8> = m1.keys().copied().collect();
    rep.label(format!("move:{}", move_name(&c.mv)));
    let n_parts = keys.len();
    match &c.mv {
        Move::Boundary { at, n, forward } => {
            if n_parts < 2 {
                rep.discard("needs two parts");
                return rep;
            }
            let i = pick_index(*at, n_parts - 1);
            let (ka, kb) = (keys[i], keys[i + 1]);
            let (mut a, mut b) = (m1[&ka].clone(), m1[&kb].clone());
            if *forward {
                let n = (*n as usize).min(a.len());
                let tail = a.split_off(a.len() - n);
                b = format!("{tail}{b}");
            } else {
                let n = (*n as usize).min(b.len());
                let rest = b.split_off(n);
                a = format!("{a}{b}");
                b = rest;
            }
            m2.insert(ka, a);
            m2.insert(kb, b);
        }
        Move::Drop { at } => {
            if n_parts == 0 {
                rep.discard("empty message");
                return rep;
            }
            m2.remove(&keys[pick_index(*at, n_parts)]);
        }
        Move::Add { key, value } => {
            m2.insert(*key, value.clone());
        }
        Move::Swap { a, b } => {
            if n_parts < 2 {
                rep.discard("needs two parts");
                return rep;
            }
            let i = pick_index(*a, n_parts);
            // prefer a partner of the same value grammar (a swap across grammars leaves the honest domain)
            let same: Vec<usize> = (0..n_parts).filter(|j| *j != i && grammar_of(keys[*j]) == grammar_of(keys[i])).collect();
            let others: Vec<usize> = (0..n_parts).filter(|j| *j != i).collect();
            let cand = if same.is_empty() { &others } else { &same };
            let j = cand[pick_index(*b, cand.len())];
            let (va, vb) = (m1[&keys[i]].clone(), m1[&keys[j]].clone());
            m2.insert(keys[i], vb);
            m2.insert(keys[j], va);
        }
        Move::Rekey { at, key } => {
            if n_parts == 0 {
                rep.discard("empty message");
                return rep;
            }
            let k = keys[pick_index(*at, n_parts)];
            let v = m2.remove(&k).unwrap();
            let targets: Vec<u8> = (0..ALL_KEYS.len() as u8).filter(|t| *t != k && grammar_of(*t) == grammar_of(k)).collect();
            m2.insert(targets[*key as usize % targets.len()], v);
        }
        Move::Merge { at } => {
            if n_parts < 2 {
                rep.discard("needs two parts");
                return rep;
            }
            let i = pick_index(*at, n_parts - 1);
            let v = m2.remove(&keys[i + 1]).unwrap();
            m2.get_mut(&keys[i]).unwrap().push_str(&v);
        }
        Move::Split { at, n, key } => {
            if n_parts == 0 {
                rep.discard("empty message");
                return rep;
            }
            let k = keys[pick_index(*at, n_parts)];
            let mut v = m1[&k].clone();
            let n = (*n as usize).min(v.len().saturating_sub(1));
            let tail = v.split_off(v.len() - n);
            m2.insert(k, v);
            let fresh: Vec<u8> = (0..ALL_KEYS.len() as u8).filter(|t| !m1.contains_key(t) && grammar_of(*t) == grammar_of(k)).collect();
            let any_same: Vec<u8> = (0..ALL_KEYS.len() as u8).filter(|t| *t != k && grammar_of(*t) == grammar_of(k)).collect();
            let cand = if fresh.is_empty() { &any_same } else { &fresh };
            m2.insert(cand[*key as usize % cand.len()], tail);
        }
        Move::Replace { at, value } => {
            if n_parts == 0 {
                m2.insert(0, value.clone());
            } else {
                m2.insert(keys[pick_index(*at, n_parts)], value.clone());
            }
        }
    }
    let wf = |m: &BTreeMap<u8, String>| m.iter().all(|(k, v)| well_formed(*k, v));
    if !wf(&m1) {
        rep.discard("base outside the grammar");
        return rep;
    }
    if !wf(&m2) {
        // the moved pair left the honest value grammar: outside the statement (counted, not a discard of the generator's
        // budget: the base was fine) — still nothing is claimed
        rep.label("moved-outside-grammar");
        return rep;
    }
    if m1 == m2 {
        rep.label("equal-messages");
        return rep;
    }
    let (h1, h2) = (message_of(&m1).compute_hash(), message_of(&m2).compute_hash());
    let shared = m1.keys().filter(|k| m2.contains_key(*k)).count();
    rep.nontrivial(format!("{}|{}|{}|{}", move_name(&c.mv), m1.len(), m2.len(), shared));
    if h1 == h2 {
        rep.violation(format!("protocol-message-collision:{}", move_name(&c.mv)), format!("{m1:?} and {m2:?} are different but both digest to {h1}"));
    }
    rep
}

// ------------------------------------------------------------------------------------------------------------------
// wire round trip
// ------------------------------------------------------------------------------------------------------------------

#[derive(Clone, Debug, Serialize, Deserialize)]
pub struct Reser {
    /// 0 = keep the serialiser's order, otherwise the seed of a permutation of every object's fields
    pub perm: u64,
    /// 0 compact, 1 spaced, 2 pretty, 3 random white space
    pub ws: u8,
    /// bit 0: `ancillary_prover_data: null`, bit 1: `ancillary_verifier_data: null`, bit 2: explicit default
    /// `hash_scheme: "legacy"`
    pub opt: u8,
    /// phi_f as 0 shortest, 1 exponent form, 2 seventeen significant digits, 3 exact decimal expansion / integer
    pub num: u8,
    /// strings 0 as serde_json, 1 non-ASCII as \uXXXX, 2 everything as \uXXXX, 3 `\/`
    pub esc: u8,
}

fn reser_strategy() -> impl Strategy<Value = Reser> {
    (prop_oneof![1 => Just(0u64), 3 => any::<u64>()], 0u8..4, 0u8..8, 0u8..4, 0u8..4).prop_map(|(perm, ws, opt, num, esc)| Reser { perm, ws, opt, num, esc })
}

struct Emitter<'a> {
    r: &'a Reser,
    phi: f64,
    counter: u64,
    out: String,
}

impl Emitter<'_> {
    fn next(&mut self) -> u64 {
        self.counter += 1;
        mix(self.r.perm, self.counter)
    }
    fn gap(&mut self, depth: usize, structural: bool) {
        match self.r.ws {
            0 => {}
            1 => {
                if !structural {
                    self.out.push(' ')
                }
            }
            2 => {
                if structural {
                    self.out.push('\n');
                    for _ in 0..depth {
                        self.out.push_str("  ");
                    }
                } else {
                    self.out.push(' ');
                }
            }
            _ => {
                let n = self.next();
                self.out.push_str(["", " ", "\n", "\t", "\r\n", "  \n "][(n % 6) as usize]);
            }
        }
    }
    fn string(&mut self, s: &str) {
        match self.r.esc {
            0 => self.out.push_str(&serde_json::to_string(s).unwrap()),
            mode => {
                self.out.push('"');
                for ch in s.chars() {
                    let plain = ch.is_ascii() && !ch.is_ascii_control() && ch != '"' && ch != '\\';
                    if mode == 3 && ch == '/' {
                        self.out.push_str("\\/");
                    } else if plain && mode != 2 {
                        self.out.push(ch);
                    } else if mode == 3 && !ch.is_ascii() {
                        self.out.push(ch);
                    } else {
                        let mut buf = [0u16; 2];
                        for u in ch.encode_utf16(&mut buf) {
                            self.out.push_str(&format!("\\u{u:04x}"));
                        }
                    }
                }
                self.out.push('"');
            }
        }
    }
    fn emit(&mut self, v: &Value, path: &str, depth: usize) {
        match v {
            Value::Null => self.out.push_str("null"),
            Value::Bool(b) => self.out.push_str(if *b { "true" } else { "false" }),
            Value::Number(n) => {
                if path.ends_with(".phi_f") {
                    let p = self.phi;
                    let txt = match self.r.num {
                        0 => serde_json::to_string(&p).unwrap(),
                        1 => format!("{p:e}"),
                        2 => format!("{p:.16e}"),
                        _ => {
                            if p == 1.0 {
                                "1".to_string()
                            } else {
                                let t = format!("{p:.1100}");
                                let t = t.trim_end_matches('0');
                                if t.ends_with('.') { format!("{t}0") } else { t.to_string() }
                            }
                        }
                    };
                    self.out.push_str(&txt);
                } else {
                    self.out.push_str(&n.to_string());
                }
            }
            Value::String(s) => self.string(s),
            Value::Array(a) => {
                self.out.push('[');
                for (i, x) in a.iter().enumerate() {
                    if i > 0 {
                        self.out.push(',');
                    }
                    self.gap(depth + 1, true);
                    self.emit(x, &format!("{path}[]"), depth + 1);
                }
                if !a.is_empty() {
                    self.gap(depth, true);
                }
                self.out.push(']');
            }
            Value::Object(o) => {
                let mut entries: Vec<(String, Value)> = o.iter().map(|(k, v)| (k.clone(), v.clone())).collect();
                if path.is_empty() {
                    if self.r.opt & 1 != 0 && !o.contains_key("ancillary_prover_data") {
                        entries.push(("ancillary_prover_data".into(), Value::Null));
                    }
                    if self.r.opt & 2 != 0 && !o.contains_key("ancillary_verifier_data") {
                        entries.push(("ancillary_verifier_data".into(), Value::Null));
                    }
                }
                if path == ".protocol_message" && self.r.opt & 4 != 0 && !o.contains_key("hash_scheme") {
                    entries.push(("hash_scheme".into(), Value::String("legacy".into())));
                }
                if self.r.perm != 0 {
                    for i in (1..entries.len()).rev() {
                        let j = (self.next() % (i as u64 + 1)) as usize;
                        entries.swap(i, j);
                    }
                }
                self.out.push('{');
                for (i, (k, x)) in entries.iter().enumerate() {
                    if i > 0 {
                        self.out.push(',');
                    }
                    self.gap(depth + 1, true);
                    self.string(k);
                    self.gap(depth + 1, false);
                    self.out.push(':');
                    self.gap(depth + 1, false);
                    self.emit(x, &format!("{path}.{k}"), depth + 1);
                }
                if !entries.is_empty() {
                    self.gap(depth, true);
                }
                self.out.push('}');
            }
        }
    }
}

fn reserialise(v: &Value, r: &Reser, phi: f64) -> String {
    let mut e = Emitter { r, phi, counter: 0, out: String::new() };
    e.gap(0, false);
    e.emit(v, "", 0);
    e.gap(0, false);
    e.out
}

struct NoRetriever;

#[async_trait]
impl CertificateRetriever for NoRetriever {
    async fn get_certificate_details(&self, hash: &str) -> Result<Certificate, CertificateRetrieverError> {
        Err(CertificateRetrieverError(anyhow::anyhow!("no certificate {hash}")))
    }
}

/// the real verifier's verdict on (certificate, given previous certificate): "ok" or the error chain
fn real_verdict(c: &Certificate, prev: &Certificate, gv: &GenesisVerifier) -> String {
    let logger = slog::Logger::root(slog::Discard, slog::o!());
    let verifier = MithrilCertificateVerifier::new(logger, Arc::new(NoRetriever), Arc::new(gv.clone()));
    let rt = tokio::runtime::Builder::new_current_thread().enable_all().build().expect("runtime");
    let r = catch(|| {
        rt.block_on(async {
            if c.is_genesis() { verifier.verify_genesis_certificate(c).await } else { verifier.verify_standard_certificate(c, prev).await }
        })
    });
    match r {
        Ok(Ok(())) => "ok".to_string(),
        Ok(Err(e)) => format!("err: {e:#}"),
        Err(p) => format!("panic: {p}"),
    }
}

/// harness-side integrity bits: hash matches, signed message matches, epoch inside the message, signature valid
fn integrity_bits(c: &Certificate, gv: &GenesisVerifier) -> String {
    let hash_ok = c.try_compute_hash().map(|h| h == c.hash).unwrap_or(false);
    let msg_ok = c.protocol_message.compute_hash() == c.signed_message;
    let epoch_ok = c.protocol_message.get_message_part(&ProtocolMessagePartKey::CurrentEpoch).map(|e| *e == c.epoch.0.to_string()).unwrap_or(false);
    let sig_ok = match &c.signature {
        CertificateSignature::GenesisSignature(s) => gv.to_ed25519_verification_key().verify_strict(c.signed_message.as_bytes(), s).is_ok(),
        CertificateSignature::MultiSignature(_, s) => {
            let p = &c.metadata.protocol_parameters;
            catch(|| s.verify(c.signed_message.as_bytes(), &c.create_aggregate_verification_key(), &mithril_stm::Parameters { m: p.m, k: p.k, phi_f: p.phi_f }, None, None).is_ok())
                .unwrap_or(false)
        }
    };
    format!("hash={hash_ok} msg={msg_ok} epoch={epoch_ok} sig={sig_ok}")
}

#[derive(Clone, Debug, Serialize, Deserialize)]
pub enum Src {
    /// certificate `idx` of the honest context chain, optionally with one field changed (and re-hashed or not)
    Chain { idx: u16, change: Option<Change>, rehash: bool },
    /// a free, field-by-field certificate (verified against certificate `prev` of the context chain)
    Free { spec: CertSpec, rehash: bool },
}

#[derive(Clone, Debug, Serialize, Deserialize)]
pub struct WireCase {
    pub ctx: ChainSpec,
    pub src: Src,
    pub prev: u16,
    pub reser: Reser,
}

fn verdict_class(v: &str) -> String {
    v.split(':').take(2).collect::<Vec<_>>().join(":").chars().take(60).collect()
}

fn wire_case(c: &WireCase, known_phi_open: bool) -> Report {
    let mut rep = Report::new();
    let Some(built) = chain_cached(&c.ctx) else {
        rep.discard("context chain does not build");
        return rep;
    };
    let (cert0, src_name) = match &c.src {
        Src::Chain { idx, change, rehash } => {
            let base = &built.certs[pick_index(*idx, built.certs.len())];
            match change {
                None => (base.clone(), "chain"),
                Some(ch) => {
                    let spec = apply(&CertSpec::of(base), ch);
                    let Ok(mut x) = spec.certificate() else {
                        rep.discard("a pool string does not decode");
                        return rep;
                    };
                    if *rehash {
                        certs::rehash(&mut x);
                    }
                    (x, if *rehash { "chain+change+rehash" } else { "chain+change" })
                }
            }
        }
        Src::Free { spec, rehash } => {
            let Ok(mut x) = spec.certificate() else {
                rep.discard("a pool string does not decode");
                return rep;
            };
            if *rehash {
                certs::rehash(&mut x);
            }
            (x, "free")
        }
    };
    let prev = built.certs.iter().find(|p| p.hash == cert0.previous_hash).unwrap_or(&built.certs[pick_index(c.prev, built.certs.len())]).clone();
    let gv = &built.genesis_verifier;
    let verdict0 = real_verdict(&cert0, &prev, gv);
    let bits0 = integrity_bits(&cert0, gv);
    let hash0 = cert0.try_compute_hash().unwrap_or_else(|e| format!("error {e}"));
    let kind = if cert0.is_genesis() { "genesis".to_string() } else { EntitySpec::of(&cert0.signed_entity_type()).name().to_string() };
    let reser_class = format!("perm{}ws{}opt{}num{}esc{}", (c.reser.perm != 0) as u8, c.reser.ws, c.reser.opt, c.reser.num, c.reser.esc);
    rep.label(format!("src:{src_name}"));
    rep.label(format!("kind:{kind}"));
    rep.label(format!("verdict:{}", verdict_class(&verdict0)));
    for (name, v) in [("perm", (c.reser.perm != 0) as u8), ("ws", c.reser.ws), ("opt", c.reser.opt), ("num", c.reser.num), ("esc", c.reser.esc)] {
        rep.label(format!("reser:{name}{v}"));
    }
    if verdict0 == "ok" {
        rep.label("verdict-ok");
    }
    rep.nontrivial(format!("{src_name}|{kind}|{reser_class}|{}", verdict_class(&verdict0)));

    let msg = match CertificateMessage::try_from(cert0.clone()) {
        Ok(m) => m,
        Err(e) => {
            rep.violation("roundtrip:to-message-fails", format!("Certificate -> CertificateMessage failed: {e:#}"));
            return rep;
        }
    };
    let text = match serde_json::to_string(&msg) {
        Ok(t) => t,
        Err(e) => {
            rep.violation("roundtrip:to-json-fails", format!("CertificateMessage -> JSON failed: {e}"));
            return rep;
        }
    };
    let value: Value = match serde_json::from_str(&text) {
        Ok(v) => v,
        Err(e) => {
            rep.violation("roundtrip:own-json-unparsable", format!("serialised message is not JSON: {e}"));
            return rep;
        }
    };
    // two paths: the serialiser's own text, and the re-serialised text
    for (path, txt) in [("direct", text.clone()), ("reserialised", reserialise(&value, &c.reser, cert0.metadata.protocol_parameters.phi_f))] {
        let msg2: CertificateMessage = match serde_json::from_str(&txt) {
            Ok(m) => m,
            Err(e) => {
                rep.violation(format!("roundtrip:json-rejected:{path}"), format!("{path} text rejected ({e}); reser={:?}; text={:.300}", c.reser, txt));
                return rep;
            }
        };
        let cert2 = match Certificate::try_from(msg2) {
            Ok(x) => x,
            Err(e) => {
                rep.violation(format!("roundtrip:conversion-fails:{path}"), format!("CertificateMessage -> Certificate failed: {e:#}"));
                return rep;
            }
        };
        let mut cert2 = cert2;
        if cert2.hash != cert0.hash {
            rep.violation(format!("roundtrip:stored-hash-changed:{path}"), format!("hash field {} -> {}", cert0.hash, cert2.hash));
        }
        let (phi0, phi2) = (cert0.metadata.protocol_parameters.phi_f, cert2.metadata.protocol_parameters.phi_f);
        if phi0.to_bits() != phi2.to_bits() {
            // The statement compares protocol parameters at the fixed-point precision, so a changed f64 alone is only
            // recorded; it is a finding when it has an effect the statement names: the hashed fixed-point value changes,
            // or the verifier's verdict changes (and comes back when the original float is restored).
            rep.label(format!("phi-bits-changed:{path}"));
            let effect = if phi_fixed(phi0) != phi_fixed(phi2) {
                Some("the hashed fixed-point value (so the certificate hash) changes".to_string())
            } else {
                let unpatched = real_verdict(&cert2, &prev, gv);
                let mut patched = cert2.clone();
                patched.metadata.protocol_parameters.phi_f = phi0;
                if unpatched != verdict0 && real_verdict(&patched, &prev, gv) == verdict0 {
                    Some(format!("the verifier verdict changes from `{verdict0}` to `{unpatched}`"))
                } else {
                    None
                }
            };
            if let Some(effect) = effect {
                rep.label(format!("phi-change-visible:{path}"));
                if known_phi_open {
                    rep.excluded_known(KEY_PHI);
                } else {
                    rep.violation(
                        KEY_PHI,
                        format!(
                            "phi_f={phi0:e} (bits {:#x}, fixed {:?}) came back from the {path} JSON round trip as {phi2:e} (bits {:#x}, fixed {:?}): {effect}; reser={:?}",
                            phi0.to_bits(),
                            phi_fixed(phi0),
                            phi2.to_bits(),
                            phi_fixed(phi2),
                            c.reser
                        ),
                    );
                }
            }
            // keep exploring the other clauses around the finding
            cert2.metadata.protocol_parameters.phi_f = phi0;
        }
        let hash2 = cert2.try_compute_hash().unwrap_or_else(|e| format!("error {e}"));
        if hash2 != hash0 {
            let f0 = canon(&CertSpec::of(&cert0));
            let f2 = canon(&CertSpec::of(&cert2));
            let diff: Vec<String> = match (f0, f2) {
                (Some(a), Some(b)) => a.keys().filter(|k| a[*k] != b[*k]).map(|k| format!("{k}: {:.80} -> {:.80}", a[k], b[k])).collect(),
                _ => vec![],
            };
            let field = diff.first().map(|d| d.split(':').next().unwrap_or("").to_string()).unwrap_or_default();
            rep.violation(
                format!("roundtrip:hash-changed:{path}:{field}"),
                format!("recomputed hash {hash0} -> {hash2} after the {path} round trip; differing fields {diff:?}; phi_f={:e} reser={:?}", cert0.metadata.protocol_parameters.phi_f, c.reser),
            );
        }
        if cert2.signed_message != cert0.signed_message {
            rep.violation(format!("roundtrip:signed-message-changed:{path}"), format!("{} -> {}", cert0.signed_message, cert2.signed_message));
        }
        let verdict2 = real_verdict(&cert2, &prev, gv);
        if verdict2 != verdict0 {
            rep.violation(format!("roundtrip:verdict-changed:{path}"), format!("verifier verdict `{verdict0}` -> `{verdict2}`"));
        }
        let bits2 = integrity_bits(&cert2, gv);
        if bits2 != bits0 {
            rep.violation(format!("roundtrip:integrity-changed:{path}"), format!("`{bits0}` -> `{bits2}`"));
        }
    }
    rep
}

// ------------------------------------------------------------------------------------------------------------------
// run
// ------------------------------------------------------------------------------------------------------------------

fn witness_pair(a: EntitySpec, b: EntitySpec, msig: &str, avk: &str) -> bool {
    let base = CertSpec {
        hash: String::new(),
        previous_hash: hex_digest(1),
        epoch: 7,
        network: "testnet".into(),
        version: "0.1.0".into(),
        params: PSpec::new(5, 100, 0.65),
        initiated_ns: 1_707_743_507_012_304_300,
        sealed_ns: 1_707_743_607_012_304_300,
        signers: vec![("pool1".into(), 10)],
        parts: vec![(5, "7".into())],
        signed_message: None,
        avk: avk.to_string(),
        sig: SigSpec::Multi(a, msig.to_string()),
    };
    let mut other = base.clone();
    if let SigSpec::Multi(_, s) = &base.sig {
        other.sig = SigSpec::Multi(b, s.clone());
    }
    let h0 = base.certificate().expect("witness certificate").try_compute_hash().expect("hash");
    let h1 = other.certificate().expect("witness certificate").try_compute_hash().expect("hash");
    h0 == h1
}

pub fn run(args: &Args) -> i32 {
    let mut check = Check::new("C04", "exploration", args);
    check
        .rule(
            "single-field: a field-by-field certificate and ONE generated change; non-trivial = exactly one hashed field differs on the harness-side canonical form \
             (phi at U8F24, keys/signatures by canonical encoding), field other than `hash`; distinct by (field, change kind, signature/entity variant, value class). \
             protocol-message-pairs: both messages inside the honest grammar and different as maps; distinct by (move, sizes, shared keys). \
             wire-roundtrip: every case (two paths: serialiser text and re-serialised text); distinct by (source, signature/entity variant, re-serialisation class, verdict class)",
        )
        .assume("SHA-256 collision-free; hex / JSON codecs of keys and signatures trusted (C05); STM verify and Ed25519 verify trusted primitives (C01)")
        .assume("timestamps representable as i64 nanoseconds; phi_f in (0,1]; ancillary prover/verifier data are uninhabited types without the `future_snark` feature, so they are always absent (absent vs null is exercised on the wire)")
        .assume("protocol message values inside the honest grammar: lower-case hex of a non-empty byte string for digests/keys, canonical decimal u64 for numbers")
        .require_label("field:previous_hash")
        .require_label("field:epoch")
        .require_label("field:metadata.network")
        .require_label("field:metadata.version")
        .require_label("field:metadata.parameters.k")
        .require_label("field:metadata.parameters.m")
        .require_label("field:metadata.parameters.phi_f")
        .require_label("field:metadata.initiated_at")
        .require_label("field:metadata.sealed_at")
        .require_label("field:metadata.signers")
        .require_label("field:protocol_message")
        .require_label("field:signed_message")
        .require_label("field:aggregate_verification_key")
        .require_label("field:signed_entity_type")
        .require_label("field:signature")
        .require_label("field:signature.kind")
        .require_label("entity:same-numbers")
        .require_label("move:Boundary")
        .require_label("verdict-ok")
        .require_label("kind:genesis")
        .require_label("src:free");
    if std::env::var("VERIF_WRITE_WITNESS_REPLAYS").is_ok() {
        write_witness_replays();
    }
    let t = check.tier;
    let known_open = [!args.strict && check.has_open_known(KEY_MSD_CSD), !args.strict && check.has_open_known(KEY_CTX_CDB)];
    let known_phi_open = !args.strict && check.has_open_known(KEY_PHI);

    // per-run pool of honest chains: real keys / signatures and verification contexts
    let pool_chains: Vec<ChainSpec> = if check.is_replay() { vec![] } else { chain_pool(check.seed, t.pick(10, 40) as usize, 3, check.threads) };
    let mut strings = Strings::default();
    for spec in &pool_chains {
        if let Some(b) = chain_cached(spec) {
            for c in &b.certs {
                let s = CertSpec::of(c);
                strings.avks.push(s.avk.clone());
                match s.sig {
                    SigSpec::Genesis(g) => strings.gsigs.push(g),
                    SigSpec::Multi(_, m) => strings.msigs.push(m),
                }
            }
        }
    }
    strings.avks.sort();
    strings.avks.dedup();
    strings.msigs.truncate(64);
    if !check.is_replay() && (strings.avks.is_empty() || strings.msigs.is_empty() || strings.gsigs.is_empty()) {
        check.inconclusive("fixture pool is empty".into());
        return check.finish();
    }
    if check.is_replay() {
        // strategies are not used in replay mode, but they must be constructible
        strings.avks.push(synthetic_avk(1, 1, 1));
        strings.msigs.push(String::new());
        strings.gsigs.push(hex::encode([0u8; 64]));
    }
    let pool = Arc::new(strings);

    {
        let pool = pool.clone();
        check.section(
            "single-field",
            move || (cert_spec_strategy(pool.clone(), false), change_strategy(pool.clone(), false)).prop_map(|(base, change)| FieldCase { base, change }),
            t.pick(120_000, 1_500_000),
            |c: &FieldCase| field_case(c, &known_open),
        );
    }
    {
        let pool = pool.clone();
        check.section("protocol-message-pairs", move || msg_case_strategy(pool.clone()), t.pick(60_000, 800_000), msg_case);
    }
    {
        let pool = pool.clone();
        let chains = if pool_chains.is_empty() { vec![vcore::sample_one(&chain_strategy(2), 1)] } else { pool_chains.clone() };
        check.section(
            "wire-roundtrip",
            move || {
                let pool = pool.clone();
                (
                    prop::sample::select(chains.clone()),
                    prop_oneof![
                        2 => any::<u16>().prop_map(|idx| Src::Chain { idx, change: None, rehash: false }),
                        2 => (any::<u16>(), change_strategy(pool.clone(), true), any::<bool>()).prop_map(|(idx, ch, rehash)| Src::Chain { idx, change: Some(ch), rehash }),
                        3 => (cert_spec_strategy(pool.clone(), true), prop::bool::weighted(0.7)).prop_map(|(spec, rehash)| Src::Free { spec, rehash }),
                    ],
                    any::<u16>(),
                    reser_strategy(),
                )
                    .prop_map(|(ctx, src, prev, reser)| WireCase { ctx, src, prev, reser })
            },
            t.pick(40_000, 500_000),
            |c: &WireCase| wire_case(c, known_phi_open),
        );
    }

    // dedicated reproduction of the known collision classes (real key and signature from the pool)
    if !check.is_replay() {
        let (msig, avk) = (pool.msigs[0].clone(), pool.avks[0].clone());
        let (m2, a2) = (msig.clone(), avk.clone());
        check.witness(KEY_MSD_CSD, "MithrilStakeDistribution(e) and CardanoStakeDistribution(e) certificates collide", move || {
            witness_pair(EntitySpec::Msd(7), EntitySpec::Csd(7), &msig, &avk)
        });
        check.witness(KEY_CTX_CDB, "CardanoTransactions(e,n) and CardanoDatabase(e,n) certificates collide", move || {
            witness_pair(EntitySpec::Ctx(7, 4242), EntitySpec::Cdb(7, 4242), &m2, &a2)
        });
    }
    if !check.is_replay() {
        check.witness(KEY_PHI, "a phi_f at a fixed-point rounding tie does not survive serde_json (certificate hash changes over the wire)", witness_phi);
    }
    check.finish()
}

/// development aid (never set by the registered commands): write a hand-minimised replay of the phi_f finding
fn write_witness_replays() {
    let root = std::env::var("VERIF_ROOT").unwrap_or_else(|_| "/verif".into());
    let dir = std::path::Path::new(&root).join("replays").join("C04");
    let _ = std::fs::create_dir_all(&dir);
    let plan = CertPlan { link: 0, same_epoch_first: false, entity: 0, n1: 0, n2: 0, seed: 1 };
    let ctx = ChainSpec {
        genesis_seed: 1,
        start_epoch: 1,
        constant: true,
        worlds: vec![WorldSpec { seed: 11, stakes: vec![100, 200], params: PSpec::new(2, 8, 1.0) }, WorldSpec { seed: 12, stakes: vec![150, 250], params: PSpec::new(2, 8, 1.0) }],
        epochs: vec![vec![], vec![plan]],
        network: "testnet".into(),
    };
    // 0x3fde55e75fffffff = 0.47399315237998957: one ulp below the tie 7952285.5 / 2^24
    let case = WireCase {
        ctx,
        src: Src::Chain { idx: u16::MAX, change: Some(Change::Phi(PhiEdit::SetBits(0x3fde55e75fffffff))), rehash: true },
        prev: 0,
        reser: Reser { perm: 0, ws: 0, opt: 0, num: 0, esc: 0 },
    };
    let body = serde_json::json!({"property": "C04", "section": "wire-roundtrip", "seed": 0, "tier": "quick", "key": KEY_PHI, "what": "hand-minimised witness case", "case": case});
    let _ = std::fs::write(dir.join("witness-phi_f-not-preserved.json"), serde_json::to_string_pretty(&body).unwrap());
}

/// scan fixed-point ties (2j+1)/2^25: does the JSON round trip of the certificate message part change the hashed value?
fn witness_phi() -> bool {
    use mithril_common::entities::ProtocolParameters;
    (0u32..20_000).any(|i| {
        let j = 7_950_000 + i;
        let phi = (2.0 * j as f64 + 1.0) / 33_554_432.0;
        let p = ProtocolParameters::new(5, 100, phi);
        let q: ProtocolParameters = serde_json::from_str(&serde_json::to_string(&p).expect("json")).expect("parse");
        p.compute_hash() != q.compute_hash()
    })
}
