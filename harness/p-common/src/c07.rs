//! C07 — signer registration requires a genuine, pool-bound, stake-bound key.
//!
//! Honest registrations are assembled from raw material (ed25519 cold key → operational certificate, KES Sum6 key
//! evolved to `e_sig`, KES signature over the 192-byte `vk‖PoP`, BLS key + proof of possession) and kept as a
//! record of *raw bytes*. A mutation grammar rewrites the record (with the secrets of the own pool, of a second
//! pool and of fresh pools at hand, so that every component can be altered with and without re-signing). The record
//! is then turned into `SignerRegistrationParameters` and submitted to `KeyRegWrapper::register` inside a round of
//! several attempts, and (second section) into a `Signer` submitted to the aggregator's
//! `MithrilSignerRegistrationVerifier::verify`.
//!
//! Oracle: every conjunct of the statement is *evaluated on the submitted bytes* by the harness with primitives
//! that are independent of mithril (ed25519-dalek on a message rebuilt here, kes-summed-ed25519 on periods 0..=63,
//! blst for the proof of possession, Blake2b-224 + an own bech32 encoder for the pool id, an own set of registered
//! keys). accept ⇒ all conjuncts; returned party id = derived id; closed registration = {(vk, distribution[id])}.

use std::collections::{BTreeMap, BTreeSet, HashMap};
use std::sync::{Arc, Mutex, OnceLock};

use blake2::digest::consts::U28;
use blake2::{Blake2b, Digest};
use ed25519_dalek::{Signature as EdSignature, Signer as _, SigningKey, Verifier as _, VerifyingKey};
use kes_summed_ed25519::PublicKey as KesPublicKey;
use kes_summed_ed25519::kes::{Sum6Kes, Sum6KesSig};
use kes_summed_ed25519::traits::{KesSig, KesSk};
use mithril_common::crypto_helper::{
    KesEvolutions, KesPeriod, OpCert, ProtocolKeyRegistration as KeyRegWrapper, OpCertWithoutColdVerificationKey, ProtocolKey, SignerRegistrationParameters,
};
use mithril_stm::{Initializer, Parameters, VerificationKeyProofOfPossessionForConcatenation};
use proptest::prelude::*;
use rand_chacha::ChaCha20Rng;
use rand_core::SeedableRng;
use serde::{Deserialize, Serialize};
use serde_json::json;
use vcore::{Args, Check, Report, catch, mix, pick_index};

const KES_BUF: usize = Sum6Kes::SIZE + 4;
const KES_SIG: usize = 448;
const MAX_EVO: u32 = 63;
/// signature made at the last evolution (63) accepted although an evolution beyond 64 is announced
const KEY_ALIAS: &str = "kes-window-alias-beyond-last-period";

// ------------------------------------------------------------------------------------------- raw material

/// Everything secret and public of one stake pool operator, a pure function of `seed`.
pub struct PoolMat {
    cold_sk: SigningKey,
    cold_vk: [u8; 32],
    kes_vk: [u8; 32],
    /// KES secret key bytes after e evolutions, e = 0..=63
    kes_snap: Vec<Vec<u8>>,
    vkpop: [u8; 192],
    pool_id: String,
}

fn seed32(seed: u64, tag: u8) -> [u8; 32] {
    let mut s = [tag; 32];
    s[..8].copy_from_slice(&seed.to_le_bytes());
    s[8..16].copy_from_slice(&mix(seed, tag as u64).to_le_bytes());
    s[16..24].copy_from_slice(&mix(seed ^ 0xabcdef, 7 + tag as u64).to_le_bytes());
    s
}

static MATS: OnceLock<Mutex<HashMap<u64, Arc<PoolMat>>>> = OnceLock::new();

pub fn mat(seed: u64) -> Arc<PoolMat> {
    let cache = MATS.get_or_init(Default::default);
    if let Some(m) = cache.lock().unwrap().get(&seed) {
        return m.clone();
    }
    let m = Arc::new(build_mat(seed));
    let mut g = cache.lock().unwrap();
    if g.len() > 4096 {
        g.clear();
    }
    g.insert(seed, m.clone());
    m
}

fn build_mat(seed: u64) -> PoolMat {
    let cold_sk = SigningKey::from_bytes(&seed32(seed, 1));
    let cold_vk = cold_sk.verifying_key().to_bytes();
    let mut buf = vec![0u8; KES_BUF];
    let mut kseed = seed32(seed, 2);
    let (mut sk, pk) = Sum6Kes::keygen(&mut buf, &mut kseed);
    let mut kes_vk = [0u8; 32];
    kes_vk.copy_from_slice(pk.as_bytes());
    let mut kes_snap = vec![sk.clone_sk()];
    for _ in 0..MAX_EVO {
        sk.update().expect("KES update below the last period");
        kes_snap.push(sk.clone_sk());
    }
    let mut rng = ChaCha20Rng::from_seed(seed32(seed, 3));
    let init = Initializer::new(Parameters { m: 10, k: 5, phi_f: 0.2 }, 1, &mut rng);
    let vkpop = init.get_verification_key_proof_of_possession_for_concatenation().to_bytes();
    let pool_id = pool_id_of(&cold_vk);
    PoolMat { cold_sk, cold_vk, kes_vk, kes_snap, vkpop, pool_id }
}

impl PoolMat {
    fn kes_sign(&self, evolution: u32, msg: &[u8]) -> Vec<u8> {
        let mut buf = self.kes_snap[evolution.min(MAX_EVO) as usize].clone();
        let sk = Sum6Kes::from_bytes(&mut buf).expect("KES key snapshot");
        sk.sign(msg).to_bytes().to_vec()
    }
    fn cert_sign(&self, kes_vk: &[u8; 32], issue: u64, start: u64) -> [u8; 64] {
        self.cold_sk.sign(&cert_message(kes_vk, issue, start)).to_bytes()
    }
}

/// message signed by the cold key (Cardano operational certificate): KES vk ‖ issue number BE ‖ start period BE
fn cert_message(kes_vk: &[u8; 32], issue: u64, start: u64) -> [u8; 48] {
    let mut m = [0u8; 48];
    m[..32].copy_from_slice(kes_vk);
    m[32..40].copy_from_slice(&issue.to_be_bytes());
    m[40..].copy_from_slice(&start.to_be_bytes());
    m
}

/// own bech32 (BIP-173) encoder, independent of the crate used by the code under test
fn bech32(hrp: &str, data: &[u8]) -> String {
    const CHARSET: &[u8] = b"qpzry9x8gf2tvdw0s3jn54khce6mua7l";
    fn polymod(v: &[u8]) -> u32 {
        const G: [u32; 5] = [0x3b6a57b2, 0x26508e6d, 0x1ea119fa, 0x3d4233dd, 0x2a1462b3];
        let mut chk = 1u32;
        for x in v {
            let b = chk >> 25;
            chk = ((chk & 0x1ff_ffff) << 5) ^ (*x as u32);
            for (i, g) in G.iter().enumerate() {
                if (b >> i) & 1 == 1 {
                    chk ^= g;
                }
            }
        }
        chk
    }
    let mut values = vec![];
    let (mut acc, mut bits) = (0u32, 0u32);
    for b in data {
        acc = ((acc << 8) | *b as u32) & 0xfff;
        bits += 8;
        while bits >= 5 {
            bits -= 5;
            values.push(((acc >> bits) & 31) as u8);
        }
    }
    if bits > 0 {
        values.push(((acc << (5 - bits)) & 31) as u8);
    }
    let mut v: Vec<u8> = hrp.bytes().map(|c| c >> 5).collect();
    v.push(0);
    v.extend(hrp.bytes().map(|c| c & 31));
    v.extend(&values);
    v.extend([0u8; 6]);
    let pm = polymod(&v) ^ 1;
    let mut out = format!("{hrp}1");
    for x in &values {
        out.push(CHARSET[*x as usize] as char);
    }
    for i in 0..6 {
        out.push(CHARSET[((pm >> (5 * (5 - i))) & 31) as usize] as char);
    }
    out
}

/// pool id = bech32("pool", Blake2b-224(cold verification key))
pub fn pool_id_of(cold_vk: &[u8; 32]) -> String {
    let mut h = Blake2b::<U28>::new();
    h.update(cold_vk);
    bech32("pool", &h.finalize())
}

// ------------------------------------------------------------------------------------------- case model

#[derive(Clone, Debug, Serialize, Deserialize, PartialEq)]
pub struct PoolSpec {
    pub seed: u64,
    pub start: u64,
    pub issue: u64,
    pub e_sig: u8,
    /// stake in the round's distribution (None = pool absent)
    pub stake: Option<u64>,
}

#[derive(Clone, Copy, Debug, Serialize, Deserialize, PartialEq)]
pub enum Who {
    Own,
    Other,
    Fresh(u8),
}

#[derive(Clone, Copy, Debug, Serialize, Deserialize, PartialEq)]
pub enum EvoSel {
    /// the signing pool's own e_sig
    Sig,
    Abs(u8),
}

#[derive(Clone, Copy, Debug, Serialize, Deserialize, PartialEq)]
pub enum Payload {
    Current,
    VkOnly,
    PopOnly,
    Swapped,
    OtherPools,
    Suffix,
    Empty,
}

#[derive(Clone, Copy, Debug, Serialize, Deserialize, PartialEq)]
pub enum AnnSel {
    /// evolution of the current signature + d
    Rel(i8),
    Abs(u64),
    Missing,
}

#[derive(Clone, Copy, Debug, Serialize, Deserialize, PartialEq)]
pub enum ClaimSel {
    Others,
    Fresh(u8),
    Garbage,
    Empty,
    Missing,
}

#[derive(Clone, Copy, Debug, Serialize, Deserialize, PartialEq)]
pub enum Mut {
    CertKesVk(Who),
    CertKesVkFlip { byte: u8, bit: u8 },
    CertIssue(u64),
    CertStart(u64),
    CertSigFlip { byte: u8, bit: u8 },
    CertSigFrom(Who),
    ColdVk(Who),
    ColdVkFlip { byte: u8, bit: u8 },
    ResignCert(Who),
    WholeCert(Who),
    DropCert,
    KesSigFlip { pos: u16, bit: u8 },
    KesSigFrom(Who),
    ResignKes { who: Who, evo: EvoSel, over: Payload },
    DropKesSig,
    Announce(AnnSel),
    VkPop(Who),
    Vk(Who),
    Pop(Who),
    PopK1(Who),
    PopK2(Who),
    PopSwapHalves,
    VkPopFlip { pos: u8, bit: u8 },
    Claim(ClaimSel),
}

fn mut_name(m: &Mut) -> String {
    let s = format!("{m:?}");
    let head = s.split([' ', '{', '(']).next().unwrap_or("").to_string();
    let who = |w: &Who| match w {
        Who::Own => "Own",
        Who::Other => "Other",
        Who::Fresh(_) => "Fresh",
    };
    match m {
        Mut::CertKesVk(w) | Mut::CertSigFrom(w) | Mut::ColdVk(w) | Mut::ResignCert(w) | Mut::WholeCert(w) | Mut::KesSigFrom(w) | Mut::VkPop(w) | Mut::Vk(w) | Mut::Pop(w) | Mut::PopK1(w) | Mut::PopK2(w) => {
            format!("{head}:{}", who(w))
        }
        Mut::ResignKes { who: w, evo, over } => format!(
            "{head}:{}:{}:{over:?}",
            who(w),
            match evo {
                EvoSel::Sig => "sig".to_string(),
                EvoSel::Abs(e) if *e == 0 || *e == 1 || *e as u32 >= MAX_EVO - 1 => format!("abs{}", (*e as u32).min(MAX_EVO)),
                EvoSel::Abs(_) => "abs".to_string(),
            }
        ),
        Mut::Announce(a) => match a {
            AnnSel::Rel(d) => format!("{head}:rel{d:+}"),
            AnnSel::Abs(v) if *v <= 1 || (62..=66).contains(v) => format!("{head}:abs{v}"),
            AnnSel::Abs(v) if *v >= u32::MAX as u64 => format!("{head}:huge"),
            AnnSel::Abs(_) => format!("{head}:abs"),
            AnnSel::Missing => format!("{head}:missing"),
        },
        Mut::Claim(c) => format!("{head}:{}", format!("{c:?}").split('(').next().unwrap_or("")),
        _ => head,
    }
}

#[derive(Clone, Debug, Serialize, Deserialize, PartialEq)]
pub struct Attempt {
    pub base: u16,
    pub other: u16,
    pub muts: Vec<Mut>,
}

#[derive(Clone, Debug, Serialize, Deserialize, PartialEq)]
pub enum AttemptSpec {
    New(Attempt),
    /// submit an earlier attempt again, byte for byte
    Repeat { of: u16 },
    /// the key (vk‖PoP) of an earlier attempt, certified by `pool`'s own opcert and KES key
    SameKeyAs { of: u16, pool: u16 },
}

#[derive(Clone, Debug, Serialize, Deserialize)]
pub struct Case {
    pub pools: Vec<PoolSpec>,
    pub fresh: Vec<u64>,
    /// further pools of the distribution that never register: (seed of the cold key, stake)
    pub extra: Vec<(u64, u64)>,
    pub attempts: Vec<AttemptSpec>,
}

/// A registration as raw bytes (what goes over the wire).
#[derive(Clone, Debug, PartialEq)]
pub struct Reg {
    has_cert: bool,
    kes_vk: [u8; 32],
    issue: u64,
    start: u64,
    cert_sig: [u8; 64],
    cold_vk: [u8; 32],
    kes_sig: Option<Vec<u8>>,
    /// by construction: evolution at which the current KES signature was made (None = unknown after surgery)
    sig_evo: Option<u32>,
    vkpop: [u8; 192],
    announced: Option<u64>,
    claim: Option<String>,
}

fn honest_reg(p: &PoolSpec) -> Reg {
    let m = mat(p.seed);
    let e = (p.e_sig as u32).min(MAX_EVO);
    Reg {
        has_cert: true,
        kes_vk: m.kes_vk,
        issue: p.issue,
        start: p.start,
        cert_sig: m.cert_sign(&m.kes_vk, p.issue, p.start),
        cold_vk: m.cold_vk,
        kes_sig: Some(m.kes_sign(e, &m.vkpop)),
        sig_evo: Some(e),
        vkpop: m.vkpop,
        announced: Some(e as u64),
        claim: Some(m.pool_id.clone()),
    }
}

/// An honest, certified signer of pool `p` (used by the stake-distribution section of C11).
pub fn honest_signer_with_stake(p: &PoolSpec, stake: u64) -> mithril_common::entities::SignerWithStake {
    let reg = honest_reg(p);
    let t = typed(&reg).expect("honest registration decodes");
    mithril_common::entities::SignerWithStake {
        party_id: mat(p.seed).pool_id.clone(),
        verification_key_for_concatenation: ProtocolKey::new(t.vk),
        verification_key_signature_for_concatenation: t.sig.map(ProtocolKey::new),
        operational_certificate: t.opcert.map(ProtocolKey::new),
        kes_evolutions: reg.announced.map(KesEvolutions),
        stake,
    }
}

struct Ctx<'a> {
    own: &'a PoolSpec,
    other: &'a PoolSpec,
    fresh: &'a [u64],
}

impl Ctx<'_> {
    fn spec(&self, w: Who) -> PoolSpec {
        match w {
            Who::Own => self.own.clone(),
            Who::Other => self.other.clone(),
            Who::Fresh(i) => PoolSpec { seed: self.fresh[i as usize % self.fresh.len().max(1)], start: 0, issue: 0, e_sig: 0, stake: None },
        }
    }
}

/// apply one mutation; false = not applicable / no change
fn apply(reg: &mut Reg, m: &Mut, cx: &Ctx) -> bool {
    let before = reg.clone();
    match *m {
        Mut::CertKesVk(w) => reg.kes_vk = mat(cx.spec(w).seed).kes_vk,
        Mut::CertKesVkFlip { byte, bit } => reg.kes_vk[byte as usize % 32] ^= 1 << (bit % 8),
        Mut::CertIssue(v) => reg.issue = v,
        Mut::CertStart(v) => reg.start = v,
        Mut::CertSigFlip { byte, bit } => reg.cert_sig[byte as usize % 64] ^= 1 << (bit % 8),
        Mut::CertSigFrom(w) => {
            let s = cx.spec(w);
            let mm = mat(s.seed);
            reg.cert_sig = mm.cert_sign(&mm.kes_vk, s.issue, s.start);
        }
        Mut::ColdVk(w) => reg.cold_vk = mat(cx.spec(w).seed).cold_vk,
        Mut::ColdVkFlip { byte, bit } => reg.cold_vk[byte as usize % 32] ^= 1 << (bit % 8),
        Mut::ResignCert(w) => reg.cert_sig = mat(cx.spec(w).seed).cert_sign(&reg.kes_vk, reg.issue, reg.start),
        Mut::WholeCert(w) => {
            let h = honest_reg(&cx.spec(w));
            reg.kes_vk = h.kes_vk;
            reg.issue = h.issue;
            reg.start = h.start;
            reg.cert_sig = h.cert_sig;
            reg.cold_vk = h.cold_vk;
            reg.has_cert = true;
        }
        Mut::DropCert => reg.has_cert = false,
        Mut::KesSigFlip { pos, bit } => {
            let Some(s) = reg.kes_sig.as_mut() else { return false };
            let n = s.len();
            s[pos as usize % n] ^= 1 << (bit % 8);
            reg.sig_evo = None;
        }
        Mut::KesSigFrom(w) => {
            let h = honest_reg(&cx.spec(w));
            reg.kes_sig = h.kes_sig;
            reg.sig_evo = h.sig_evo;
        }
        Mut::ResignKes { who, evo, over } => {
            let s = cx.spec(who);
            let e = match evo {
                EvoSel::Sig => s.e_sig as u32,
                EvoSel::Abs(e) => e as u32,
            }
            .min(MAX_EVO);
            let msg: Vec<u8> = match over {
                Payload::Current => reg.vkpop.to_vec(),
                Payload::VkOnly => reg.vkpop[..96].to_vec(),
                Payload::PopOnly => reg.vkpop[96..].to_vec(),
                Payload::Swapped => [&reg.vkpop[96..], &reg.vkpop[..96]].concat(),
                Payload::OtherPools => mat(cx.other.seed).vkpop.to_vec(),
                Payload::Suffix => [&reg.vkpop[..], &[0u8][..]].concat(),
                Payload::Empty => vec![],
            };
            reg.kes_sig = Some(mat(s.seed).kes_sign(e, &msg));
            reg.sig_evo = Some(e);
            // a re-signature always counts as applied (it differs from the previous one unless it is the same
            // deterministic signature, which is a no-op)
        }
        Mut::DropKesSig => reg.kes_sig = None,
        Mut::Announce(a) => {
            reg.announced = match a {
                AnnSel::Rel(d) => {
                    let base = reg.sig_evo.unwrap_or(cx.own.e_sig as u32) as i64 + d as i64;
                    if base < 0 {
                        return false;
                    }
                    Some(base as u64)
                }
                AnnSel::Abs(v) => Some(v),
                AnnSel::Missing => None,
            }
        }
        Mut::VkPop(w) => reg.vkpop = mat(cx.spec(w).seed).vkpop,
        Mut::Vk(w) => reg.vkpop[..96].copy_from_slice(&mat(cx.spec(w).seed).vkpop[..96]),
        Mut::Pop(w) => reg.vkpop[96..].copy_from_slice(&mat(cx.spec(w).seed).vkpop[96..]),
        Mut::PopK1(w) => reg.vkpop[96..144].copy_from_slice(&mat(cx.spec(w).seed).vkpop[96..144]),
        Mut::PopK2(w) => reg.vkpop[144..].copy_from_slice(&mat(cx.spec(w).seed).vkpop[144..]),
        Mut::PopSwapHalves => {
            let (a, b): (Vec<u8>, Vec<u8>) = (reg.vkpop[96..144].to_vec(), reg.vkpop[144..].to_vec());
            reg.vkpop[96..144].copy_from_slice(&b);
            reg.vkpop[144..].copy_from_slice(&a);
        }
        Mut::VkPopFlip { pos, bit } => reg.vkpop[pos as usize % 192] ^= 1 << (bit % 8),
        Mut::Claim(c) => {
            reg.claim = match c {
                ClaimSel::Others => Some(mat(cx.other.seed).pool_id.clone()),
                ClaimSel::Fresh(i) => Some(mat(cx.spec(Who::Fresh(i)).seed).pool_id.clone()),
                ClaimSel::Garbage => Some("pool1notapoolidatall".to_string()),
                ClaimSel::Empty => Some(String::new()),
                ClaimSel::Missing => None,
            }
        }
    }
    *reg != before
}

// ------------------------------------------------------------------------------------------- the oracle

fn flag(viol: &mut Vec<(String, String)>, key: impl Into<String>, what: impl Into<String>) {
    viol.push((key.into(), what.into()));
}

/// report the first violation that is not the recorded narrow class (so that it can never mask another one)
fn commit(rep: &mut Report, viol: Vec<(String, String)>) {
    let pick = viol.iter().find(|v| v.0 != KEY_ALIAS).or(viol.first());
    if let Some((k, w)) = pick {
        rep.violation(k.clone(), w.clone());
    }
}

#[derive(Clone, Debug, Default)]
struct Conj {
    cert: bool,
    /// periods 0..=63 at which the KES signature verifies for (cert.kes_vk, vk‖pop)
    kes_at: Vec<u32>,
    kes: bool,
    pop: bool,
    dist: bool,
    fresh: bool,
    derived_id: String,
}

impl Conj {
    #[allow(dead_code)]
    fn all(&self) -> bool {
        self.cert && self.kes && self.pop && self.dist && self.fresh
    }
    fn broken(&self) -> Vec<&'static str> {
        let mut v = vec![];
        if !self.cert {
            v.push("opcert");
        }
        if !self.kes {
            v.push("kes");
        }
        if !self.pop {
            v.push("pop");
        }
        if !self.dist {
            v.push("dist");
        }
        if !self.fresh {
            v.push("dup");
        }
        v
    }
}

fn within_one(t: u32, announced: u64) -> bool {
    (t as u64).abs_diff(announced) <= 1
}

/// proof of possession, checked with blst directly: vk ∈ G2 valid, k1 = sig_sk("PoP"), e(k2, g2) = e(g1, vk)
fn pop_valid(vkpop: &[u8; 192]) -> bool {
    use blst::min_sig::{PublicKey, Signature};
    use blst::*;
    let Ok(pk) = PublicKey::from_bytes(&vkpop[..96]) else { return false };
    if pk.validate().is_err() {
        return false;
    }
    let Ok(k1) = Signature::from_bytes(&vkpop[96..144]) else { return false };
    if k1.verify(true, b"PoP", &[], &[], &pk, false) != BLST_ERROR::BLST_SUCCESS {
        return false;
    }
    unsafe {
        let mut k2 = blst_p1_affine::default();
        if blst_p1_uncompress(&mut k2, vkpop[144..].as_ptr()) != BLST_ERROR::BLST_SUCCESS {
            return false;
        }
        if !blst_p1_affine_in_g1(&k2) {
            return false;
        }
        let mut vk = blst_p2_affine::default();
        if blst_p2_uncompress(&mut vk, vkpop[..96].as_ptr()) != BLST_ERROR::BLST_SUCCESS {
            return false;
        }
        let g1 = *blst_p1_affine_generator();
        let g2 = *blst_p2_affine_generator();
        let lhs = blst_fp12::miller_loop(&vk, &g1);
        let rhs = blst_fp12::miller_loop(&g2, &k2);
        blst_fp12_finalverify(&lhs, &rhs)
    }
}

fn evaluate(reg: &Reg, announced: Option<u64>, dist: &BTreeMap<String, u64>, registered: &BTreeSet<Vec<u8>>) -> Conj {
    let mut c = Conj::default();
    // operational certificate signed by the cold key it names
    if reg.has_cert {
        if let Ok(vk) = VerifyingKey::from_bytes(&reg.cold_vk) {
            let sig = EdSignature::from_bytes(&reg.cert_sig);
            c.cert = vk.verify(&cert_message(&reg.kes_vk, reg.issue, reg.start), &sig).is_ok();
        }
        c.derived_id = pool_id_of(&reg.cold_vk);
    }
    // KES signature over vk‖pop by the certificate's KES key, at which evolutions?
    if let (true, Some(sig)) = (reg.has_cert, &reg.kes_sig) {
        if let (Ok(sig), Ok(pk)) = (Sum6KesSig::from_bytes(sig), KesPublicKey::from_bytes(&reg.kes_vk)) {
            for t in 0..=MAX_EVO {
                if sig.verify(t, &pk, &reg.vkpop).is_ok() {
                    c.kes_at.push(t);
                }
            }
        }
    }
    c.kes = match announced {
        Some(a) => c.kes_at.iter().any(|t| within_one(*t, a)),
        None => false,
    };
    c.pop = pop_valid(&reg.vkpop);
    c.dist = reg.has_cert && dist.contains_key(&c.derived_id);
    c.fresh = !registered.contains(&reg.vkpop[..96].to_vec());
    c
}

/// raw bytes → the typed objects of the code under test (None = a component does not even decode)
struct Typed {
    opcert: Option<OpCert>,
    vk: VerificationKeyProofOfPossessionForConcatenation,
    sig: Option<Sum6KesSig>,
}

fn typed(reg: &Reg) -> Result<Typed, String> {
    let opcert = if reg.has_cert {
        let o = OpCertWithoutColdVerificationKey::try_new(&reg.kes_vk, reg.issue, KesPeriod(reg.start), &reg.cert_sig).map_err(|e| format!("opcert: {e}"))?;
        let cold = VerifyingKey::from_bytes(&reg.cold_vk).map_err(|e| format!("cold vk: {e}"))?;
        Some(OpCert::from((o, cold)))
    } else {
        None
    };
    let vk = VerificationKeyProofOfPossessionForConcatenation::from_bytes(&reg.vkpop).map_err(|e| format!("vk/pop: {e}"))?;
    let sig = match &reg.kes_sig {
        Some(s) => Some(Sum6KesSig::from_bytes(s).map_err(|e| format!("kes sig: {e:?}"))?),
        None => None,
    };
    Ok(Typed { opcert, vk, sig })
}

fn window_label(c: &Conj, announced: Option<u64>) -> Option<String> {
    let a = announced?;
    if !(c.cert && c.pop && c.dist && c.fresh) || c.kes_at.len() != 1 {
        return None;
    }
    let d = c.kes_at[0] as i128 - a as i128;
    Some(if d.abs() <= 3 { format!("{d:+}") } else { "far".to_string() })
}

fn distribution(c: &Case) -> BTreeMap<String, u64> {
    let mut d = BTreeMap::new();
    for (seed, stake) in &c.extra {
        let cold = SigningKey::from_bytes(&seed32(*seed, 1)).verifying_key().to_bytes();
        d.insert(pool_id_of(&cold), *stake);
    }
    for p in &c.pools {
        if let Some(s) = p.stake {
            d.insert(mat(p.seed).pool_id.clone(), s);
        }
    }
    d
}

struct Resolved {
    reg: Reg,
    names: Vec<String>,
    kind: &'static str,
}

fn resolve(c: &Case, earlier: &[Resolved], spec: &AttemptSpec) -> Resolved {
    let n = c.pools.len();
    match spec {
        AttemptSpec::New(a) => {
            let bi = pick_index(a.base, n);
            let mut oi = pick_index(a.other, n.saturating_sub(1).max(1));
            if oi >= bi && n > 1 {
                oi = (oi + 1) % n;
            }
            if oi == bi && n > 1 {
                oi = (bi + 1) % n;
            }
            let cx = Ctx { own: &c.pools[bi], other: &c.pools[oi], fresh: &c.fresh };
            let mut reg = honest_reg(cx.own);
            let mut names = vec![];
            for m in &a.muts {
                if apply(&mut reg, m, &cx) {
                    names.push(mut_name(m));
                }
            }
            Resolved { reg, names, kind: "new" }
        }
        AttemptSpec::Repeat { of } => {
            if earlier.is_empty() {
                return Resolved { reg: honest_reg(&c.pools[0]), names: vec![], kind: "new" };
            }
            let e = &earlier[pick_index(*of, earlier.len())];
            Resolved { reg: e.reg.clone(), names: e.names.clone(), kind: "repeat" }
        }
        AttemptSpec::SameKeyAs { of, pool } => {
            let p = &c.pools[pick_index(*pool, n)];
            let mut reg = honest_reg(p);
            if let Some(e) = earlier.get(pick_index(*of, earlier.len().max(1))) {
                reg.vkpop = e.reg.vkpop;
            }
            reg.kes_sig = Some(mat(p.seed).kes_sign(p.e_sig as u32, &reg.vkpop));
            Resolved { reg, names: vec![], kind: "same-key-recertified" }
        }
    }
}

fn is_splice_a_sig_for_b_key(reg: &Reg, c: &Case) -> bool {
    // opcert + KES signature are the honest ones of one pool, the key is the honest key of another pool
    c.pools.iter().any(|a| {
        let ha = honest_reg(a);
        ha.cold_vk == reg.cold_vk
            && ha.cert_sig == reg.cert_sig
            && ha.kes_sig == reg.kes_sig
            && c.pools.iter().any(|b| b.seed != a.seed && mat(b.seed).vkpop == reg.vkpop)
    })
}

fn case_fn(c: &Case) -> Report {
    let mut rep = Report::new();
    let mut viol: Vec<(String, String)> = vec![];
    if c.pools.is_empty() || c.fresh.is_empty() {
        rep.discard("empty case");
        return rep;
    }
    let dist = distribution(c);
    let dist_vec: Vec<(String, u64)> = dist.iter().map(|(k, v)| (k.clone(), *v)).collect();
    let mut key_reg = KeyRegWrapper::init(&dist_vec);
    let mut registered: BTreeSet<Vec<u8>> = BTreeSet::new();
    let mut expected_closed: Vec<(Vec<u8>, u64)> = vec![];
    let mut resolved: Vec<Resolved> = vec![];
    let mut shapes = vec![];
    let mut any_mutation = false;
    for spec in &c.attempts {
        let r = resolve(c, &resolved, spec);
        let reg = r.reg.clone();
        let names = r.names.clone();
        let kind = r.kind;
        resolved.push(r);
        for nme in &names {
            rep.label(format!("mut:{nme}"));
        }
        rep.label(format!("attempt:{kind}"));
        if !names.is_empty() || kind != "new" {
            any_mutation = true;
        }
        let conj = evaluate(&reg, reg.announced, &dist, &registered);
        let t = match typed(&reg) {
            Ok(t) => t,
            Err(_) => {
                rep.label("rejected-at-decode");
                shapes.push(format!("{names:?}/{kind}/undecodable"));
                continue;
            }
        };
        let params = SignerRegistrationParameters {
            party_id: reg.claim.clone(),
            operational_certificate: t.opcert.map(ProtocolKey::new),
            verification_key_for_concatenation: ProtocolKey::new(t.vk),
            verification_key_signature_for_concatenation: t.sig.map(ProtocolKey::new),
            kes_evolutions: reg.announced.map(KesEvolutions),
        };
        let verdict = catch(|| key_reg.register(params));
        let accepted = match &verdict {
            Ok(Ok(_)) => true,
            Ok(Err(_)) => false,
            Err(_) => {
                rep.label("register-panicked");
                false
            }
        };
        let broken = conj.broken();
        if broken.len() == 1 {
            rep.label(format!("only-broken:{}", broken[0]));
        } else if broken.is_empty() {
            rep.label("all-conjuncts-hold");
        }
        let win = window_label(&conj, reg.announced);
        if let Some(w) = &win {
            rep.label(format!("window:{w}:{}", if accepted { "accepted" } else { "rejected" }));
            if let Some(t0) = conj.kes_at.first() {
                if *t0 == 0 || *t0 == MAX_EVO {
                    rep.label(format!("sig-evolution:{t0}"));
                }
            }
            if let Some(a) = reg.announced {
                if a >= MAX_EVO as u64 {
                    rep.label(format!("announced:{}", if a <= 66 { a.to_string() } else { "huge".into() }));
                }
            }
        }
        let splice = is_splice_a_sig_for_b_key(&reg, c);
        if splice {
            rep.label("splice:kes-signature-of-A-for-key-of-B");
        }
        if let Some(claim) = &reg.claim {
            if reg.has_cert && *claim != conj.derived_id {
                rep.label("claimed-party-differs");
            }
        }
        shapes.push(format!("{names:?}/{kind}/broken:{broken:?}/win:{win:?}/acc:{accepted}"));
        if !accepted {
            rep.label("rejected");
            if broken.is_empty() {
                // not a violation of the statement (which constrains acceptance only)
                rep.label(if names.is_empty() && kind == "new" { "honest-rejected" } else { "valid-variant-rejected" });
            }
            continue;
        }
        rep.label("accepted");
        if names.is_empty() && kind == "new" {
            rep.label("honest-accepted");
        }
        let describe = || format!("attempt {names:?} ({kind}) accepted; conjuncts {conj:?}; announced {:?}; claim {:?}", reg.announced, reg.claim);
        if !conj.cert {
            flag(&mut viol, "accepted-opcert-not-signed-by-cold-key", describe());
        } else if conj.kes_at.is_empty() {
            flag(&mut viol, "accepted-kes-signature-invalid-for-this-key", describe());
        } else if !conj.kes {
            let key = if conj.kes_at == [MAX_EVO] && reg.announced.is_some_and(|a| a > MAX_EVO as u64 + 1) {
                KEY_ALIAS
            } else {
                "accepted-kes-evolution-outside-window"
            };
            flag(&mut viol, key, describe());
        } else if !conj.pop {
            flag(&mut viol, "accepted-invalid-proof-of-possession", describe());
        } else if !conj.dist {
            flag(&mut viol, "accepted-pool-not-in-stake-distribution", describe());
        } else if !conj.fresh {
            flag(&mut viol, "accepted-key-already-registered", describe());
        }
        if let Ok(Ok(pid)) = &verdict {
            if *pid != conj.derived_id {
                flag(&mut viol, "returned-party-id-not-derived-from-cold-key", format!("returned {pid}, derived {}; {}", conj.derived_id, describe()));
            }
        }
        registered.insert(reg.vkpop[..96].to_vec());
        expected_closed.push((reg.vkpop[..96].to_vec(), dist.get(&conj.derived_id).copied().unwrap_or(u64::MAX)));
    }
    // recorded stakes
    let total: u128 = expected_closed.iter().map(|e| e.1 as u128).sum();
    match catch(|| key_reg.close(&Parameters { m: 10, k: 5, phi_f: 0.2 })) {
        Ok(Ok(closed)) => {
            let mut got: Vec<(Vec<u8>, u64)> = closed
                .closed_registration_entries
                .iter()
                .map(|e| (e.get_verification_key_for_concatenation().to_bytes().to_vec(), e.get_stake()))
                .collect();
            got.sort();
            let mut want = expected_closed.clone();
            want.sort();
            if got != want {
                let gs: Vec<u64> = got.iter().map(|g| g.1).collect();
                let ws: Vec<u64> = want.iter().map(|g| g.1).collect();
                flag(&mut viol, 
                    "recorded-stake-not-the-distribution-value",
                    format!("closed registration holds stakes {gs:?} (by key order), the distribution gives {ws:?} for the accepted pools; attempts {shapes:?}"),
                );
            } else if !want.is_empty() {
                rep.label("closed-registration-checked");
            }
        }
        Ok(Err(_)) => {
            rep.label(if total == 0 { "close-refused:zero-total" } else { "close-refused:other" });
            if total != 0 && total <= u64::MAX as u128 {
                rep.label("close-refused-unexpectedly");
            }
        }
        Err(_) => {
            rep.label("close-panicked");
        }
    }
    if any_mutation {
        rep.nontrivial(shapes.join(" ; "));
    }
    commit(&mut rep, viol);
    rep
}

// ------------------------------------------------------------------------------- aggregator verifier

#[derive(Clone, Debug, Serialize, Deserialize)]
pub struct AggCase {
    pub pools: Vec<PoolSpec>,
    pub fresh: Vec<u64>,
    pub extra: Vec<(u64, u64)>,
    pub attempt: Attempt,
    /// current KES period of the chain = start period of the submitted certificate + evolution of the signature + d
    pub period: PeriodSel,
    /// the verifier is long-lived: before the attempt it has verified the GENUINE registration of every pool of the
    /// case (whatever it remembers from them must not help a later splice)
    #[serde(default)]
    pub warm: bool,
}

#[derive(Clone, Copy, Debug, Serialize, Deserialize)]
pub enum PeriodSel {
    Rel(i8),
    Abs(u64),
    Unknown,
}

struct Observer(Option<u64>);

#[async_trait::async_trait]
impl mithril_cardano_node_chain::chain_observer::ChainObserver for Observer {
    async fn get_current_datums(
        &self,
        _address: &mithril_cardano_node_chain::entities::ChainAddress,
    ) -> Result<Vec<mithril_cardano_node_chain::entities::TxDatum>, mithril_cardano_node_chain::chain_observer::ChainObserverError> {
        Ok(vec![])
    }
    async fn get_current_era(&self) -> Result<Option<String>, mithril_cardano_node_chain::chain_observer::ChainObserverError> {
        Ok(None)
    }
    async fn get_current_epoch(&self) -> Result<Option<mithril_common::entities::Epoch>, mithril_cardano_node_chain::chain_observer::ChainObserverError> {
        Ok(None)
    }
    async fn get_current_chain_point(&self) -> Result<Option<mithril_common::entities::ChainPoint>, mithril_cardano_node_chain::chain_observer::ChainObserverError> {
        Ok(None)
    }
    async fn get_current_stake_distribution(
        &self,
    ) -> Result<Option<mithril_common::entities::StakeDistribution>, mithril_cardano_node_chain::chain_observer::ChainObserverError> {
        Ok(None)
    }
    async fn get_current_kes_period(&self) -> Result<Option<KesPeriod>, mithril_cardano_node_chain::chain_observer::ChainObserverError> {
        Ok(self.0.map(KesPeriod))
    }
}

fn agg_case(c: &AggCase) -> Report {
    use mithril_aggregator::{MithrilSignerRegistrationVerifier, SignerRegistrationVerifier};
    let mut rep = Report::new();
    let mut viol: Vec<(String, String)> = vec![];
    if c.pools.is_empty() || c.fresh.is_empty() {
        rep.discard("empty case");
        return rep;
    }
    let as_case = Case { pools: c.pools.clone(), fresh: c.fresh.clone(), extra: c.extra.clone(), attempts: vec![] };
    let dist = distribution(&as_case);
    let r = resolve(&as_case, &[], &AttemptSpec::New(c.attempt.clone()));
    let (reg, names) = (r.reg, r.names);
    for nme in &names {
        rep.label(format!("agg-mut:{nme}"));
    }
    let period = match c.period {
        PeriodSel::Rel(d) => {
            let p = reg.start as i128 + reg.sig_evo.unwrap_or(0) as i128 + d as i128;
            if p < 0 || p > u64::MAX as i128 {
                rep.discard("period out of range");
                return rep;
            }
            Some(p as u64)
        }
        PeriodSel::Abs(v) => Some(v),
        PeriodSel::Unknown => None,
    };
    // the evolution the aggregator holds the signature against: chain period − certificate start period (documented
    // in the verifier), 0 when the chain gives no period
    let reference = if reg.has_cert { Some(period.unwrap_or(0).saturating_sub(reg.start)) } else { None };
    let conj = evaluate(&reg, reference, &dist, &BTreeSet::new());
    let t = match typed(&reg) {
        Ok(t) => t,
        Err(_) => {
            rep.label("agg-rejected-at-decode");
            return rep;
        }
    };
    let signer = mithril_common::entities::Signer {
        party_id: reg.claim.clone().unwrap_or_default(),
        verification_key_for_concatenation: ProtocolKey::new(t.vk),
        verification_key_signature_for_concatenation: t.sig.map(ProtocolKey::new),
        operational_certificate: t.opcert.map(ProtocolKey::new),
        kes_evolutions: reg.announced.map(KesEvolutions),
    };
    let verifier = MithrilSignerRegistrationVerifier::new(Arc::new(Observer(period)));
    let rt = tokio::runtime::Builder::new_current_thread().enable_all().build().expect("runtime");
    if c.warm {
        rep.label("agg-warm-verifier");
        for p in 0..c.pools.len() {
            let base = ((p as u32 * 65536 / c.pools.len() as u32) as u16).saturating_add(1);
            let g = resolve(&as_case, &[], &AttemptSpec::New(Attempt { base, other: 0, muts: vec![] }));
            if let Ok(t) = typed(&g.reg) {
                let genuine = mithril_common::entities::Signer {
                    party_id: g.reg.claim.clone().unwrap_or_default(),
                    verification_key_for_concatenation: ProtocolKey::new(t.vk),
                    verification_key_signature_for_concatenation: t.sig.map(ProtocolKey::new),
                    operational_certificate: t.opcert.map(ProtocolKey::new),
                    kes_evolutions: g.reg.announced.map(KesEvolutions),
                };
                if let Ok(Ok(_)) = catch(|| rt.block_on(verifier.verify(&genuine, &dist))) {
                    rep.label("agg-warm-verifier:genuine-accepted");
                }
            }
        }
    }
    let verdict = catch(|| rt.block_on(verifier.verify(&signer, &dist)));
    let broken = conj.broken();
    if broken.len() == 1 {
        rep.label(format!("agg-only-broken:{}", broken[0]));
    }
    let win = window_label(&conj, reference);
    let accepted = matches!(verdict, Ok(Ok(_)));
    if let Some(w) = &win {
        rep.label(format!("agg-window:{w}:{}", if accepted { "accepted" } else { "rejected" }));
    }
    if matches!(verdict, Err(_)) {
        rep.label("agg-verify-panicked");
    }
    rep.nontrivial(format!("agg {names:?} period:{:?} broken:{broken:?} win:{win:?} acc:{accepted}", match c.period {
        PeriodSel::Rel(d) => format!("rel{d}"),
        PeriodSel::Abs(v) => format!("abs{}", if v > 70 { 999 } else { v }),
        PeriodSel::Unknown => "unknown".into(),
    }));
    let Ok(Ok(sws)) = verdict else {
        rep.label("agg-rejected");
        if broken.is_empty() {
            rep.label("agg-valid-rejected");
        }
        return rep;
    };
    rep.label("agg-accepted");
    let describe = || format!("aggregator verifier accepted {names:?}; chain period {period:?}, certificate start {}, conjuncts {conj:?}; claim {:?}", reg.start, reg.claim);
    if !conj.cert {
        flag(&mut viol, "agg-accepted-opcert-not-signed-by-cold-key", describe());
    } else if conj.kes_at.is_empty() {
        flag(&mut viol, "agg-accepted-kes-signature-invalid-for-this-key", describe());
    } else if !conj.kes {
        let key = if conj.kes_at == [MAX_EVO] && reference.is_some_and(|a| a > MAX_EVO as u64 + 1) {
            KEY_ALIAS
        } else {
            "agg-accepted-kes-evolution-outside-window"
        };
        flag(&mut viol, key, describe());
    } else if !conj.pop {
        flag(&mut viol, "agg-accepted-invalid-proof-of-possession", describe());
    } else if !conj.dist {
        flag(&mut viol, "agg-accepted-pool-not-in-stake-distribution", describe());
    }
    if sws.party_id != conj.derived_id {
        flag(&mut viol, "agg-recorded-party-id-not-derived-from-cold-key", format!("recorded {}, derived {}; {}", sws.party_id, conj.derived_id, describe()));
    }
    if Some(sws.stake) != dist.get(&conj.derived_id).copied() {
        flag(&mut viol, 
            "agg-recorded-stake-not-the-distribution-value",
            format!("recorded stake {}, distribution[{}] = {:?}; {}", sws.stake, conj.derived_id, dist.get(&conj.derived_id), describe()),
        );
    }
    if sws.verification_key_for_concatenation.to_bytes() != reg.vkpop {
        flag(&mut viol, "agg-recorded-key-differs", describe());
    }
    if reg.claim.as_deref() != Some(conj.derived_id.as_str()) {
        rep.label("agg-accepted-with-foreign-claim");
    }
    commit(&mut rep, viol);
    rep
}

// ------------------------------------------------------------------------------------------- strategies

fn who() -> impl Strategy<Value = Who> {
    prop_oneof![4 => Just(Who::Other), 1 => Just(Who::Own), 2 => (0u8..4).prop_map(Who::Fresh)]
}

fn evo_sel() -> impl Strategy<Value = EvoSel> {
    prop_oneof![3 => Just(EvoSel::Sig), 1 => Just(EvoSel::Abs(0)), 1 => Just(EvoSel::Abs(1)), 1 => Just(EvoSel::Abs(62)), 1 => Just(EvoSel::Abs(63)), 2 => (0u8..64).prop_map(EvoSel::Abs)]
}

fn ann_sel() -> impl Strategy<Value = AnnSel> {
    prop_oneof![
        10 => (-2i8..=2).prop_map(AnnSel::Rel),
        1 => (-4i8..=4).prop_map(AnnSel::Rel),
        4 => prop::sample::select(vec![0u64, 1, 62, 63, 64, 65, 66]).prop_map(AnnSel::Abs),
        2 => prop::sample::select(vec![u64::MAX, u64::MAX - 1, u32::MAX as u64, u32::MAX as u64 + 1, u32::MAX as u64 + 63, (1u64 << 32) + 64]).prop_map(AnnSel::Abs),
        1 => (0u64..80).prop_map(AnnSel::Abs),
        1 => Just(AnnSel::Missing),
    ]
}

fn payload() -> impl Strategy<Value = Payload> {
    prop_oneof![
        5 => Just(Payload::Current),
        2 => Just(Payload::VkOnly),
        1 => Just(Payload::PopOnly),
        1 => Just(Payload::Swapped),
        1 => Just(Payload::OtherPools),
        1 => Just(Payload::Suffix),
        1 => Just(Payload::Empty),
    ]
}

fn small_or_edge_u64() -> impl Strategy<Value = u64> {
    prop_oneof![Just(0u64), Just(1), Just(63), Just(64), Just(u64::MAX), 0u64..200, any::<u64>()]
}

fn mut_strategy() -> impl Strategy<Value = Mut> {
    prop_oneof![
        2 => who().prop_map(Mut::CertKesVk),
        1 => (any::<u8>(), any::<u8>()).prop_map(|(byte, bit)| Mut::CertKesVkFlip { byte, bit }),
        2 => small_or_edge_u64().prop_map(Mut::CertIssue),
        2 => small_or_edge_u64().prop_map(Mut::CertStart),
        2 => (any::<u8>(), any::<u8>()).prop_map(|(byte, bit)| Mut::CertSigFlip { byte, bit }),
        2 => who().prop_map(Mut::CertSigFrom),
        3 => who().prop_map(Mut::ColdVk),
        1 => (any::<u8>(), any::<u8>()).prop_map(|(byte, bit)| Mut::ColdVkFlip { byte, bit }),
        3 => who().prop_map(Mut::ResignCert),
        2 => who().prop_map(Mut::WholeCert),
        1 => Just(Mut::DropCert),
        2 => (any::<u16>(), any::<u8>()).prop_map(|(pos, bit)| Mut::KesSigFlip { pos, bit }),
        3 => who().prop_map(Mut::KesSigFrom),
        6 => (who(), evo_sel(), payload()).prop_map(|(who, evo, over)| Mut::ResignKes { who, evo, over }),
        1 => Just(Mut::DropKesSig),
        8 => ann_sel().prop_map(Mut::Announce),
        4 => who().prop_map(Mut::VkPop),
        2 => who().prop_map(Mut::Vk),
        2 => who().prop_map(Mut::Pop),
        1 => who().prop_map(Mut::PopK1),
        1 => who().prop_map(Mut::PopK2),
        1 => Just(Mut::PopSwapHalves),
        1 => (any::<u8>(), any::<u8>()).prop_map(|(pos, bit)| Mut::VkPopFlip { pos, bit }),
        3 => prop_oneof![3 => Just(ClaimSel::Others), 1 => (0u8..4).prop_map(ClaimSel::Fresh), 1 => Just(ClaimSel::Garbage), 1 => Just(ClaimSel::Empty), 1 => Just(ClaimSel::Missing)].prop_map(Mut::Claim),
    ]
}

/// mutation lists: single mutations, free pairs/triples, and the composites that break exactly one conjunct
fn muts_strategy() -> impl Strategy<Value = Vec<Mut>> {
    let resign_own = Mut::ResignKes { who: Who::Own, evo: EvoSel::Sig, over: Payload::Current };
    prop_oneof![
        2 => Just(vec![]),
        12 => mut_strategy().prop_map(|m| vec![m]),
        5 => prop::collection::vec(mut_strategy(), 2..=3),
        // a key/PoP alteration re-certified by the own KES key: only the PoP / only the duplicate check can object
        4 => (prop_oneof![who().prop_map(Mut::Pop), who().prop_map(Mut::PopK1), who().prop_map(Mut::PopK2), who().prop_map(Mut::Vk), who().prop_map(Mut::VkPop), Just(Mut::PopSwapHalves)])
            .prop_map(move |m| vec![m, resign_own]),
        // an opcert field changed and re-signed by own / other / fresh cold key (without and with naming that key)
        4 => (prop_oneof![small_or_edge_u64().prop_map(Mut::CertIssue), small_or_edge_u64().prop_map(Mut::CertStart), who().prop_map(Mut::CertKesVk)], who(), any::<bool>())
            .prop_map(|(m, w, name_it)| if name_it { vec![m, Mut::ColdVk(w), Mut::ResignCert(w)] } else { vec![m, Mut::ResignCert(w)] }),
        // signature made at a boundary evolution, announced around it
        5 => (prop::sample::select(vec![0u8, 1, 2, 31, 32, 61, 62, 63]), -3i8..=3)
            .prop_map(|(e, d)| vec![Mut::ResignKes { who: Who::Own, evo: EvoSel::Abs(e), over: Payload::Current }, Mut::Announce(AnnSel::Rel(d))]),
        2 => (prop::sample::select(vec![60u8, 61, 62, 63]), prop::sample::select(vec![62u64, 63, 64, 65, 66, 67, u64::MAX]))
            .prop_map(|(e, a)| vec![Mut::ResignKes { who: Who::Own, evo: EvoSel::Abs(e), over: Payload::Current }, Mut::Announce(AnnSel::Abs(a))]),
        // the other pool certifies this pool's key with its own material (valid unless that key is registered)
        2 => Just(vec![Mut::WholeCert(Who::Other), Mut::ResignKes { who: Who::Other, evo: EvoSel::Sig, over: Payload::Current }, Mut::Announce(AnnSel::Rel(0))]),
    ]
}

fn stake_strategy() -> impl Strategy<Value = u64> {
    prop_oneof![1 => Just(0u64), 1 => Just(1u64), 4 => 1u64..1_000_000, 2 => 1u64..(1u64 << 50)]
}

fn pool_spec(seeds: Vec<u64>) -> impl Strategy<Value = PoolSpec> {
    (
        prop::sample::select(seeds),
        prop_oneof![3 => Just(0u64), 2 => 0u64..1000, 1 => Just(u64::MAX - 64), 1 => Just(u64::MAX)],
        prop_oneof![3 => Just(0u64), 1 => 0u64..10, 1 => Just(u64::MAX)],
        prop_oneof![2 => Just(0u8), 1 => Just(1u8), 1 => Just(2u8), 1 => Just(61u8), 1 => Just(62u8), 2 => Just(63u8), 4 => 0u8..64],
        prop_oneof![6 => stake_strategy().prop_map(Some), 1 => Just(None)],
    )
        .prop_map(|(seed, start, issue, e_sig, stake)| PoolSpec { seed, start, issue, e_sig, stake })
}

fn pools_strategy(seeds: Vec<u64>, min: usize, max: usize) -> impl Strategy<Value = Vec<PoolSpec>> {
    prop::collection::vec(pool_spec(seeds), min..=max).prop_map(|mut v| {
        // distinct pools
        let mut seen = BTreeSet::new();
        v.retain(|p| seen.insert(p.seed));
        v
    })
}

fn attempt_strategy() -> impl Strategy<Value = Attempt> {
    (any::<u16>(), any::<u16>(), muts_strategy()).prop_map(|(base, other, muts)| Attempt { base, other, muts })
}

fn case_strategy(seeds: Vec<u64>, fresh: Vec<u64>) -> impl Strategy<Value = Case> {
    let spec = prop_oneof![
        10 => attempt_strategy().prop_map(AttemptSpec::New),
        2 => any::<u16>().prop_map(|of| AttemptSpec::Repeat { of }),
        2 => (any::<u16>(), any::<u16>()).prop_map(|(of, pool)| AttemptSpec::SameKeyAs { of, pool }),
    ];
    (
        pools_strategy(seeds, 2, 4),
        prop::collection::vec((1u64 << 40..(1u64 << 40) + 50, stake_strategy()), 0..4),
        prop::collection::vec(spec, 1..=5),
    )
        .prop_filter("two distinct pools", |(p, _, _)| p.len() >= 2)
        .prop_map(move |(pools, extra, attempts)| Case { pools, fresh: fresh.clone(), extra, attempts })
}

fn agg_strategy(seeds: Vec<u64>, fresh: Vec<u64>) -> impl Strategy<Value = AggCase> {
    (
        pools_strategy(seeds, 2, 3),
        prop::collection::vec((1u64 << 40..(1u64 << 40) + 50, stake_strategy()), 0..3),
        attempt_strategy(),
        prop_oneof![
            8 => (-2i8..=2).prop_map(PeriodSel::Rel),
            2 => (-5i8..=5).prop_map(PeriodSel::Rel),
            2 => prop::sample::select(vec![0u64, 1, 62, 63, 64, 65, 66, u64::MAX]).prop_map(PeriodSel::Abs),
            1 => Just(PeriodSel::Unknown),
        ],
    )
        .prop_filter("two distinct pools", |(p, _, _, _)| p.len() >= 2)
        .prop_map(move |(pools, extra, attempt, period)| AggCase { pools, fresh: fresh.clone(), extra, attempt, period, warm: false })
        .prop_flat_map(|c| any::<bool>().prop_map(move |warm| AggCase { warm, ..c.clone() }))
}

/// per-run pool of operator seeds (pure function of the run seed); the material is built once, in parallel
fn build_seeds(seed: u64, n: usize, tag: u64, threads: usize) -> Vec<u64> {
    let seeds: Vec<u64> = (0..n).map(|i| mix(seed, tag + i as u64) >> 1).collect();
    let next = std::sync::atomic::AtomicUsize::new(0);
    std::thread::scope(|sc| {
        for _ in 0..threads.max(1) {
            sc.spawn(|| loop {
                let i = next.fetch_add(1, std::sync::atomic::Ordering::Relaxed);
                if i >= seeds.len() {
                    break;
                }
                let _ = mat(seeds[i]);
            });
        }
    });
    seeds
}

fn self_test() -> Result<(), String> {
    // bech32 + Blake2b-224 against the vector of the repository's own operational-certificate test
    let want = "pool1mxyec46067n3querj9cxkk0g0zlag93pf3ya9vuyr3wgkq2e6t7";
    let got = bech32("pool", &hex::decode("d9899c574fd7a710732391706b59e878bfd416214c49d2b3841c5c8b").unwrap());
    if got != want {
        return Err(format!("own bech32 encoder disagrees with the reference vector: {got}"));
    }
    let m = mat(0x5e1f);
    if !pop_valid(&m.vkpop) {
        return Err("own PoP check rejects an honest key".into());
    }
    let mut bad = m.vkpop;
    bad[96..].copy_from_slice(&mat(0x5e20).vkpop[96..]);
    if pop_valid(&bad) {
        return Err("own PoP check accepts a foreign PoP".into());
    }
    let sig = Sum6KesSig::from_bytes(&m.kes_sign(5, b"x")).map_err(|e| format!("{e:?}"))?;
    let pk = KesPublicKey::from_bytes(&m.kes_vk).map_err(|e| format!("{e:?}"))?;
    let at: Vec<u32> = (0..=MAX_EVO).filter(|t| sig.verify(*t, &pk, b"x").is_ok()).collect();
    if at != [5] || KES_SIG != Sum6KesSig::SIZE {
        return Err(format!("KES reference: signature made at 5 verifies at {at:?}"));
    }
    Ok(())
}

pub fn run(args: &Args) -> i32 {
    let mut check = Check::new("C07", "exploration", args);
    check
        .rule("rounds of 1..5 registration attempts over 2..4 pools (real cold key, opcert, KES Sum6 key at evolution e_sig incl. 0/1/62/63, BLS key + PoP) and a stake distribution containing / missing the pools; each attempt = honest registration rewritten by 0..3 grammar mutations (every opcert field without / with re-signing by own, other or fresh cold key; KES signature flipped / borrowed / re-made by own, other, fresh KES key at any evolution over 7 payload variants; announced evolution e±0..4, 0, 62..66, >2^32, u64::MAX, missing; vk / PoP / k1 / k2 replaced or flipped with and without KES re-certification; claimed party id), byte-exact repeats and the same key re-certified by another pool; second section: single attempts through the aggregator's MithrilSignerRegistrationVerifier with the chain KES period around start+e_sig. Non-trivial = at least one applied mutation / repeat; distinct by (applied mutation names, broken conjunct set, window offset, verdict) of all attempts of the round")
        .assume("trusted base: ed25519-dalek, kes-summed-ed25519 (periods 0..=63 only), blst, Blake2b; structural adversary (no forgeries); production configuration (allow_skip_signer_certification off, future_snark off)")
        .assume("the aggregator section takes 'the announced evolution' to be chain KES period − certificate start period (saturating), as documented in the verifier; duplicate keys across different pools are not observable at the verifier (fresh KeyRegWrapper per call)")
        .require_label("honest-accepted")
        .require_label("accepted")
        .require_label("rejected")
        .require_label("only-broken:opcert")
        .require_label("only-broken:kes")
        .require_label("only-broken:pop")
        .require_label("only-broken:dist")
        .require_label("only-broken:dup")
        .require_label("window:-1:accepted")
        .require_label("window:+1:accepted")
        .require_label("window:-2:rejected")
        .require_label("window:+2:rejected")
        .require_label("sig-evolution:0")
        .require_label("sig-evolution:63")
        .require_label("announced:64")
        .require_label("announced:65")
        .require_label("splice:kes-signature-of-A-for-key-of-B")
        .require_label("claimed-party-differs")
        .require_label("closed-registration-checked")
        .require_label("attempt:repeat")
        .require_label("attempt:same-key-recertified")
        .require_label("agg-accepted")
        .require_label("agg-rejected")
        .require_label("agg-only-broken:kes")
        .require_label("agg-only-broken:dist")
        .require_label("agg-accepted-with-foreign-claim");
    let t = check.tier;
    check.shrink_iters(400);
    if let Err(e) = self_test() {
        check.inconclusive(format!("harness self-test failed: {e}"));
        return check.finish();
    }
    let scale = if check.is_replay() { 0 } else { 1 };
    let seeds = build_seeds(check.seed, (scale * t.pick(24, 400) as usize).max(2), 0xC07, check.threads);
    let fresh = build_seeds(check.seed, 4, 0xF4E5, check.threads);
    check.note_section("pool", json!({"operators": seeds.len(), "fresh": fresh.len()}));
    check.section("rounds", || case_strategy(seeds.clone(), fresh.clone()), t.pick(4000, 100_000), case_fn);
    check.section("aggregator-verifier", || agg_strategy(seeds.clone(), fresh.clone()), t.pick(2000, 50_000), agg_case);
    check.witness(KEY_ALIAS, "a KES signature made at evolution 63 is accepted although evolution 65 is announced", || {
        let p = PoolSpec { seed: 0xA11A5, start: 0, issue: 0, e_sig: 63, stake: Some(10) };
        let mut reg = honest_reg(&p);
        reg.announced = Some(65);
        let t = typed(&reg).expect("honest registration decodes");
        let mut key_reg = KeyRegWrapper::init(&vec![(mat(p.seed).pool_id.clone(), 10)]);
        key_reg
            .register(SignerRegistrationParameters {
                party_id: reg.claim.clone(),
                operational_certificate: t.opcert.map(ProtocolKey::new),
                verification_key_for_concatenation: ProtocolKey::new(t.vk),
                verification_key_signature_for_concatenation: t.sig.map(ProtocolKey::new),
                kes_evolutions: Some(KesEvolutions(65)),
            })
            .is_ok()
    });
    check.finish()
}
