//! C17 — Beacons to sign respect the security margin, are monotone and agreed by all.
//!
//! Oracle = the clauses of the statement, evaluated with u128 arithmetic in the harness:
//!   (a) b <= max(tip - k, 0)
//!   (b) tip1 <= tip2  =>  b(tip1) <= b(tip2)
//!   (c) blocks/transactions entity: b ≡ 0 (mod max(step,1)); transaction entity: b = 0 or b+1 ≡ 0 (mod adj)
//!       with adj = max(15*floor(step/15), 15)  ("moves only in whole signing steps")
//!   (d) transaction entity, once tip - k >= adj: b != 0 and b+1 is a multiple of the block range length 15
//!   (e) `time_point_to_signed_entity` is a pure function of (time point, config): independently constructed equal
//!       configs, JSON round-tripped configs (the signer receives its config from the aggregator as JSON) and
//!       repeated calls agree; `Err` only for the documented epoch-0 Cardano stake distribution.
//!   (f) the beacon of one entity type does not depend on what the OTHER transactions-like type is configured with
//!       (other security parameter / step, or not configured): the margin applied is the configured one.
//! No panic / overflow on the whole domain (harness is built with overflow checks).

use std::collections::BTreeSet;

use mithril_common::entities::{
    BlockNumber, BlockNumberOffset, CardanoBlocksTransactionsSigningConfig, CardanoTransactionsSigningConfig,
    ChainPoint, Epoch, SignedEntityConfig, SignedEntityType, SignedEntityTypeDiscriminants, SlotNumber, TimePoint,
};
use proptest::prelude::*;
use serde::{Deserialize, Serialize};
use vcore::{Args, Check, Report, catch};

const RANGE: u128 = 15;

#[derive(Clone, Debug, Serialize, Deserialize)]
struct BoxCase {
    k: u64,
    step: u64,
    max_tip: u64,
}

#[derive(Clone, Debug, Serialize, Deserialize)]
struct RandCase {
    tip: u64,
    delta: u64,
    k: u64,
    step: u64,
    epoch: u64,
    immutable: u64,
    /// parameters of the OTHER transactions-like entity type in the mixed configurations of clause (f)
    #[serde(default)]
    k_other: u64,
    #[serde(default)]
    step_other: u64,
}

fn adj(step: u64) -> u128 {
    std::cmp::max((step as u128 / RANGE) * RANGE, RANGE)
}

fn class(v: u64) -> &'static str {
    match v {
        0 => "0",
        1 => "1",
        2..=14 => "lt15",
        15 => "15",
        16..=29 => "16-29",
        30 => "30",
        31..=1000 => "small",
        _ if v < (1 << 20) => "mid",
        _ if v < (1 << 33) => "2^32ish",
        _ => "huge",
    }
}

fn config(k: u64, step: u64) -> SignedEntityConfig {
    config2(Some((k, step)), Some((k, step)))
}

/// each of the two transactions-like entity types with its own (security parameter, step), or not configured
fn config2(tx: Option<(u64, u64)>, blocks: Option<(u64, u64)>) -> SignedEntityConfig {
    SignedEntityConfig {
        allowed_discriminants: SignedEntityTypeDiscriminants::all(),
        cardano_transactions_signing_config: tx.map(|(k, step)| CardanoTransactionsSigningConfig {
            security_parameter: BlockNumberOffset(k),
            step: BlockNumber(step),
        }),
        cardano_blocks_transactions_signing_config: blocks.map(|(k, step)| CardanoBlocksTransactionsSigningConfig {
            security_parameter: BlockNumberOffset(k),
            step: BlockNumber(step),
        }),
    }
}

fn time_point(epoch: u64, immutable: u64, tip: u64) -> TimePoint {
    TimePoint {
        epoch: Epoch(epoch),
        immutable_file_number: immutable,
        chain_point: ChainPoint {
            slot_number: SlotNumber(tip.wrapping_mul(20)),
            block_number: BlockNumber(tip),
            block_hash: format!("hash-{tip}"),
        },
    }
}

/// (transactions beacon, blocks-transactions beacon) through the public entry point
fn beacons(cfg: &SignedEntityConfig, tp: &TimePoint) -> Result<(u64, u64, u64), String> {
    let ctx = cfg
        .time_point_to_signed_entity(SignedEntityTypeDiscriminants::CardanoTransactions, tp)
        .map_err(|e| format!("ctx err {e}"))?;
    let cbt = cfg
        .time_point_to_signed_entity(SignedEntityTypeDiscriminants::CardanoBlocksTransactions, tp)
        .map_err(|e| format!("cbt err {e}"))?;
    let b1 = match ctx {
        SignedEntityType::CardanoTransactions(e, b) if e == tp.epoch => *b,
        other => return Err(format!("unexpected entity {other:?}")),
    };
    let (b2, off) = match cbt {
        SignedEntityType::CardanoBlocksTransactions(e, b, o) if e == tp.epoch => (*b, *o),
        other => return Err(format!("unexpected entity {other:?}")),
    };
    Ok((b1, b2, off))
}

/// clauses (a), (c), (d) for one (tip,k,step)
fn check_point(rep: &mut Report, tip: u64, k: u64, step: u64, b_tx: u64, b_blk: u64, off: u64) {
    let margin = (tip as u128).saturating_sub(k as u128);
    if b_tx as u128 > margin {
        rep.violation("margin-tx", format!("tip={tip} k={k} step={step}: transactions beacon {b_tx} > tip-k={margin}"));
    }
    if b_blk as u128 > margin {
        rep.violation("margin-blocks", format!("tip={tip} k={k} step={step}: blocks beacon {b_blk} > tip-k={margin}"));
    }
    let s = std::cmp::max(step as u128, 1);
    if (b_blk as u128) % s != 0 {
        rep.violation("step-blocks", format!("tip={tip} k={k} step={step}: blocks beacon {b_blk} not a multiple of the step"));
    }
    let a = adj(step);
    if b_tx != 0 && (b_tx as u128 + 1) % a != 0 {
        rep.violation("step-tx", format!("tip={tip} k={k} step={step}: transactions beacon {b_tx}+1 not a multiple of adjusted step {a}"));
    }
    if margin >= a {
        if b_tx == 0 || (b_tx as u128 + 1) % RANGE != 0 {
            rep.violation(
                "range-boundary",
                format!("tip={tip} k={k} step={step}: transactions beacon {b_tx} does not end a complete block range although tip-k={margin} >= {a}"),
            );
        }
    }
    if off != k {
        rep.violation("offset", format!("blocks entity carries offset {off}, configured {k}"));
    }
}

fn box_case(c: &BoxCase) -> Report {
    let mut rep = Report::new();
    let cfg = config(c.k, c.step);
    let mut prev: Option<(u64, u64)> = None;
    let mut regimes = BTreeSet::new();
    for tip in 0..=c.max_tip {
        let tp = time_point(3, 7, tip);
        let r = catch(|| beacons(&cfg, &tp));
        let (b1, b2, off) = match r {
            Ok(Ok(v)) => v,
            Ok(Err(e)) => {
                rep.violation("unexpected-error", format!("tip={tip} k={} step={}: {e}", c.k, c.step));
                return rep;
            }
            Err(p) => {
                rep.violation("panic", format!("tip={tip} k={} step={}: {p}", c.k, c.step));
                return rep;
            }
        };
        check_point(&mut rep, tip, c.k, c.step, b1, b2, off);
        if let Some((p1, p2)) = prev {
            if b1 < p1 {
                rep.violation("monotone-tx", format!("k={} step={}: tip {}→{tip} beacon {p1}→{b1}", c.k, c.step, tip - 1));
            }
            if b2 < p2 {
                rep.violation("monotone-blocks", format!("k={} step={}: tip {}→{tip} beacon {p2}→{b2}", c.k, c.step, tip - 1));
            }
        }
        prev = Some((b1, b2));
        regimes.insert(if tip < c.k { "inside-margin" } else if ((tip - c.k) as u128) < adj(c.step) { "before-first-step" } else { "steady" });
        if rep.is_violation() {
            return rep;
        }
    }
    for r in &regimes {
        rep.label(format!("regime:{r}"));
    }
    rep.label(format!("k:{}", class(c.k))).label(format!("step:{}", class(c.step)));
    if regimes.contains("steady") {
        rep.nontrivial(format!("box k={} step={}", c.k, c.step));
    }
    rep
}

fn rand_case(c: &RandCase) -> Report {
    let mut rep = Report::new();
    rep.label(format!("k:{}", class(c.k))).label(format!("step:{}", class(c.step))).label(format!("tip:{}", class(c.tip)));
    let cfg = config(c.k, c.step);
    let tip2 = c.tip.saturating_add(c.delta);
    let tp1 = time_point(c.epoch, c.immutable, c.tip);
    let tp2 = time_point(c.epoch, c.immutable, tip2);
    let r = catch(|| (beacons(&cfg, &tp1), beacons(&cfg, &tp2)));
    let ((b1, c1, o1), (b2, c2, _)) = match r {
        Ok((Ok(a), Ok(b))) => (a, b),
        Ok((Err(e), _)) | Ok((_, Err(e))) => {
            rep.violation("unexpected-error", e);
            return rep;
        }
        Err(p) => {
            rep.violation("panic", format!("{c:?}: {p}"));
            return rep;
        }
    };
    check_point(&mut rep, c.tip, c.k, c.step, b1, c1, o1);
    check_point(&mut rep, tip2, c.k, c.step, b2, c2, o1);
    if b2 < b1 {
        rep.violation("monotone-tx", format!("{c:?}: {b1} → {b2}"));
    }
    if c2 < c1 {
        rep.violation("monotone-blocks", format!("{c:?}: {c1} → {c2}"));
    }
    // whole-step moves between two successive time points
    if b1 != 0 && (b2 as u128).abs_diff(b1 as u128) % adj(c.step) != 0 {
        rep.violation("step-tx", format!("{c:?}: move {b1}→{b2} is not a whole number of steps"));
    }
    if (c2 as u128).abs_diff(c1 as u128) % std::cmp::max(c.step as u128, 1) != 0 {
        rep.violation("step-blocks", format!("{c:?}: move {c1}→{c2} is not a whole number of steps"));
    }

    // (f) the beacon of an entity type is a function of the time point and of THAT type's own parameters: it is the
    // same whatever the other type is configured with (other values, or not configured at all) — otherwise the
    // margin actually applied is not the configured one and nodes that differ on the other type disagree
    let other = (c.k_other, c.step_other);
    let tx_of = |cfg: &SignedEntityConfig, tp: &TimePoint| cfg.time_point_to_signed_entity(SignedEntityTypeDiscriminants::CardanoTransactions, tp).map_err(|e| e.to_string());
    let blk_of = |cfg: &SignedEntityConfig, tp: &TimePoint| cfg.time_point_to_signed_entity(SignedEntityTypeDiscriminants::CardanoBlocksTransactions, tp).map_err(|e| e.to_string());
    let mixed = catch(|| {
        let mut bad = vec![];
        for tp in [&tp1, &tp2] {
            let (want_tx, want_blk) = (tx_of(&cfg, tp), blk_of(&cfg, tp));
            for (name, alt) in [("other-values", Some(other)), ("absent", None)] {
                let got_tx = tx_of(&config2(Some((c.k, c.step)), alt), tp);
                if got_tx != want_tx {
                    bad.push(format!("transactions beacon with the blocks type {name} {alt:?}: {got_tx:?}, alone {want_tx:?}"));
                }
                let got_blk = blk_of(&config2(alt, Some((c.k, c.step))), tp);
                if got_blk != want_blk {
                    bad.push(format!("blocks beacon with the transactions type {name} {alt:?}: {got_blk:?}, alone {want_blk:?}"));
                }
            }
        }
        bad
    });
    match mixed {
        Err(p) => {
            rep.violation("panic", format!("{c:?}: mixed configuration: {p}"));
        }
        Ok(bad) => {
            if let Some(b) = bad.first() {
                rep.violation("depends-on-other-type-config", format!("{c:?}: {b}"));
            }
            rep.label(if other == (c.k, c.step) { "mixed-config:same-values" } else if c.k_other < c.k { "mixed-config:other-margin-smaller" } else { "mixed-config:other-margin-larger-or-equal" });
        }
    }

    // (e) purity / agreement between nodes
    let all = |cfg: &SignedEntityConfig, tp: &TimePoint| -> Vec<Result<SignedEntityType, String>> {
        SignedEntityTypeDiscriminants::all()
            .into_iter()
            .map(|d| cfg.time_point_to_signed_entity(d, tp).map_err(|e| e.to_string()))
            .collect()
    };
    let txj = serde_json::to_string(cfg.cardano_transactions_signing_config.as_ref().unwrap()).unwrap();
    let blj = serde_json::to_string(cfg.cardano_blocks_transactions_signing_config.as_ref().unwrap()).unwrap();
    let cfg_json = SignedEntityConfig {
        allowed_discriminants: SignedEntityTypeDiscriminants::all(),
        cardano_transactions_signing_config: Some(serde_json::from_str(&txj).unwrap()),
        cardano_blocks_transactions_signing_config: Some(serde_json::from_str(&blj).unwrap()),
    };
    let cfg_other = config(c.k, c.step);
    let purity = catch(|| (all(&cfg, &tp1), all(&cfg, &tp1), all(&cfg_other, &tp1.clone()), all(&cfg_json, &tp1)));
    match purity {
        Err(p) => {
            rep.violation("panic", format!("{c:?}: {p}"));
        }
        Ok((r1, r2, r3, r4)) => {
            if r1 != r2 || r1 != r3 || r1 != r4 {
                rep.violation("not-pure", format!("{c:?}: {r1:?} vs {r2:?} vs {r3:?} vs {r4:?}"));
            }
            for (d, r) in SignedEntityTypeDiscriminants::all().into_iter().zip(r1.iter()) {
                match (d, r) {
                    (SignedEntityTypeDiscriminants::CardanoStakeDistribution, Err(_)) if c.epoch == 0 => {
                        rep.label("epoch0-csd-err");
                    }
                    (_, Err(e)) => {
                        rep.violation("unexpected-error", format!("{c:?}: {d:?} → {e}"));
                    }
                    (SignedEntityTypeDiscriminants::MithrilStakeDistribution, Ok(SignedEntityType::MithrilStakeDistribution(e))) if **e == c.epoch => {}
                    (SignedEntityTypeDiscriminants::CardanoStakeDistribution, Ok(SignedEntityType::CardanoStakeDistribution(e)))
                        if c.epoch > 0 && **e == c.epoch - 1 => {}
                    (SignedEntityTypeDiscriminants::CardanoDatabase, Ok(SignedEntityType::CardanoDatabase(b)))
                        if *b.epoch == c.epoch && b.immutable_file_number == c.immutable => {}
                    (SignedEntityTypeDiscriminants::CardanoTransactions, Ok(SignedEntityType::CardanoTransactions(..))) => {}
                    (SignedEntityTypeDiscriminants::CardanoBlocksTransactions, Ok(SignedEntityType::CardanoBlocksTransactions(..))) => {}
                    (d, Ok(v)) => {
                        rep.violation("wrong-entity", format!("{c:?}: {d:?} → {v:?}"));
                    }
                }
            }
            // list_allowed agrees with the single conversions
            let listed = catch(|| cfg.list_allowed_signed_entity_types(&tp1).map_err(|e| e.to_string()));
            match listed {
                Ok(Ok(list)) => {
                    let singles: Vec<_> = r1.iter().filter_map(|r| r.clone().ok()).collect();
                    let a: BTreeSet<String> = list.iter().map(|x| format!("{x:?}")).collect();
                    let b: BTreeSet<String> = singles.iter().map(|x| format!("{x:?}")).collect();
                    if a != b {
                        rep.violation("not-pure", format!("{c:?}: list_allowed {a:?} != singles {b:?}"));
                    }
                }
                Ok(Err(_)) if c.epoch == 0 => {}
                Ok(Err(e)) => {
                    rep.violation("unexpected-error", format!("{c:?}: list_allowed → {e}"));
                }
                Err(p) => {
                    rep.violation("panic", format!("{c:?}: {p}"));
                }
            }
        }
    }
    let regime = if c.tip < c.k { "inside-margin" } else if ((c.tip - c.k) as u128) < adj(c.step) { "before-first-step" } else { "steady" };
    rep.label(format!("regime:{regime}"));
    if b2 != b1 || c2 != c1 {
        rep.label("beacon-moved");
    }
    if regime == "steady" || b2 != b1 {
        rep.nontrivial(format!(
            "rand k:{} step:{} tip:{} {regime} moved:{} step%15:{}",
            class(c.k),
            class(c.step),
            class(c.tip),
            b2 != b1,
            c.step % 15
        ));
    }
    rep
}

fn special() -> impl Strategy<Value = u64> {
    prop_oneof![
        3 => prop::sample::select(vec![0u64, 1, 2, 14, 15, 16, 29, 30, 31, 44, 45, 46, 100, 2160, 4320]),
        3 => 0u64..(1 << 20),
        1 => prop::sample::select(vec![(1u64 << 32) - 1, 1 << 32, (1 << 32) + 1, 1 << 62, (1 << 63) - 1]),
        1 => 0u64..(1 << 63),
    ]
}

fn tip_strategy() -> impl Strategy<Value = u64> {
    prop_oneof![
        4 => special(),
        1 => prop::sample::select(vec![u64::MAX, u64::MAX - 1, 1u64 << 63]),
        1 => any::<u64>(),
    ]
}

fn rand_strategy() -> impl Strategy<Value = RandCase> {
    (tip_strategy(), prop_oneof![0u64..40, special()], special(), special(), prop_oneof![Just(0u64), Just(1u64), 0u64..1000, 0u64..(1u64 << 62)], 0u64..100_000, special(), special())
        .prop_flat_map(|(tip, delta, k, step, epoch, immutable, k_other, step_other)| {
            // concentrate tips right after k so that the interesting regimes are reached
            let near = prop_oneof![
                2 => Just(tip),
                2 => (0u64..200).prop_map(move |d| k.saturating_add(d)),
                1 => (0u64..4).prop_map(move |d| k.saturating_add(step).saturating_add(d).saturating_sub(2)),
            ];
            near.prop_map(move |tip| RandCase { tip, delta, k, step, epoch, immutable, k_other, step_other })
        })
}

pub fn run(args: &Args) -> i32 {
    let mut check = Check::new("C17", "exploration", args);
    check
        .rule("exhaustive box: every (k<=40, step<=40) pair, each walked over every tip 0..=200 (both entity kinds) — non-trivial when the walk reaches the steady regime (tip-k >= adjusted step); random: (tip, tip+delta, k, step, epoch) from boundary values {0,1,2,14,15,16,29,30,31,...}, 2^32±1, 2^62, u64::MAX tips — non-trivial when in the steady regime or the beacon moved between the two tips; distinct by (k class, step class, tip class, regime, moved, step mod 15)")
        .assume("configuration values (security parameter, step) are below 2^63: operator configuration, not attacker data")
        .assume("epochs are below 2^62 (Epoch offsets are computed in i64; Cardano epochs are ~10^3)")
        .assume("the oracle checks exactly the clauses of the statement (margin, monotone, whole steps, range boundary, purity), not the particular multiple chosen")
        .require_label("regime:steady")
        .require_label("regime:before-first-step")
        .require_label("regime:inside-margin")
        .require_label("beacon-moved")
        .require_label("epoch0-csd-err");

    let (kmax, smax, tmax) = match check.tier {
        vcore::Tier::Quick => (40u64, 40u64, 200u64),
        vcore::Tier::Thorough => (70, 70, 400),
    };
    let items = (0..=kmax).flat_map(move |k| (0..=smax).map(move |step| BoxCase { k, step, max_tip: tmax }));
    check.enumerate("box", items, true, box_case);
    check.note_section(
        "box-note",
        serde_json::json!({"triples_covered": (kmax + 1) * (smax + 1) * (tmax + 1), "entity_kinds": 2}),
    );
    check.section("random", rand_strategy, check.tier.pick(60_000, 6_000_000), rand_case);
    check.finish()
}
