mod c03;
mod c04;
mod c07;
mod c11;
mod c17;

fn main() {
    let args = vcore::parse_args();
    let which = args.rest.first().cloned().unwrap_or_default();
    let code = match which.as_str() {
        "C03" => c03::run(&args),
        "C04" => c04::run(&args),
        "C07" => c07::run(&args),
        "C11" => c11::run(&args),
        "C17" => c17::run(&args),
        other => {
            eprintln!("p-common: unknown property '{other}'");
            2
        }
    };
    std::process::exit(code);
}
