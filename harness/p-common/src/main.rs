mod c17;

fn main() {
    let args = vcore::parse_args();
    let which = args.rest.first().cloned().unwrap_or_default();
    let code = match which.as_str() {
        "C17" => c17::run(&args),
        other => {
            eprintln!("p-common: unknown property '{other}'");
            2
        }
    };
    std::process::exit(code);
}
