#!/usr/bin/env python3
"""Applies the proposed repairs for the C13 findings to the repository at $MREPO (never to /repo).
Used with tools/mutant.sh --py to run the C13 check against the repaired tree (optionally plus one mutation:
extra args = <file-relative-to-repo> <python-regex> <replacement>)."""
import os, re, sys

root = os.environ["MREPO"]
assert not os.path.realpath(root).startswith("/repo"), "refusing to touch /repo"

def sub(path, old, new, count=1):
    p = os.path.join(root, path)
    s = open(p).read()
    if new in s:
        print(f"already applied in {path}")
        return
    assert old in s, f"pattern not found in {path}: {old[:60]}"
    s = s.replace(old, new, count)
    open(p, "w").write(s)

which = os.environ.get("C13_FIXES", "1234")

# F1: a roll-back below every stored block rolls back all of them
if "1" in which:
    sub("internal/mithril-persistence/src/database/repository/cardano_transaction_repository.rs",
"""        if let Some(block_number) =
            self.get_closest_block_number_above_slot_number(slot_number).await?
        {
            self.remove_rolled_back_transactions_and_block_range_by_block_number(block_number)
                .await?;
        }

        Ok(())""",
"""        match self.get_closest_block_number_above_slot_number(slot_number).await? {
            Some(block_number) => {
                self.remove_rolled_back_transactions_and_block_range_by_block_number(block_number)
                    .await?
            }
            // every stored block is above the rollback point: all of them are rolled back
            None => {
                let connection = self.connection_pool.connection()?;
                let transaction = connection.begin_transaction()?;
                connection.fetch_first(
                    DeleteCardanoBlockAndTransactionQuery::below_block_number_threshold(
                        BlockNumber(i64::MAX as u64),
                    )?,
                )?;
                connection.fetch_first(
                    DeleteBlockRangeRootQuery::contains_or_above_block_number_threshold(
                        BlockNumber(0),
                    )?,
                )?;
                connection.fetch_first(
                    DeleteLegacyBlockRangeRootQuery::contains_or_above_block_number_threshold(
                        BlockNumber(0),
                    )?,
                )?;
                transaction.commit()?;
            }
        }

        Ok(())""")

# F2: the answer to find-intersect is only skipped when it is the first answer of the scan
if "2" in which:
    sub("internal/cardano-node/mithril-cardano-node-chain/src/chain_scanner/chain_reader_block_streamer.rs",
"""                let block_streamer_next_action = if rollback_slot_number == self.from.slot_number {""",
"""                let block_streamer_next_action = if rollback_slot_number == self.from.slot_number
                    && self.last_polled_point.is_none()
                {""")

# F3: the chunked importer always delegates at least once (block range roots may be missing, the node may have rolled back)
if "3" in which:
    sub("internal/cardano-node/mithril-cardano-node-chain/src/chain_importer/importer_by_chunk.rs",
"""        while intermediate_up_to < up_to_beacon {""",
"""        if intermediate_up_to >= up_to_beacon {
            return self.wrapped_importer.import(up_to_beacon).await;
        }

        while intermediate_up_to < up_to_beacon {""")

# F4: the importer always asks the node (a roll-back below the highest stored block is only learnt from the node)
if "4" in which:
    sub("internal/cardano-node/mithril-cardano-node-chain/src/chain_importer/blocks_and_transactions_importer.rs",
"""        if highest_stored_beacon
            .as_ref()
            .is_some_and(|f| f.block_number >= up_to_beacon)
        {""",
"""        if false {""")

if len(sys.argv) >= 4:
    path, pattern, repl = sys.argv[1:4]
    p = os.path.join(root, path)
    s = open(p).read()
    s2, n = re.subn(pattern, repl, s, count=1, flags=re.S)
    assert n == 1, f"mutation pattern not found in {path}"
    open(p, "w").write(s2)
    print(f"mutation applied to {path}")
