//! C13 — imported chain data converges to the canonical chain under any roll-backs.
//!
//! Model-based stateful check. System under test (see `sut.rs`): the real importer stack of the signer over a
//! file-backed sqlite repository and both signable builders. Environment model (see `simnode.rs`): `SimNode`, a
//! chain-sync follower model with the contract of the real `PallasChainReader`.
//!
//! A case is a configuration + a history of operations (extend the chain, switch to a fork, import up to a target —
//! optionally with a chain switch in the middle of the import and/or a store failure at the j-th mutating store call —
//! restart). After every successful import the oracle compares the database with
//!   (1) an independent harness-side computation from the canonical chain (blocks, transactions, and both block-range
//!       root tables recomputed with `MKTree` from the model chain), and
//!   (2) a fresh database that imported the current canonical chain once from scratch up to the same target
//!       (stored tables + the Merkle roots of both signable builders at the target and at earlier, aligned beacons).

use std::collections::{BTreeMap, BTreeSet};
use std::path::PathBuf;

use mithril_common::crypto_helper::{MKTree, MKTreeStoreInMemory};
use mithril_common::entities::{BlockNumber, CardanoBlockTransactionMkTreeNode, CardanoBlockWithTransactions, SlotNumber};
use proptest::prelude::*;
use serde::{Deserialize, Serialize};
use vcore::util::Scratch;
use vcore::{Args, Check, Report, pick_index};

use crate::simnode::{Blk, Events, Idle, MidFork, Node, SharedNode, World};
use crate::sut::{Dump, INJECTED, StackCfg, Sut};
use crate::validate;

pub const RANGE: u64 = 15;
const MAX_CHAIN: usize = 130;

// ------------------------------------------------------------------------------------------------ case

#[derive(Debug, Clone, Serialize, Deserialize)]
pub struct Cfg {
    /// `max_roll_forwards_per_poll` of the block scanner
    pub max_per_poll: u8,
    /// `transactions_import_block_chunk_size`
    pub chunk: u16,
    /// `enable_transaction_pruning` + `network_security_parameter` (blocks to keep); with pruning the generator never
    /// switches to a fork deeper than this (documented meaning of the parameter: no roll-back beyond it)
    pub prune_keep: Option<u8>,
    /// security parameter of the signing configuration (targets are derived from `tip - sp`)
    pub sp: u8,
    pub first_no: u8,
    pub first_slot: u8,
    pub initial_blocks: u8,
    pub seed: u16,
    /// the follower's second request at the tip runs into the reader's time-out instead of being answered by the next block
    pub idle_timeout: bool,
    /// the aggregator's wiring: the bare `CardanoChainDataImporter` (no chunking, no pruning decorators)
    #[serde(default)]
    pub bare: bool,
}

#[derive(Debug, Clone, Serialize, Deserialize, PartialEq)]
pub enum ForkSel {
    /// depth 1..=sp from the tip (what happens every few minutes on a real network)
    Shallow,
    /// uniform depth over the whole chain
    Raw,
    /// fork point a few blocks below the highest stored block
    BelowHighestStored,
    /// fork point = last block of a stored block range (+ delta)
    RangeBoundary(i8),
    /// fork point = first stored block (it is kept)
    FirstStored,
    /// fork point = the block before the first stored block (origin when nothing was pruned)
    BeforeFirstStored,
    /// fork point = highest stored block (resume point stays valid)
    AtHighestStored,
}

#[derive(Debug, Clone, Serialize, Deserialize, PartialEq)]
pub enum TargetSel {
    /// `CardanoTransactionsSigningConfig::compute_block_number_to_be_signed` with step 15
    CtxBeacon,
    /// `CardanoBlocksTransactionsSigningConfig::compute_block_number_to_be_signed` with step 15
    CbtxBeacon,
    /// the preloader: tip - offset
    Preload,
    Raw,
    Tip,
    /// the previous target again
    Same,
}

#[derive(Debug, Clone, Serialize, Deserialize)]
pub enum Op {
    Extend { n: u8, seed: u16 },
    Fork { sel: ForkSel, raw: u16, extra: u8, seed: u16 },
    Import {
        sel: TargetSel,
        raw: u16,
        /// chain switch while the import is running
        mid: Option<MidFork>,
        /// the j-th mutating store call of this import fails before touching the database; the process restarts
        crash: Option<u8>,
        /// which earlier beacons are compared as well
        beacons: (u16, u16),
    },
    Restart,
}

#[derive(Debug, Clone, Serialize, Deserialize)]
pub struct Case {
    pub cfg: Cfg,
    pub ops: Vec<Op>,
}

fn cfg_strategy() -> impl Strategy<Value = Cfg> {
    (
        1u8..=7,
        prop_oneof![Just(4u16), Just(7), Just(15), Just(20), Just(50), Just(1000)],
        prop_oneof![3 => Just(None), 2 => (16u8..=45).prop_map(Some)],
        prop_oneof![Just(0u8), Just(2), Just(5), Just(10), Just(20)],
        0u8..=1,
        1u8..=5,
        16u8..=50,
        any::<u16>(),
        prop::bool::weighted(0.2),
        prop::bool::weighted(0.3),
    )
        .prop_map(|(max_per_poll, chunk, prune_keep, sp, first_no, first_slot, initial_blocks, seed, idle_timeout, bare)| Cfg {
            max_per_poll,
            chunk,
            prune_keep: if bare { None } else { prune_keep },
            bare,
            sp,
            first_no,
            first_slot,
            initial_blocks,
            seed,
            idle_timeout,
        })
}

fn mid_strategy() -> impl Strategy<Value = MidFork> {
    (0u8..=24, prop::bool::weighted(0.3), 0u8..=20, 0u8..=3, any::<u16>())
        .prop_map(|(after_reads, to_from, back, extra, seed)| MidFork { after_reads, to_from, back, extra, seed })
}

fn fork_sel_strategy() -> impl Strategy<Value = ForkSel> {
    prop_oneof![
        2 => Just(ForkSel::Shallow),
        2 => Just(ForkSel::Raw),
        4 => Just(ForkSel::BelowHighestStored),
        3 => (-1i8..=1).prop_map(ForkSel::RangeBoundary),
        1 => Just(ForkSel::FirstStored),
        1 => Just(ForkSel::BeforeFirstStored),
        2 => Just(ForkSel::AtHighestStored),
    ]
}

fn target_sel_strategy() -> impl Strategy<Value = TargetSel> {
    prop_oneof![
        3 => Just(TargetSel::CtxBeacon),
        3 => Just(TargetSel::CbtxBeacon),
        2 => Just(TargetSel::Preload),
        3 => Just(TargetSel::Raw),
        2 => Just(TargetSel::Tip),
        1 => Just(TargetSel::Same),
    ]
}

fn op_strategy() -> impl Strategy<Value = Op> {
    prop_oneof![
        5 => (1u8..=20, any::<u16>()).prop_map(|(n, seed)| Op::Extend { n, seed }),
        5 => (fork_sel_strategy(), any::<u16>(), 0u8..=4, any::<u16>())
            .prop_map(|(sel, raw, extra, seed)| Op::Fork { sel, raw, extra, seed }),
        7 => (
            target_sel_strategy(),
            any::<u16>(),
            prop_oneof![4 => Just(None), 1 => mid_strategy().prop_map(Some)],
            prop_oneof![10 => Just(None), 2 => (1u8..=12).prop_map(Some), 1 => (128u8..=134).prop_map(Some)],
            (any::<u16>(), any::<u16>())
        )
            .prop_map(|(sel, raw, mid, crash, beacons)| Op::Import { sel, raw, mid, crash, beacons }),
        2 => Just(Op::Restart),
    ]
}

fn case_strategy() -> impl Strategy<Value = Case> {
    (cfg_strategy(), prop::collection::vec(op_strategy(), 3..=25)).prop_map(|(cfg, ops)| Case { cfg, ops })
}

// ------------------------------------------------------------------------------------------------ expectations

/// Independent expectation of both block-range root tables for an import of `chain` up to `t`:
/// one root per complete range [s, s+15) with s+14 <= t that contains at least one block (resp. one transaction).
pub fn expected_roots(chain: &[Blk], t: u64) -> (Vec<(u64, u64, String)>, Vec<(u64, u64, String)>) {
    let mut new_roots = vec![];
    let mut legacy = vec![];
    let mut s = 0u64;
    while s + RANGE - 1 <= t {
        let blocks: Vec<&Blk> = chain.iter().filter(|b| b.number >= s && b.number < s + RANGE).collect();
        let nodes: BTreeSet<CardanoBlockTransactionMkTreeNode> = blocks
            .iter()
            .flat_map(|b| {
                CardanoBlockWithTransactions::new(b.hash_hex(), BlockNumber(b.number), SlotNumber(b.slot), b.txs.clone())
                    .into_mk_tree_node()
            })
            .collect();
        if !nodes.is_empty() {
            let root = MKTree::<MKTreeStoreInMemory>::new_from_iter(nodes).and_then(|t| t.compute_root()).expect("mktree");
            new_roots.push((s, s + RANGE, root.to_hex()));
        }
        let mut txs: Vec<(u64, String)> =
            blocks.iter().flat_map(|b| b.txs.iter().map(|t| (b.number, t.clone()))).collect();
        txs.sort();
        if !txs.is_empty() {
            let leaves: Vec<mithril_common::crypto_helper::MKTreeNode> =
                txs.iter().map(|(_, h)| mithril_common::crypto_helper::MKTreeNode::new(h.as_bytes().to_vec())).collect();
            let root = MKTree::<MKTreeStoreInMemory>::new_from_iter(leaves).and_then(|t| t.compute_root()).expect("mktree");
            legacy.push((s, s + RANGE, root.to_hex()));
        }
        s += RANGE;
    }
    (new_roots, legacy)
}

/// Independent expectation of the stored blocks / transactions: the canonical chain filtered to `lo..=t`.
pub fn expected_blocks(chain: &[Blk], lo: u64, t: u64) -> (Vec<(u64, u64, String)>, Vec<(u64, String, u64, String)>) {
    let mut blocks = vec![];
    let mut txs = vec![];
    for b in chain.iter().filter(|b| b.number >= lo && b.number <= t) {
        blocks.push((b.number, b.slot, b.hash_hex()));
        for t in &b.txs {
            txs.push((b.number, t.clone(), b.slot, b.hash_hex()));
        }
    }
    blocks.sort();
    txs.sort();
    (blocks, txs)
}

fn first_diff<T: PartialEq + std::fmt::Debug>(got: &[T], want: &[T]) -> String {
    for i in 0..got.len().max(want.len()) {
        if got.get(i) != want.get(i) {
            return format!("at #{i}: stored {:?} / expected {:?} (stored {} rows, expected {})", got.get(i), want.get(i), got.len(), want.len());
        }
    }
    "equal".into()
}

// ------------------------------------------------------------------------------------------------ run

#[derive(Clone, Debug)]
pub struct FreshView {
    pub dump: Dump,
    pub ctx_root: Result<String, String>,
    pub cbtx_root: Result<String, String>,
}

pub struct Run {
    pub scratch: Scratch,
    pub cfg: Cfg,
    pub stack: StackCfg,
    pub node: SharedNode,
    pub sut: Option<Sut>,
    pub db: PathBuf,
    /// highest target any import was asked for
    pub min_target: u64,
    pub version: u64,
    fresh_cache: BTreeMap<(u64, u64), FreshView>,
    fresh_n: u64,
    // history classification
    pub fork_since_import: bool,
    pub restart_since_fork: bool,
    /// first trigger of a suspected divergence mechanism seen in this history
    pub taint: Option<&'static str>,
    /// the running import is skipped by the importer although the database needs work: explains a divergence found
    /// right after it (takes precedence over an older trigger)
    pub skip_key: Option<&'static str>,
    pub labels: BTreeSet<String>,
    pub shape: Vec<String>,
    pub nontrivial: bool,
    pub checks: u32,
}

pub const KEY_SKIP: &str = "import-skipped-after-fork-below-highest-stored-block";
pub const KEY_BELOW_ALL: &str = "rollback-below-every-stored-block-deletes-nothing";
pub const KEY_RB_FROM: &str = "rollback-to-scan-start-point-ignored-after-forwards";
pub const KEY_SKIP_ROOTS: &str = "import-skipped-although-block-range-roots-missing-after-crash";

pub enum Verdict {
    Ok,
    Violation(String, String),
}

impl Run {
    pub fn new(cfg: &Cfg) -> Run {
        let scratch = Scratch::new("c13");
        let db = scratch.path().join("cardano-transaction.sqlite3");
        let mut world = World::new(cfg.first_no as u64, cfg.first_slot as u64);
        world.extend(cfg.initial_blocks as usize, cfg.seed as u64);
        let node = Node::shared(world);
        node.lock().unwrap().max_fork_depth = cfg.prune_keep.map(|k| k as usize);
        if cfg.idle_timeout {
            node.lock().unwrap().idle = Idle::Timeout;
        }
        let stack = StackCfg {
            max_per_poll: cfg.max_per_poll.max(1) as usize,
            chunk: cfg.chunk.max(1) as u64,
            prune_keep: cfg.prune_keep.map(|k| k as u64),
            bare: cfg.bare,
        };
        crate::sut::create_empty_db(&db).expect("create database");
        let sut = Sut::open(&db, node.clone(), &stack).expect("open database");
        Run {
            scratch,
            cfg: cfg.clone(),
            stack,
            node,
            sut: Some(sut),
            db,
            min_target: 1,
            version: 0,
            fresh_cache: BTreeMap::new(),
            fresh_n: 0,
            fork_since_import: false,
            restart_since_fork: false,
            taint: None,
            skip_key: None,
            labels: BTreeSet::new(),
            shape: vec![],
            nontrivial: false,
            checks: 0,
        }
    }

    fn sut(&self) -> &Sut {
        self.sut.as_ref().unwrap()
    }

    pub fn chain(&self) -> Vec<Blk> {
        self.node.lock().unwrap().world.chain.clone()
    }

    pub fn restart(&mut self) {
        self.sut = None; // drops importer, scanner, reader, repository and the connection pool
        self.sut = Some(Sut::open(&self.db, self.node.clone(), &self.stack).expect("re-open database"));
    }

    async fn stored_bounds(&self) -> Option<(u64, u64)> {
        let blocks = self.sut().repo.get_all_blocks().await.expect("read blocks");
        let lo = blocks.iter().map(|b| *b.block_number).min()?;
        let hi = blocks.iter().map(|b| *b.block_number).max()?;
        Some((lo, hi))
    }

    pub fn extend(&mut self, n: usize, seed: u64) {
        let len = self.node.lock().unwrap().world.chain.len();
        let n = n.min(MAX_CHAIN.saturating_sub(len));
        if n == 0 {
            self.shape.push("e0".into());
            return;
        }
        self.node.lock().unwrap().extend(n, seed);
        self.version += 1;
        self.shape.push("E".into());
    }

    pub async fn fork(&mut self, sel: &ForkSel, raw: u16, extra: u8, seed: u16) {
        let (len, first_no) = {
            let n = self.node.lock().unwrap();
            (n.world.chain.len(), n.world.first_no)
        };
        if len == 0 {
            return;
        }
        let bounds = self.stored_bounds().await;
        let keep_of_number = |n: i64| -> usize {
            // keep all blocks with number <= n
            if n < first_no as i64 { 0 } else { ((n as u64 - first_no) as usize + 1).min(len) }
        };
        let sel_eff = if bounds.is_none() && !matches!(sel, ForkSel::Shallow | ForkSel::Raw) { ForkSel::Raw } else { sel.clone() };
        let (lo, hi) = bounds.unwrap_or((first_no, first_no));
        let mut keep = match &sel_eff {
            ForkSel::Shallow => len.saturating_sub(1 + raw as usize % (self.cfg.sp.max(1) as usize)),
            ForkSel::Raw => len - 1 - pick_index(raw, len),
            ForkSel::BelowHighestStored => keep_of_number(hi as i64 - 1 - (raw % 20) as i64),
            ForkSel::RangeBoundary(delta) => {
                let count = ((hi + 1) / RANGE) as usize; // boundaries 15k-1 <= hi, k >= 1
                if count == 0 {
                    len - 1 - pick_index(raw, len)
                } else {
                    let k = 1 + pick_index(raw, count) as i64;
                    keep_of_number(15 * k - 1 + *delta as i64)
                }
            }
            ForkSel::FirstStored => keep_of_number(lo as i64),
            ForkSel::BeforeFirstStored => keep_of_number(lo as i64 - 1),
            ForkSel::AtHighestStored => keep_of_number(hi as i64),
        };
        keep = keep.min(len - 1);
        if let Some(k) = self.cfg.prune_keep {
            keep = keep.max(len.saturating_sub(k as usize));
        }
        let depth = len - keep;
        let regrow = depth + (extra as usize).min(MAX_CHAIN.saturating_sub(len).max(0));
        self.node.lock().unwrap().fork(keep, regrow, seed as u64);
        self.version += 1;
        // classification
        let fork_point_number: i64 = first_no as i64 + keep as i64 - 1; // number of the last kept block (first_no-1 = origin)
        self.fork_since_import = true;
        self.restart_since_fork = false;
        let mut tag = "Fs";
        if let Some((lo, hi)) = bounds {
            if fork_point_number < hi as i64 {
                self.labels.insert("fork:below-highest-stored".into());
                tag = "Fd";
                if (fork_point_number + 1) % RANGE as i64 == 0 && fork_point_number >= 0 {
                    self.labels.insert("fork:at-range-boundary".into());
                    tag = "Fb";
                }
                if fork_point_number == lo as i64 {
                    self.labels.insert("fork:to-first-stored-block".into());
                    tag = "F1";
                }
                if fork_point_number < lo as i64 {
                    self.labels.insert("fork:before-first-stored-block".into());
                    tag = "F0";
                }
            } else if fork_point_number == hi as i64 {
                self.labels.insert("fork:at-highest-stored".into());
                tag = "Fh";
            } else {
                self.labels.insert("fork:above-stored-data".into());
            }
        }
        if keep == 0 {
            self.labels.insert("fork:to-origin".into());
        }
        self.shape.push(tag.into());
    }

    pub fn target(&self, sel: &TargetSel, raw: u16) -> Option<u64> {
        let tip = self.node.lock().unwrap().world.tip_number()?;
        if tip < 1 {
            return None;
        }
        let sp = self.cfg.sp as u64;
        let t = match sel {
            TargetSel::CtxBeacon => (tip.saturating_sub(sp) / RANGE * RANGE).saturating_sub(1),
            TargetSel::CbtxBeacon => tip.saturating_sub(sp) / RANGE * RANGE,
            TargetSel::Preload => tip.saturating_sub(raw as u64 % (sp + 1)),
            TargetSel::Raw => {
                let lo = self.min_target.min(tip);
                lo + pick_index(raw, (tip - lo + 1) as usize) as u64
            }
            TargetSel::Tip => tip,
            TargetSel::Same => self.min_target,
        };
        Some(t.max(self.min_target).min(tip).max(1))
    }

    /// "import the resulting canonical chain once from scratch up to the same target" with the same stack configuration
    pub async fn fresh(&mut self, t: u64) -> FreshView {
        if let Some(v) = self.fresh_cache.get(&(self.version, t)) {
            return v.clone();
        }
        self.fresh_n += 1;
        let db = self.scratch.path().join(format!("fresh-{}.sqlite3", self.fresh_n));
        let world = {
            let n = self.node.lock().unwrap();
            let mut w = n.world.clone();
            w.mempool.clear();
            w
        };
        let node = Node::shared(world);
        node.lock().unwrap().idle = Idle::NewBlock;
        // one scan, one batch, one chunk: the most trivial history (pruning as configured)
        let stack = StackCfg { max_per_poll: 100_000, chunk: 1_000_000, prune_keep: self.stack.prune_keep, bare: false };
        crate::sut::create_empty_db(&db).expect("create fresh database");
        let sut = Sut::open(&db, node, &stack).expect("open fresh database");
        sut.import(t).await.unwrap_or_else(|e| panic!("import of the plain canonical chain into a fresh database failed: {e:?}"));
        let dump = sut.dump().await.expect("dump fresh");
        let ctx_root = sut.ctx_root(t).await.map_err(|e| format!("{e:#}"));
        let cbtx_root = sut.cbtx_root(t).await.map_err(|e| format!("{e:#}"));
        drop(sut);
        let _ = std::fs::remove_file(&db);
        let v = FreshView { dump, ctx_root, cbtx_root };
        self.fresh_cache.insert((self.version, t), v.clone());
        v
    }

    fn key_for(&self, table: &str) -> String {
        match self.skip_key.or(self.taint) {
            Some(k) => k.to_string(),
            None => format!("divergence:{table}"),
        }
    }

    /// The oracle, after a successful `Import(t)`.
    pub async fn oracle(&mut self, t: u64, beacons: (u16, u16), ctx: &str) -> Verdict {
        self.checks += 1;
        let chain = self.chain();
        let hist = self.sut().dump().await.expect("dump");
        let pruning = self.cfg.prune_keep.is_some();
        let first_no = self.cfg.first_no as u64;

        // (1) independent expectation
        let lo_hist = hist.blocks.first().map(|b| b.0).unwrap_or(first_no);
        let lo = if pruning { lo_hist } else { first_no };
        let (exp_blocks, exp_txs) = expected_blocks(&chain, lo, t);
        if hist.blocks != exp_blocks {
            return Verdict::Violation(
                self.key_for("blocks"),
                format!("{ctx}: stored blocks differ from the canonical chain <= {t}: {}", first_diff(&hist.blocks, &exp_blocks)),
            );
        }
        if hist.txs != exp_txs {
            return Verdict::Violation(
                self.key_for("transactions"),
                format!("{ctx}: stored transactions differ from the canonical chain <= {t}: {}", first_diff(&hist.txs, &exp_txs)),
            );
        }
        if let Some(keep) = self.cfg.prune_keep {
            // the pruner may only remove blocks older than `keep` blocks below the last complete range
            let last_range_start = ((t + 1) / RANGE).saturating_sub(1) * RANGE;
            let bound = last_range_start.saturating_sub(keep as u64).max(first_no);
            if lo_hist > bound {
                return Verdict::Violation(
                    self.key_for("over-pruned"),
                    format!("{ctx}: first stored block {lo_hist} although blocks from {bound} must be kept (target {t}, keep {keep})"),
                );
            }
        }
        let (exp_roots, exp_legacy) = expected_roots(&chain, t);
        if hist.roots != exp_roots {
            return Verdict::Violation(
                self.key_for("block-range-roots"),
                format!("{ctx}: stored block range roots differ from the recomputation over the canonical chain <= {t}: {}", first_diff(&hist.roots, &exp_roots)),
            );
        }
        if hist.legacy_roots != exp_legacy {
            return Verdict::Violation(
                self.key_for("legacy-block-range-roots"),
                format!("{ctx}: stored legacy block range roots differ from the recomputation over the canonical chain <= {t}: {}", first_diff(&hist.legacy_roots, &exp_legacy)),
            );
        }

        // (2) differential against a fresh import of the canonical chain
        let fresh = self.fresh(t).await;
        let lo_common = lo_hist.max(fresh.dump.blocks.first().map(|b| b.0).unwrap_or(first_no));
        let restrict = |d: &Dump| -> (Vec<(u64, u64, String)>, Vec<(u64, String, u64, String)>) {
            (
                d.blocks.iter().filter(|b| b.0 >= lo_common).cloned().collect(),
                d.txs.iter().filter(|x| x.0 >= lo_common).cloned().collect(),
            )
        };
        if restrict(&hist) != restrict(&fresh.dump) {
            return Verdict::Violation(
                self.key_for("fresh-blocks"),
                format!("{ctx}: blocks/transactions differ from those of a fresh import up to {t}: {}", first_diff(&restrict(&hist).0, &restrict(&fresh.dump).0)),
            );
        }
        if hist.roots != fresh.dump.roots || hist.legacy_roots != fresh.dump.legacy_roots {
            return Verdict::Violation(
                self.key_for("fresh-roots"),
                format!("{ctx}: block range roots differ from those of a fresh import up to {t}: {} / legacy {}", first_diff(&hist.roots, &fresh.dump.roots), first_diff(&hist.legacy_roots, &fresh.dump.legacy_roots)),
            );
        }
        let ctx_root = self.sut().ctx_root(t).await.map_err(|e| format!("{e:#}"));
        let cbtx_root = self.sut().cbtx_root(t).await.map_err(|e| format!("{e:#}"));
        if ctx_root != fresh.ctx_root {
            return Verdict::Violation(
                self.key_for("ctx-merkle-root"),
                format!("{ctx}: CardanoTransactions Merkle root at beacon {t}: {:?}, fresh import: {:?}", ctx_root, fresh.ctx_root),
            );
        }
        if cbtx_root != fresh.cbtx_root {
            return Verdict::Violation(
                self.key_for("cbtx-merkle-root"),
                format!("{ctx}: CardanoBlocksTransactions Merkle root at beacon {t}: {:?}, fresh import: {:?}", cbtx_root, fresh.cbtx_root),
            );
        }

        // (3) earlier aligned beacons: the root must not depend on how far beyond the beacon the node imported
        let lo_b = match self.cfg.prune_keep {
            Some(k) => t.saturating_sub(k as u64),
            None => 0,
        }
        .max(RANGE);
        let cands: Vec<u64> = (lo_b..t).filter(|b| b % RANGE == 0 || b % RANGE == RANGE - 1).collect();
        let mut chosen = BTreeSet::new();
        if !cands.is_empty() {
            chosen.insert(cands[pick_index(beacons.0, cands.len())]);
            chosen.insert(cands[pick_index(beacons.1, cands.len())]);
        }
        for b in chosen {
            let fresh_b = self.fresh(b).await;
            let ctx_b = self.sut().ctx_root(b).await.map_err(|e| format!("{e:#}"));
            let cbtx_b = self.sut().cbtx_root(b).await.map_err(|e| format!("{e:#}"));
            self.labels.insert("earlier-beacon-compared".into());
            if ctx_b != fresh_b.ctx_root {
                return Verdict::Violation(
                    self.key_for("ctx-merkle-root-earlier-beacon"),
                    format!("{ctx}: node imported up to {t}; CardanoTransactions root at beacon {b}: {:?}, node that imported only up to {b}: {:?}", ctx_b, fresh_b.ctx_root),
                );
            }
            if cbtx_b != fresh_b.cbtx_root {
                return Verdict::Violation(
                    self.key_for("cbtx-merkle-root-earlier-beacon"),
                    format!("{ctx}: node imported up to {t}; CardanoBlocksTransactions root at beacon {b}: {:?}, node that imported only up to {b}: {:?}", cbtx_b, fresh_b.cbtx_root),
                );
            }
        }
        // (4) probe without verdict: beacons that are NOT aligned (possible only with a signing step that is not a
        // multiple of 15, which the configuration documents as adjusted but does not enforce)
        if beacons.0 % 3 == 0 {
            let cands: Vec<u64> = (lo_b..t)
                .filter(|b| b % RANGE != 0 && b % RANGE != RANGE - 1 && (b / RANGE + 1) * RANGE <= t + 1)
                .collect();
            if !cands.is_empty() {
                let b = cands[pick_index(beacons.1, cands.len())];
                let fresh_b = self.fresh(b).await;
                let cbtx_b = self.sut().cbtx_root(b).await.map_err(|e| format!("{e:#}"));
                self.labels.insert(
                    if cbtx_b == fresh_b.cbtx_root {
                        "probe:unaligned-beacon:cbtx-root-independent-of-import-progress"
                    } else {
                        "probe:unaligned-beacon:cbtx-root-DEPENDS-on-import-progress"
                    }
                    .into(),
                );
            }
        }
        Verdict::Ok
    }

    /// One `Import` operation. Returns a verdict.
    pub async fn import(&mut self, i: usize, sel: &TargetSel, raw: u16, mid: &Option<MidFork>, crash: Option<u8>, beacons: (u16, u16)) -> Verdict {
        let Some(mut t) = self.target(sel, raw) else {
            self.shape.push("i-".into());
            return Verdict::Ok;
        };
        // state before the import (for the classification of the history)
        let pre = self.sut().dump().await.expect("dump");
        let chain_before = self.chain();
        let pre_stale = {
            let by_number: BTreeMap<u64, &Blk> = chain_before.iter().map(|b| (b.number, b)).collect();
            pre.blocks.iter().any(|(n, s, hx)| by_number.get(n).map(|b| b.slot != *s || &b.hash_hex() != hx).unwrap_or(true))
        };
        let pre_hi = pre.blocks.last().map(|b| b.0);
        let roots_missing = |t: u64| {
            let (exp_roots, exp_legacy) = expected_roots(&chain_before, t);
            pre.roots.len() < exp_roots.len() || pre.legacy_roots.len() < exp_legacy.len()
        };
        // (the second finding is the chunking decorator's: the bare importer recomputes missing range roots, so with
        // the aggregator's wiring nothing is steered and nothing is tolerated for that class)
        let bare = self.stack.bare;
        if bare {
            self.labels.insert("stack:bare-importer".into());
        }
        if pre_hi.is_some_and(|h| h >= t) && (pre_stale || (roots_missing(t) && !bare)) && *sel != TargetSel::Same {
            // Steering around two confirmed findings (they are exercised by `TargetSel::Same` and witnessed separately):
            // the next target of the real callers lies above the stored data as soon as the chain has grown.
            let hi = pre_hi.unwrap();
            let tip = self.node.lock().unwrap().world.tip_number().unwrap_or(0);
            if tip <= hi {
                self.node.lock().unwrap().extend(1 + raw as usize % 3, raw as u64 ^ 0x57ee);
                self.version += 1;
            }
            t = hi + 1;
            self.labels.insert("steered:target-raised-above-stored-data".into());
        }
        let chain_before = self.chain();
        let ctx = format!("op #{i} Import({t})");
        self.skip_key = None;
        if pre_hi.is_some_and(|h| h >= t) {
            if pre_stale {
                self.labels.insert("trigger:import-skipped-with-stale-data".into());
                self.skip_key = Some(KEY_SKIP);
            } else {
                let (exp_roots, exp_legacy) = expected_roots(&chain_before, t);
                if pre.roots.len() < exp_roots.len() || pre.legacy_roots.len() < exp_legacy.len() {
                    if bare {
                        self.labels.insert("bare:import-with-missing-range-roots".into());
                    } else {
                        self.labels.insert("trigger:import-skipped-with-missing-range-roots".into());
                        self.skip_key = Some(KEY_SKIP_ROOTS);
                    }
                }
            }
        }
        {
            let mut n = self.node.lock().unwrap();
            n.take_events();
            n.scheduled = mid.clone();
        }
        if let Some(j) = crash {
            // 128..: the (j - 127)-th mutating call is struck INSIDE when it stores blocks with transactions
            // 64..=127: a TRANSIENT failure of the (j - 63)-th mutating call: the process goes on and imports again. NOT
            // generated: the statement quantifies over restarts, not over failed calls survived by the process (tried:
            // the unchanged importer loses a roll-back whose application failed, because the connection's read pointer
            // has moved past it - outside the property, recorded in DESIGN.md)
            if j >= 128 {
                self.sut().store.arm_inside((j - 127) as u32)
            } else if j >= 64 {
                self.sut().store.arm((j - 63) as u32)
            } else {
                self.sut().store.arm(j as u32)
            }
        }
        let was_fork = self.fork_since_import;
        let was_restart_since_fork = self.restart_since_fork;
        self.min_target = self.min_target.max(t);
        let res = self.sut().import(t).await;
        self.sut().store.disarm();
        let fired = self.sut().store.has_fired();
        let ev: Events = {
            let mut n = self.node.lock().unwrap();
            n.scheduled = None;
            n.take_events()
        };
        if trace() {
            let post = self.sut().dump().await.expect("dump");
            eprintln!(
                "  {ctx}: result={:?} fired={fired} pre_hi={pre_hi:?} pre_stale={pre_stale} post_blocks={:?}..{:?} roots={:?} legacy={:?}\n    events={ev:?}",
                res.as_ref().map_err(|e| format!("{e:#}")),
                post.blocks.first().map(|b| b.0),
                post.blocks.last().map(|b| b.0),
                post.roots.iter().map(|r| r.0).collect::<Vec<_>>(),
                post.legacy_roots.iter().map(|r| r.0).collect::<Vec<_>>(),
            );
        }
        if ev.mid_fork_applied.is_some() {
            self.version += 1;
            self.labels.insert("mid-import-fork".into());
        }
        if ev.auto_extended > 0 {
            self.version += 1;
            self.labels.insert("waited-at-tip-for-next-block".into());
        }
        // triggers of the suspected divergence mechanisms (classification only; the verdict comes from the oracle)
        if ev.rollback_to_from_after_forwards > 0 {
            self.labels.insert("trigger:rollback-to-scan-start-after-forwards".into());
            self.taint.get_or_insert(KEY_RB_FROM);
        }
        if self.sut().store.rollbacks_below_all_stored.swap(0, std::sync::atomic::Ordering::SeqCst) > 0 {
            self.labels.insert("trigger:rollback-below-every-stored-block".into());
            self.taint.get_or_insert(KEY_BELOW_ALL);
        }
        if self.sut().store.rollbacks.swap(0, std::sync::atomic::Ordering::SeqCst) > 0 {
            self.labels.insert("rollback-applied-to-store".into());
        }
        if ev.rollback_to_origin > 0 && ev.intersect_not_found > 0 {
            self.labels.insert("resume-point-not-on-chain:fresh-connection".into());
        } else if ev.intersect_not_found > 0 {
            self.labels.insert("resume-point-not-on-chain:live-connection".into());
        }
        if ev.awaits > 0 {
            self.labels.insert("reached-tip(await)".into());
        }
        if ev.intersect_skipped_no_agency > 0 {
            self.labels.insert("find-intersect-skipped(no agency)".into());
        }
        // classes of the history (recorded whatever the verdict is)
        let ran = ev.requests > 0;
        let mut tag = String::new();
        if ran && pre_stale {
            self.labels.insert("fork-below-highest-stored-then-import".into());
            self.nontrivial = true;
            tag.push('d');
        }
        if ran && was_fork && was_restart_since_fork {
            self.labels.insert("restart-between-fork-and-import".into());
            self.nontrivial = true;
            tag.push('r');
        }
        if ev.fresh_connection && ev.intersect_not_found > 0 {
            self.labels.insert("restart-with-stale-resume-point".into());
            self.nontrivial = true;
            tag.push('s');
        }
        if ev.mid_fork_applied.is_some() {
            self.nontrivial = true;
            tag.push('m');
        }
        match res {
            Err(e) => {
                let msg = format!("{e:#}");
                if fired && msg.contains(INJECTED) {
                    self.labels.insert("crash-injected".into());
                    if msg.contains("inside store_blocks_and_transactions") {
                        self.labels.insert("crash-injected-inside-a-store-call".into());
                    }
                    self.shape.push(format!("Ic{tag}"));
                    if crash.is_some_and(|j| (64..128).contains(&j)) {
                        // transient: same process, same connection, same in-memory state
                        self.labels.insert("transient-store-failure-then-retry".into());
                        if was_fork || ev.mid_fork_applied.is_some() {
                            self.fork_since_import = true;
                        }
                        return Verdict::Ok;
                    }
                    self.restart();
                    if was_fork || ev.mid_fork_applied.is_some() {
                        self.fork_since_import = true;
                        self.restart_since_fork = true;
                    }
                    return Verdict::Ok;
                }
                if ev.timeouts > 0 {
                    self.labels.insert("reader-timeout-at-tip".into());
                    self.shape.push(format!("It{tag}"));
                    return Verdict::Ok;
                }
                self.shape.push(format!("I!{tag}"));
                let key = match self.skip_key.or(self.taint) {
                    Some(k) => k.to_string(),
                    None => "import-error".to_string(),
                };
                Verdict::Violation(key, format!("{ctx}: import failed although node and store are healthy: {msg}"))
            }
            Ok(()) => {
                let v = self.oracle(t, beacons, &ctx).await;
                if matches!(v, Verdict::Ok) {
                    // the whole database equals the expectation: whatever a trigger did has left no trace
                    self.taint = None;
                }
                if ran {
                    self.fork_since_import = false;
                    self.restart_since_fork = false;
                }
                if ev.mid_fork_applied.is_some() {
                    // a switch that happened after the importer stopped reading is still pending
                    self.fork_since_import = true;
                }
                self.shape.push(format!("{}{tag}", if ran { "I" } else { "i" }));
                v
            }
        }
    }
}

fn trace() -> bool {
    std::env::var("VERIF_C13_TRACE").is_ok()
}

/// run a whole history; returns the report
pub fn run_case(case: &Case) -> Report {
    let mut rep = Report::new();
    let rt = tokio::runtime::Builder::new_current_thread().enable_all().build().expect("runtime");
    let mut run = Run::new(&case.cfg);
    let mut verdict = Verdict::Ok;
    rt.block_on(async {
        for (i, op) in case.ops.iter().enumerate() {
            if trace() {
                let n = run.node.lock().unwrap();
                eprintln!("op #{i} {op:?}  [tip={:?} len={} forks={}]", n.world.tip_number(), n.world.chain.len(), n.world.forks);
            }
            match op {
                Op::Extend { n, seed } => run.extend(*n as usize, *seed as u64),
                Op::Fork { sel, raw, extra, seed } => run.fork(sel, *raw, *extra, *seed).await,
                Op::Restart => {
                    run.restart();
                    if run.fork_since_import {
                        run.restart_since_fork = true;
                    }
                    run.shape.push("R".into());
                }
                Op::Import { sel, raw, mid, crash, beacons } => {
                    let v = run.import(i, sel, *raw, mid, *crash, *beacons).await;
                    if let Verdict::Violation(..) = v {
                        verdict = v;
                        break;
                    }
                }
            }
        }
    });
    for l in &run.labels {
        rep.label(l.clone());
    }
    if run.cfg.prune_keep.is_some() {
        rep.label("pruning-on");
    }
    if run.checks > 0 {
        rep.label("oracle-evaluated");
    }
    if run.nontrivial {
        rep.nontrivial(format!("{}|p{}", run.shape.join(","), run.cfg.prune_keep.is_some() as u8));
    }
    if let Verdict::Violation(key, what) = verdict {
        rep.violation(key, what);
    }
    drop(run);
    drop(rt);
    rep
}

// ------------------------------------------------------------------------------------------------ witnesses

fn wcfg(initial_blocks: u8, max_per_poll: u8) -> Cfg {
    Cfg { max_per_poll, chunk: 1000, prune_keep: None, sp: 0, first_no: 1, first_slot: 1, initial_blocks, seed: 7, idle_timeout: false, bare: false }
}

fn wimport(sel: TargetSel, mid: Option<MidFork>, crash: Option<u8>) -> Op {
    Op::Import { sel, raw: 0, mid, crash, beacons: (1, 1) }
}

/// Minimal histories of the findings made with this check (each is re-run against the real code on every run).
pub fn witnesses() -> Vec<(&'static str, &'static str, Case)> {
    vec![
        (
            KEY_SKIP,
            "after a chain switch below the highest stored block, import(t) with t <= highest stored block does nothing: rolled-back blocks and their range roots stay and are offered for signing",
            Case {
                cfg: wcfg(40, 3),
                ops: vec![
                    wimport(TargetSel::Tip, None, None),
                    Op::Fork { sel: ForkSel::BelowHighestStored, raw: 4, extra: 0, seed: 1 },
                    wimport(TargetSel::Same, None, None),
                ],
            },
        ),
        (
            KEY_BELOW_ALL,
            "a roll-back to a point below every stored block (e.g. RollBackward(origin) after a restart whose resume point is no longer on the chain) deletes nothing: the new branch collides with the stale blocks",
            Case {
                cfg: wcfg(40, 3),
                ops: vec![
                    wimport(TargetSel::Tip, None, None),
                    Op::Fork { sel: ForkSel::BelowHighestStored, raw: 4, extra: 5, seed: 1 },
                    Op::Restart,
                    wimport(TargetSel::Tip, None, None),
                ],
            },
        ),
        (
            KEY_RB_FROM,
            "a roll-back to exactly the start point of the running scan is dropped by the block streamer although blocks after that point were already handed over and stored",
            Case {
                cfg: wcfg(30, 2),
                ops: vec![
                    wimport(TargetSel::CtxBeacon, None, None),
                    Op::Extend { n: 20, seed: 3 },
                    wimport(TargetSel::Tip, Some(MidFork { after_reads: 6, to_from: true, back: 0, extra: 0, seed: 5 }), None),
                ],
            },
        ),
        (
            KEY_SKIP_ROOTS,
            "a stop between storing the blocks and storing their block range roots is never repaired for the same target: the chunked importer skips the whole import, the Merkle root at the beacon misses the last ranges",
            Case {
                cfg: wcfg(40, 7),
                ops: vec![wimport(TargetSel::Tip, None, Some(7)), wimport(TargetSel::Same, None, None)],
            },
        ),
    ]
}

// ------------------------------------------------------------------------------------------------ entry

/// `import` runs on tokio's blocking pool; a panic of the code under test there is reported to the caller as an
/// error ("worker thread crashed") and handled by the case function, so the default hook's backtrace is only noise.
fn quiet_worker_panics() {
    let prev = std::panic::take_hook();
    std::panic::set_hook(Box::new(move |info| {
        let on_worker = std::thread::current().name().is_some_and(|n| n.starts_with("tokio-") || n.contains("blocking"));
        if !on_worker {
            prev(info);
        }
    }));
}

pub fn run(args: &Args) -> i32 {
    let mut check = Check::new("C13", "exploration", args);
    quiet_worker_panics();
    check
        .rule(
            "a case = stack configuration (poll size, chunk size, pruning, security parameter) + a history of <= 25 operations \
             (Extend, Fork by selector, Import with optional mid-import chain switch and optional store failure at the j-th \
             mutating call followed by a restart, Restart) executed against the real importer stack over a file-backed sqlite \
             database and a chain-sync model; non-trivial = the history contains an import that talked to the node while the \
             database held blocks of an abandoned branch (fork below the highest stored block), or after a restart between a \
             fork and the import, or on a new connection whose resume point is no longer on the chain, or with a chain switch \
             during the import; distinct = distinct sequence of operation outcome tags (+ pruning on/off)",
        )
        .assume("SimNode models the chain-sync follower contract of the real PallasChainReader (validated against the repo's FakeChainReader scenarios in section simnode-validation)")
        .assume("chain switches never shorten the chain (Ouroboros chain selection); block numbers are consecutive; no block at slot 0")
        .assume("with pruning enabled no chain switch is deeper than the number of blocks to keep (documented meaning of network_security_parameter)")
        .assume("MKTree / MKMap (mithril-common crypto_helper) are the trusted base of the independent root recomputation")
        .assume("a store failure is injected before the call reaches the database; each store call is one sqlite transaction")
        .assume("targets are non-decreasing and <= tip; while the database holds rolled-back blocks or lacks block range roots, only the `Same` target selector asks for a target that does not exceed the stored data (two open findings), every other selector is raised above it, as the callers' next beacon is once the chain has grown")
        .assume("an import that returns an error without an injected store failure or a reader time-out is a violation (a healthy node and store must be importable)")
        .assume("beacons compared for import-progress independence are aligned (b mod 15 in {0, 14}) as produced by the signing configurations with a step multiple of 15")
        .require_label("fork-below-highest-stored-then-import")
        .require_label("fork:at-range-boundary")
        .require_label("fork:to-first-stored-block")
        .require_label("restart-between-fork-and-import")
        .require_label("restart-with-stale-resume-point")
        .require_label("crash-injected")
        .require_label("crash-injected-inside-a-store-call")
        .require_label("mid-import-fork")
        .require_label("earlier-beacon-compared")
        .require_label("stack:bare-importer")
        .require_label("bare:import-with-missing-range-roots");
    check.shrink_iters(400);
    let t = check.tier;

    if !check.is_replay() {
        if let Err(e) = validate::validate_simnode() {
            check.inconclusive(format!("SimNode does not reproduce the FakeChainReader scenarios: {e}"));
            return check.finish();
        }
        check.note_section("simnode-validation", serde_json::json!({"scenarios": validate::SCENARIOS, "kind": "model validation", "result": "ok"}));
    }

    check.section("histories", case_strategy, t.pick(1000, 30000), run_case);

    for (key, what, case) in witnesses() {
        check.witness(key, what, || matches!(run_case(&case).outcome, vcore::Outcome::Violation { key: k, .. } if k == key));
    }

    crate::sut::remove_template_db();
    check.finish()
}
