//! Validation of the environment model: every scenario of the repo's own `ChainReaderBlockStreamer` tests (scripted
//! with `FakeChainReader`) is re-created as a *situation of the SimNode world* (a chain, prior follower activity, a
//! chain switch at a given moment). The check is that
//!   (a) the sequence of answers SimNode gives equals the hand-written FakeChainReader script of the scenario
//!       (minus the answer to find-intersect, which FakeChainReader does not model), and
//!   (b) the real `ChainReaderBlockStreamer` produces the same outputs and the same `last_polled_point`s over both.

use std::sync::Arc;

use mithril_cardano_node_chain::chain_scanner::{BlockStreamer, ChainReaderBlockStreamer, ChainScannedBlocks};
use mithril_cardano_node_chain::entities::{ChainBlockNextAction, RawCardanoPoint};
use mithril_cardano_node_chain::test::double::FakeChainReader;
use mithril_common::entities::{BlockNumber, SlotNumber};
use tokio::sync::Mutex;

use crate::simnode::{Blk, Idle, MidFork, Node, SimNodeReader, World};
use crate::sut::logger;

pub const SCENARIOS: usize = 10;

fn blk(hash: &str, number: u64, slot: u64) -> Blk {
    Blk { number, slot, hash: hash.as_bytes().to_vec(), txs: vec![] }
}

fn rf(b: &Blk) -> ChainBlockNextAction {
    ChainBlockNextAction::RollForward { parsed_block: b.scanned() }
}

fn rb(p: RawCardanoPoint) -> ChainBlockNextAction {
    ChainBlockNextAction::RollBackward { rollback_point: p }
}

type Out = Vec<(Option<ChainScannedBlocks>, Option<RawCardanoPoint>)>;

async fn drive(reader: Arc<Mutex<dyn mithril_cardano_node_chain::chain_reader::ChainBlockReader>>, from: Option<RawCardanoPoint>, until: u64, max: usize) -> Result<Out, String> {
    let mut s = ChainReaderBlockStreamer::try_new(reader, from, BlockNumber(until), max, logger()).await.map_err(|e| format!("{e:#}"))?;
    let mut out = vec![];
    for _ in 0..20 {
        let o = s.poll_next().await.map_err(|e| format!("{e:#}"))?;
        let done = o.is_none();
        out.push((o, s.last_polled_point()));
        if done {
            break;
        }
    }
    Ok(out)
}

struct Scenario {
    name: &'static str,
    chain: Vec<Blk>,
    /// follower activity before the scan: read this many answers on a new connection, then switch to a fork keeping
    /// `.1` blocks and growing `.2` new ones
    pre: Option<(usize, usize, usize)>,
    from: Option<RawCardanoPoint>,
    until: u64,
    max: usize,
    mid: Option<MidFork>,
    /// the FakeChainReader script of the scenario, written from the final world
    script: fn(&[Blk], &World) -> Vec<ChainBlockNextAction>,
    /// the script itself contains the answer to find-intersect (scenario "roll-back on the same point")
    keep_intersect_answer: bool,
}

fn scenarios() -> Vec<Scenario> {
    let c123 = || vec![blk("hash-1", 1, 10), blk("hash-2", 2, 20), blk("hash-3", 3, 30)];
    vec![
        Scenario {
            name: "nothing strictly above the block number threshold",
            chain: vec![blk("hash-1", 10, 100), blk("hash-2", 11, 101)],
            pre: None,
            from: None,
            until: 9,
            max: 100,
            mid: None,
            script: |c, _| vec![rf(&c[0]), rf(&c[1])],
            keep_intersect_answer: false,
        },
        Scenario {
            name: "multiple roll-forwards up to the threshold",
            chain: c123(),
            pre: None,
            from: None,
            until: 2,
            max: 100,
            mid: None,
            script: |c, _| vec![rf(&c[0]), rf(&c[1]), rf(&c[2])],
            keep_intersect_answer: false,
        },
        Scenario {
            name: "all roll-forwards when the threshold is above the highest block",
            chain: c123()[..2].to_vec(),
            pre: None,
            from: None,
            until: 100,
            max: 100,
            mid: None,
            script: |c, _| vec![rf(&c[0]), rf(&c[1])],
            keep_intersect_answer: false,
        },
        Scenario {
            name: "maximum roll-forwards per poll",
            chain: c123(),
            pre: None,
            from: None,
            until: 100,
            max: 2,
            mid: None,
            script: |c, _| vec![rf(&c[0]), rf(&c[1]), rf(&c[2])],
            keep_intersect_answer: false,
        },
        Scenario {
            name: "roll-backward on the same point yields nothing",
            chain: vec![blk("hash-123", 1, 100)],
            pre: None,
            from: Some(RawCardanoPoint::new(SlotNumber(100), "hash-123".as_bytes())),
            until: 1,
            max: 100,
            mid: None,
            script: |c, _| vec![rb(c[0].point())],
            keep_intersect_answer: true,
        },
        Scenario {
            name: "roll-backward on a different point without previous roll-forward",
            chain: vec![blk("hash-10", 1, 100), blk("hash-11", 2, 110)],
            pre: Some((3, 1, 0)),
            from: Some(RawCardanoPoint::new(SlotNumber(110), "hash-11".as_bytes())),
            until: 1000,
            max: 100,
            mid: None,
            script: |c, _| vec![rb(c[0].point())],
            keep_intersect_answer: false,
        },
        Scenario {
            name: "roll-backward into the buffered roll-forwards",
            chain: vec![blk("hash-8", 80, 8), blk("hash-9", 90, 9), blk("hash-10", 100, 10)],
            pre: None,
            from: None,
            until: 1000,
            max: 100,
            mid: Some(MidFork { after_reads: 4, to_from: false, back: 1, extra: 0, seed: 1 }),
            script: |c, w| vec![rf(&c[0]), rf(&c[1]), rf(&c[2]), rb(c[1].point()), rf(&w.chain[2])],
            keep_intersect_answer: false,
        },
        Scenario {
            name: "roll-backward below the buffered roll-forwards",
            chain: vec![blk("hash-3", 30, 3), blk("hash-5", 50, 5), blk("hash-8", 80, 8), blk("hash-9", 90, 9)],
            pre: None,
            from: Some(RawCardanoPoint::new(SlotNumber(5), "hash-5".as_bytes())),
            until: 1000,
            max: 100,
            mid: Some(MidFork { after_reads: 3, to_from: false, back: 3, extra: 0, seed: 2 }),
            script: |c, w| vec![rf(&c[2]), rf(&c[3]), rb(c[0].point()), rf(&w.chain[1]), rf(&w.chain[2]), rf(&w.chain[3])],
            keep_intersect_answer: false,
        },
        Scenario {
            name: "nothing to read",
            chain: vec![],
            pre: None,
            from: None,
            until: 1,
            max: 100,
            mid: None,
            script: |_, _| vec![],
            keep_intersect_answer: false,
        },
        Scenario {
            name: "new connection whose resume point is not on the chain starts at origin",
            chain: vec![blk("hash-10", 1, 100), blk("hash-11", 2, 110)],
            pre: None,
            from: Some(RawCardanoPoint::new(SlotNumber(105), "hash-zz".as_bytes())),
            until: 1000,
            max: 100,
            mid: None,
            script: |c, _| vec![rb(RawCardanoPoint::origin()), rf(&c[0]), rf(&c[1])],
            keep_intersect_answer: false,
        },
    ]
}

pub fn validate_simnode() -> Result<(), String> {
    let rt = tokio::runtime::Builder::new_current_thread().enable_all().build().map_err(|e| e.to_string())?;
    let list = scenarios();
    if list.len() != SCENARIOS {
        return Err("scenario count".into());
    }
    for sc in list {
        let mut world = World::new(1, 1);
        world.chain = sc.chain.clone();
        let node = Node::shared(world);
        node.lock().unwrap().idle = Idle::Nothing;
        if let Some((reads, keep, regrow)) = sc.pre {
            let mut n = node.lock().unwrap();
            n.set_chain_point(&RawCardanoPoint::origin());
            for _ in 0..reads {
                n.next().map_err(|e| e.to_string())?;
            }
            n.fork(keep, regrow, 7);
        }
        {
            let mut n = node.lock().unwrap();
            n.take_events();
            n.log = Some(vec![]);
            n.scheduled = sc.mid.clone();
        }
        let out_sim = rt.block_on(drive(Arc::new(Mutex::new(SimNodeReader { node: node.clone() })), sc.from.clone(), sc.until, sc.max))?;
        let (mut actions, world_after) = {
            let mut n = node.lock().unwrap();
            (n.log.take().unwrap_or_default(), n.world.clone())
        };
        let intersect_answer = rb(sc.from.clone().unwrap_or(RawCardanoPoint::origin()));
        if !sc.keep_intersect_answer && actions.first() == Some(&intersect_answer) {
            actions.remove(0);
        }
        let script = (sc.script)(&sc.chain, &world_after);
        if actions.len() > script.len() || script[..actions.len()] != actions[..] {
            return Err(format!("scenario '{}': SimNode answered {:?}, the FakeChainReader script is {:?}", sc.name, actions, script));
        }
        let out_fake = rt.block_on(drive(Arc::new(Mutex::new(FakeChainReader::new(script))), sc.from.clone(), sc.until, sc.max))?;
        if out_fake != out_sim {
            return Err(format!("scenario '{}': streamer over SimNode gave {:?}, over FakeChainReader {:?}", sc.name, out_sim, out_fake));
        }
    }
    Ok(())
}
