mod c13;
mod simnode;
mod sut;
mod validate;

fn main() {
    let args = vcore::parse_args();
    let which = args.rest.first().cloned().unwrap_or_default();
    let code = match which.as_str() {
        "C13" => c13::run(&args),
        other => {
            eprintln!("p-chain: unknown property '{other}'");
            2
        }
    };
    std::process::exit(code);
}
