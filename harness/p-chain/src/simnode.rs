//! `SimNode` — the environment model of C13: a Cardano node seen through the chain-sync mini-protocol, exposed as the
//! repo's `ChainBlockReader` trait with the contract of the REAL reader (`PallasChainReader`), not of `FakeChainReader`:
//!
//! * the node owns one canonical chain that is extended and switched to forks (a switch never shortens the chain:
//!   Ouroboros chain selection only adopts a candidate that is at least as long);
//! * every connection (follower) has a read pointer. A new connection starts at origin and its first instruction is
//!   `RollBackward(origin)` (ouroboros ChainDB follower `FollowerInit` = `RollBackTo genesis`);
//! * `set_chain_point(p)` = `MsgFindIntersect [p]`: when `p` is on the current chain the pointer moves to `p` and the
//!   next instruction is `RollBackward(p)`; when it is not (`MsgIntersectNotFound`) the pointer is left unchanged and
//!   the call still returns `Ok(())` (PallasChainReader ignores the intersect result). When the client has no agency
//!   (the last answer was `Await`) the call does nothing (PallasChainReader::find_intersect_point);
//! * when the chain is switched below a follower's pointer the pointer moves to the fork point and the next instruction
//!   is `RollBackward(fork point)`;
//! * at the tip the answer is `None` (`Await`); asking again while nothing new exists makes the real reader wait for
//!   its time-out, return an error and drop the connection — modelled as `Err` + disconnect.
//!
//! The world (chain + mempool) lives in a shared `Node`, the harness mutates it between operations and — through a
//! scheduled event — in the middle of an import, after a chosen number of answered requests.

use std::sync::{Arc, Mutex};

use async_trait::async_trait;
use mithril_cardano_node_chain::chain_reader::ChainBlockReader;
use mithril_cardano_node_chain::entities::{ChainBlockNextAction, RawCardanoPoint, ScannedBlock};
use mithril_common::StdResult;
use mithril_common::entities::{BlockNumber, SlotNumber};
use serde::{Deserialize, Serialize};

pub const TIMEOUT: &str = "SimNode: timed out waiting for next chain block from the Cardano node";

/// One block of the model chain.
#[derive(Clone, Debug, PartialEq, Eq)]
pub struct Blk {
    pub number: u64,
    pub slot: u64,
    pub hash: Vec<u8>,
    pub txs: Vec<String>,
}

impl Blk {
    pub fn hash_hex(&self) -> String {
        hex::encode(&self.hash)
    }
    pub fn scanned(&self) -> ScannedBlock {
        ScannedBlock::new(self.hash.clone(), BlockNumber(self.number), SlotNumber(self.slot), self.txs.clone())
    }
    pub fn point(&self) -> RawCardanoPoint {
        RawCardanoPoint::new(SlotNumber(self.slot), self.hash.clone())
    }
}

/// splitmix-like deterministic derivation (all "random" content of blocks derives from generated seeds)
pub fn h(a: u64, b: u64) -> u64 {
    vcore::mix(a ^ 0x5bd1_e995_c13c_13c1, b)
}

/// The chain as the node sees it.
#[derive(Clone, Debug)]
pub struct World {
    pub chain: Vec<Blk>,
    pub first_no: u64,
    pub first_slot: u64,
    /// fork generation: part of every block hash, so two branches never share a block hash
    pub branch: u32,
    /// transactions of rolled-back blocks: they are re-included by the blocks of the new branch (as on a real chain)
    pub mempool: Vec<String>,
    pub next_tx: u32,
    /// number of chain switches so far
    pub forks: u32,
}

impl World {
    pub fn new(first_no: u64, first_slot: u64) -> World {
        World { chain: vec![], first_no, first_slot: first_slot.max(1), branch: 0, mempool: vec![], next_tx: 0, forks: 0 }
    }
    pub fn tip_number(&self) -> Option<u64> {
        self.chain.last().map(|b| b.number)
    }
    /// append `n` blocks; contents derive from `seed`
    pub fn extend(&mut self, n: usize, seed: u64) {
        for i in 0..n {
            let r = h(seed, i as u64 + ((self.branch as u64) << 32));
            let (number, prev_slot) = match self.chain.last() {
                Some(b) => (b.number + 1, b.slot),
                None => (self.first_no, self.first_slot - 1),
            };
            let slot = prev_slot + 1 + (r % 3);
            let n_txs = ((r >> 8) % 4) as usize;
            let mut txs = vec![];
            for k in 0..n_txs {
                // re-include a rolled-back transaction first (2 out of 3 times), otherwise a new one
                if !self.mempool.is_empty() && (r >> (16 + 2 * k)) % 3 != 0 {
                    txs.push(self.mempool.remove(0));
                } else {
                    txs.push(format!("{:08x}", 0xa000_0000u32 + self.next_tx));
                    self.next_tx += 1;
                }
            }
            let mut hash = self.branch.to_be_bytes().to_vec();
            hash.extend_from_slice(&(number as u32).to_be_bytes());
            self.chain.push(Blk { number, slot, hash, txs });
        }
    }
    /// switch to a fork: keep the first `keep_len` blocks, grow `regrow` new ones. Returns the removed blocks.
    pub fn fork(&mut self, keep_len: usize, regrow: usize, seed: u64) -> Vec<Blk> {
        let keep_len = keep_len.min(self.chain.len());
        let removed = self.chain.split_off(keep_len);
        for b in &removed {
            self.mempool.extend(b.txs.iter().cloned());
        }
        self.branch += 1;
        self.forks += 1;
        self.extend(regrow, seed);
        removed
    }
}

/// Scheduled chain switch in the middle of an import.
#[derive(Clone, Debug, Serialize, Deserialize, PartialEq)]
pub struct MidFork {
    /// the switch happens just before the node answers request number `after_reads` (0-based) of the import
    pub after_reads: u8,
    /// fork point: `to_from` = exactly the intersection point of this import, otherwise `back` blocks behind the
    /// follower's read pointer
    pub to_from: bool,
    pub back: u8,
    /// the new branch is `extra` blocks longer than the abandoned one
    pub extra: u8,
    pub seed: u16,
}

#[derive(Clone, Debug, Default)]
pub struct Conn {
    /// number of chain blocks the follower has been sent (0 = at origin)
    pub read_idx: usize,
    pub pending_rollback: bool,
    /// the client has no agency (last answer was Await)
    pub awaiting: bool,
    /// chain index of the start point of the current scan when that point is on the chain
    pub from_idx: Option<usize>,
}

/// What the node did during one import (used by the harness to classify a history).
#[derive(Clone, Debug, Default)]
pub struct Events {
    pub requests: u32,
    pub forwards: u32,
    pub intersect_found: u32,
    pub intersect_not_found: u32,
    pub intersect_skipped_no_agency: u32,
    pub fresh_connection: bool,
    pub rollback_to_origin: u32,
    /// natural roll-backs (chain switch below the pointer) that were delivered
    pub rollbacks: u32,
    /// a roll-back was delivered whose slot equals the slot of the intersection point of this scan although blocks
    /// had been sent after the intersection
    pub rollback_to_from_after_forwards: u32,
    /// lowest block-number index (keep_len) any delivered roll-back pointed to
    pub lowest_rollback_keep: Option<usize>,
    pub awaits: u32,
    pub timeouts: u32,
    pub auto_extended: u32,
    pub mid_fork_applied: Option<(usize, usize)>,
}

/// What happens when the follower asks again while it is already waiting at the tip and nothing new exists.
#[derive(Clone, Copy, Debug, PartialEq)]
pub enum Idle {
    /// time passes until the node adopts its next block, which is the answer (the usual outcome on a live network)
    NewBlock,
    /// the real reader's 60 s time-out elapses first: error, the connection is dropped
    Timeout,
    /// answer "nothing" again (what FakeChainReader does; model validation only)
    Nothing,
}

pub struct Node {
    pub world: World,
    pub idle: Idle,
    pub conn: Option<Conn>,
    pub scheduled: Option<MidFork>,
    /// limit of the depth of a chain switch (pruning precondition: no roll-back deeper than the security parameter)
    pub max_fork_depth: Option<usize>,
    pub ev: Events,
    /// when set, every answer is recorded (model validation)
    pub log: Option<Vec<ChainBlockNextAction>>,
    /// `from` of the current scan (set by set_chain_point), slot only — mirrors what the streamer compares with
    scan_from_slot: Option<u64>,
    forwards_since_scan_start: u32,
}

pub type SharedNode = Arc<Mutex<Node>>;

impl Node {
    pub fn new(world: World) -> Node {
        Node { world, idle: Idle::NewBlock, conn: None, scheduled: None, max_fork_depth: None, ev: Events::default(), log: None, scan_from_slot: None, forwards_since_scan_start: 0 }
    }
    pub fn shared(world: World) -> SharedNode {
        Arc::new(Mutex::new(Node::new(world)))
    }
    pub fn take_events(&mut self) -> Events {
        std::mem::take(&mut self.ev)
    }
    /// the connection is closed (process restart / reader dropped)
    pub fn disconnect(&mut self) {
        self.conn = None;
    }
    pub fn extend(&mut self, n: usize, seed: u64) {
        self.world.extend(n, seed);
    }
    /// chain switch; followers beyond the fork point are rolled back to it
    pub fn fork(&mut self, keep_len: usize, regrow: usize, seed: u64) -> Vec<Blk> {
        let removed = self.world.fork(keep_len, regrow, seed);
        if let Some(c) = self.conn.as_mut() {
            if c.read_idx > keep_len {
                c.read_idx = keep_len;
                c.pending_rollback = true;
            }
        }
        removed
    }
    fn point_at(&self, idx: usize) -> RawCardanoPoint {
        if idx == 0 { RawCardanoPoint::origin() } else { self.world.chain[idx - 1].point() }
    }
    fn connect(&mut self) {
        if self.conn.is_none() {
            self.conn = Some(Conn { read_idx: 0, pending_rollback: true, awaiting: false, from_idx: None });
            self.ev.fresh_connection = true;
        }
    }
    fn apply_scheduled(&mut self) {
        let Some(m) = self.scheduled.clone() else { return };
        if self.ev.requests < m.after_reads as u32 {
            return;
        }
        self.scheduled = None;
        let c = self.conn.clone().unwrap_or_default();
        let len = self.world.chain.len();
        let mut keep = match (m.to_from, c.from_idx) {
            (true, Some(idx)) => idx,
            _ => c.read_idx.saturating_sub(m.back as usize),
        };
        keep = keep.min(len);
        if let Some(d) = self.max_fork_depth {
            keep = keep.max(len.saturating_sub(d));
        }
        if keep >= len {
            return; // nothing to abandon
        }
        let regrow = (len - keep) + m.extra as usize;
        self.fork(keep, regrow, m.seed as u64 ^ 0x6d69_64);
        self.ev.mid_fork_applied = Some((keep, regrow));
    }

    pub fn set_chain_point(&mut self, point: &RawCardanoPoint) {
        self.connect();
        self.scan_from_slot = Some(*point.slot_number);
        self.forwards_since_scan_start = 0;
        let found = if point.is_origin() {
            Some(0)
        } else {
            self.world
                .chain
                .iter()
                .position(|b| b.slot == *point.slot_number && b.hash == point.block_hash)
                .map(|i| i + 1)
        };
        // remembered for the `to_from` selector of a scheduled chain switch only
        self.conn.as_mut().unwrap().from_idx = found;
        let awaiting = self.conn.as_ref().unwrap().awaiting;
        if awaiting {
            self.ev.intersect_skipped_no_agency += 1;
            return;
        }
        match found {
            Some(idx) => {
                let c = self.conn.as_mut().unwrap();
                c.read_idx = idx;
                c.pending_rollback = true;
                self.ev.intersect_found += 1;
            }
            None => self.ev.intersect_not_found += 1,
        }
    }

    pub fn next(&mut self) -> StdResult<Option<ChainBlockNextAction>> {
        let r = self.next_inner();
        if let (Some(log), Ok(Some(a))) = (self.log.as_mut(), &r) {
            log.push(a.clone());
        }
        r
    }

    fn next_inner(&mut self) -> StdResult<Option<ChainBlockNextAction>> {
        self.connect();
        self.apply_scheduled();
        self.ev.requests += 1;
        let c = self.conn.clone().unwrap();
        if c.pending_rollback {
            let p = self.point_at(c.read_idx);
            {
                let c = self.conn.as_mut().unwrap();
                c.pending_rollback = false;
                c.awaiting = false;
            }
            if c.read_idx == 0 {
                self.ev.rollback_to_origin += 1;
            }
            self.ev.rollbacks += 1;
            self.ev.lowest_rollback_keep = Some(self.ev.lowest_rollback_keep.map_or(c.read_idx, |l| l.min(c.read_idx)));
            if self.forwards_since_scan_start > 0 && Some(*p.slot_number) == self.scan_from_slot {
                self.ev.rollback_to_from_after_forwards += 1;
            }
            return Ok(Some(ChainBlockNextAction::RollBackward { rollback_point: p }));
        }
        if c.read_idx < self.world.chain.len() {
            let b = self.world.chain[c.read_idx].scanned();
            let c = self.conn.as_mut().unwrap();
            c.read_idx += 1;
            c.awaiting = false;
            self.ev.forwards += 1;
            self.forwards_since_scan_start += 1;
            return Ok(Some(ChainBlockNextAction::RollForward { parsed_block: b }));
        }
        if !c.awaiting {
            self.conn.as_mut().unwrap().awaiting = true;
            self.ev.awaits += 1;
            return Ok(None);
        }
        // the real reader now blocks in `recv_while_must_reply` until the node has something new or its time-out elapses
        match self.idle {
            Idle::Nothing => Ok(None),
            Idle::NewBlock => {
                let seed = h(0x1d1e, self.world.chain.len() as u64);
                self.world.extend(1, seed);
                self.ev.auto_extended += 1;
                let b = self.world.chain[c.read_idx].scanned();
                let c = self.conn.as_mut().unwrap();
                c.read_idx += 1;
                c.awaiting = false;
                self.ev.forwards += 1;
                self.forwards_since_scan_start += 1;
                Ok(Some(ChainBlockNextAction::RollForward { parsed_block: b }))
            }
            Idle::Timeout => {
                self.ev.timeouts += 1;
                self.conn = None;
                Err(anyhow::anyhow!("{TIMEOUT}"))
            }
        }
    }
}

/// The `ChainBlockReader` handed to the real `CardanoBlockScanner`.
pub struct SimNodeReader {
    pub node: SharedNode,
}

#[async_trait]
impl ChainBlockReader for SimNodeReader {
    async fn set_chain_point(&mut self, point: &RawCardanoPoint) -> StdResult<()> {
        self.node.lock().unwrap().set_chain_point(point);
        Ok(())
    }
    async fn get_next_chain_block(&mut self) -> StdResult<Option<ChainBlockNextAction>> {
        self.node.lock().unwrap().next()
    }
}
