//! The system under test, wired as `mithril-signer`'s dependency builder wires it:
//! `ChainDataImporterByChunk( ChainDataImporterWithPruner( CardanoChainDataImporter( CardanoBlockScanner(reader), store ) ) )`
//! over a file-backed sqlite `SignerCardanoChainDataRepository` (pool of 1 connection, foreign keys enabled, the
//! repo's migrations) and the two signable builders reading block-range roots from the same repository.
//! The only harness pieces are the reader (`SimNodeReader`) and `FaultyStore`, a transparent decorator of the store
//! that can make the j-th mutating store call fail *before* it touches the database (crash point).

use std::collections::BTreeSet;
use std::ops::Range;
use std::path::Path;
use std::sync::Arc;
use std::sync::atomic::{AtomicI64, AtomicU64, Ordering};

use async_trait::async_trait;
use mithril_cardano_node_chain::chain_importer::{
    CardanoChainDataImporter, ChainDataImporter, ChainDataImporterByChunk, ChainDataImporterWithPruner, ChainDataPruner,
    ChainDataStore, HighestStoredBlockNumberGetter,
};
use mithril_cardano_node_chain::chain_scanner::CardanoBlockScanner;
use mithril_common::StdResult;
use mithril_common::crypto_helper::MKTreeNode;
use mithril_common::entities::{
    BlockNumber, BlockNumberOffset, BlockRange, CardanoBlockTransactionMkTreeNode, CardanoBlockWithTransactions,
    CardanoTransaction, ChainPoint, ProtocolMessagePartKey, SlotNumber,
};
use mithril_common::signable_builder::{
    CardanoBlocksTransactionsSignableBuilder, CardanoTransactionsSignableBuilder, SignableBuilder,
};
use mithril_persistence::sqlite::{ConnectionBuilder, ConnectionOptions};
use mithril_signer::database::repository::SignerCardanoChainDataRepository;
use mithril_signer::services::SignerChainDataImporter;
use mithril_signer::store::MKTreeStoreSqlite;

use crate::simnode::{SharedNode, SimNodeReader};

pub const INJECTED: &str = "C13-INJECTED-STORE-FAILURE";

pub fn logger() -> slog::Logger {
    slog::Logger::root(slog::Discard, slog::o!())
}

/// Decorator of the real store. `countdown` > 0: the countdown-th mutating call from now fails before reaching the
/// database; 0 = disarmed.
pub struct FaultyStore {
    inner: Arc<SignerCardanoChainDataRepository>,
    /// the database file (a second connection installs the trigger of an "inside" fault)
    db_path: std::path::PathBuf,
    /// the armed fault strikes INSIDE `store_blocks_and_transactions`: sqlite aborts the insert of the batch's last
    /// transaction (a trigger), i.e. the process dies between two statements of one store call
    inside: std::sync::atomic::AtomicBool,
    pub fired_inside: AtomicU64,
    countdown: AtomicI64,
    pub mutating_calls: AtomicU64,
    pub fired: AtomicU64,
    /// number of roll-backs whose slot was below the slot of every stored block while blocks were stored
    pub rollbacks_below_all_stored: AtomicU64,
    pub rollbacks: AtomicU64,
}

impl FaultyStore {
    pub fn new(inner: Arc<SignerCardanoChainDataRepository>, db_path: &Path) -> Self {
        FaultyStore { inner, db_path: db_path.to_path_buf(), inside: std::sync::atomic::AtomicBool::new(false), fired_inside: AtomicU64::new(0), countdown: AtomicI64::new(0), mutating_calls: AtomicU64::new(0), fired: AtomicU64::new(0), rollbacks_below_all_stored: AtomicU64::new(0), rollbacks: AtomicU64::new(0) }
    }
    pub fn arm(&self, j: u32) {
        self.countdown.store(j as i64, Ordering::SeqCst);
        self.fired.store(0, Ordering::SeqCst);
    }
    pub fn arm_inside(&self, j: u32) {
        self.arm(j);
        self.inside.store(true, Ordering::SeqCst);
    }
    pub fn disarm(&self) {
        self.countdown.store(0, Ordering::SeqCst);
        self.inside.store(false, Ordering::SeqCst);
    }
    fn side_connection(&self) -> StdResult<mithril_persistence::sqlite::SqliteConnection> {
        ConnectionBuilder::open_file(&self.db_path).build()
    }
    pub fn has_fired(&self) -> bool {
        self.fired.load(Ordering::SeqCst) > 0
    }
    fn gate(&self, what: &str) -> StdResult<()> {
        self.mutating_calls.fetch_add(1, Ordering::SeqCst);
        let c = self.countdown.load(Ordering::SeqCst);
        if c > 0 {
            self.countdown.store(c - 1, Ordering::SeqCst);
            if c == 1 {
                self.fired.fetch_add(1, Ordering::SeqCst);
                return Err(anyhow::anyhow!("{INJECTED} before {what}"));
            }
        }
        Ok(())
    }
}

#[async_trait]
impl ChainDataStore for FaultyStore {
    async fn get_highest_beacon(&self) -> StdResult<Option<ChainPoint>> {
        ChainDataStore::get_highest_beacon(&*self.inner).await
    }
    async fn get_highest_block_range(&self) -> StdResult<Option<BlockRange>> {
        self.inner.get_highest_block_range().await
    }
    async fn get_highest_legacy_block_range(&self) -> StdResult<Option<BlockRange>> {
        self.inner.get_highest_legacy_block_range().await
    }
    async fn store_blocks_and_transactions(&self, b: Vec<CardanoBlockWithTransactions>) -> StdResult<()> {
        if self.inside.load(Ordering::SeqCst) && self.countdown.load(Ordering::SeqCst) == 1 {
            // the fault strikes inside this call, if the batch stores a transaction at all (else: before it, as usual)
            if let Some(last_tx) = b.iter().rev().flat_map(|blk| blk.transactions_hashes.iter().rev()).next().cloned() {
                self.mutating_calls.fetch_add(1, Ordering::SeqCst);
                self.countdown.store(0, Ordering::SeqCst);
                let side = self.side_connection()?;
                side.execute(format!(
                    "create trigger verif_abort before insert on cardano_tx when NEW.transaction_hash = '{last_tx}' begin select raise(abort, '{INJECTED} inside store_blocks_and_transactions'); end;"
                ))?;
                drop(side);
                // (the repository panics on a failing insert: run the call as a task of its own so that the trigger
                // can be removed again; a process that dies here runs no further code either)
                let inner = self.inner.clone();
                let r = tokio::task::spawn(async move { ChainDataStore::store_blocks_and_transactions(&*inner, b).await }).await;
                let side = self.side_connection()?;
                side.execute("drop trigger if exists verif_abort;")?;
                return match r {
                    Ok(Ok(())) => Ok(()),
                    Ok(Err(e)) => {
                        self.fired.fetch_add(1, Ordering::SeqCst);
                        self.fired_inside.fetch_add(1, Ordering::SeqCst);
                        Err(anyhow::anyhow!("{INJECTED} inside store_blocks_and_transactions: {e:#}"))
                    }
                    Err(join) => {
                        self.fired.fetch_add(1, Ordering::SeqCst);
                        self.fired_inside.fetch_add(1, Ordering::SeqCst);
                        Err(anyhow::anyhow!("{INJECTED} inside store_blocks_and_transactions: the call died ({join})"))
                    }
                };
            }
        }
        self.gate("store_blocks_and_transactions")?;
        ChainDataStore::store_blocks_and_transactions(&*self.inner, b).await
    }
    async fn get_blocks_and_transactions_in_range(
        &self,
        range: Range<BlockNumber>,
    ) -> StdResult<BTreeSet<CardanoBlockTransactionMkTreeNode>> {
        self.inner.get_blocks_and_transactions_in_range(range).await
    }
    async fn get_transactions_in_range(&self, range: Range<BlockNumber>) -> StdResult<Vec<CardanoTransaction>> {
        self.inner.get_transactions_in_range(range).await
    }
    async fn store_block_range_roots(&self, r: Vec<(BlockRange, MKTreeNode)>) -> StdResult<()> {
        self.gate("store_block_range_roots")?;
        self.inner.store_block_range_roots(r).await
    }
    async fn store_legacy_block_range_roots(&self, r: Vec<(BlockRange, MKTreeNode)>) -> StdResult<()> {
        self.gate("store_legacy_block_range_roots")?;
        self.inner.store_legacy_block_range_roots(r).await
    }
    async fn remove_rolled_chain_data_and_block_range(&self, slot_number: SlotNumber) -> StdResult<()> {
        self.gate("remove_rolled_chain_data_and_block_range")?;
        // observation only (classification of histories): is the roll-back point below every stored block?
        self.rollbacks.fetch_add(1, Ordering::SeqCst);
        let blocks = self.inner.get_all_blocks().await?;
        if !blocks.is_empty() && blocks.iter().all(|b| b.slot_number > slot_number) {
            self.rollbacks_below_all_stored.fetch_add(1, Ordering::SeqCst);
        }
        self.inner.remove_rolled_chain_data_and_block_range(slot_number).await
    }
    async fn optimize(&self) -> StdResult<()> {
        ChainDataStore::optimize(&*self.inner).await
    }
}

#[async_trait]
impl ChainDataPruner for FaultyStore {
    async fn prune(&self, number_of_blocks_to_keep: BlockNumber) -> StdResult<()> {
        self.gate("prune")?;
        self.inner.prune(number_of_blocks_to_keep).await
    }
}

#[async_trait]
impl HighestStoredBlockNumberGetter for FaultyStore {
    async fn get(&self) -> StdResult<Option<BlockNumber>> {
        HighestStoredBlockNumberGetter::get(&*self.inner).await
    }
}

/// An empty database with all migrations applied, built once per process; new databases are byte copies of it
/// (opening such a copy finds the migrations already applied), which saves a dozen synchronous transactions per database.
pub fn create_empty_db(path: &Path) -> StdResult<()> {
    static TEMPLATE: std::sync::OnceLock<std::path::PathBuf> = std::sync::OnceLock::new();
    let template = TEMPLATE.get_or_init(|| {
        let p = std::env::temp_dir().join(format!("vf-c13-template-{}.sqlite3", std::process::id()));
        let _ = std::fs::create_dir_all(std::env::temp_dir());
        let _ = std::fs::remove_file(&p);
        let pool = ConnectionBuilder::open_file(&p)
            .with_options(&[ConnectionOptions::EnableForeignKeys])
            .with_migrations(mithril_persistence::database::cardano_transaction_migration::get_migrations())
            .build_pool(1)
            .expect("template database");
        drop(pool);
        p
    });
    std::fs::copy(template, path)?;
    Ok(())
}

pub fn remove_template_db() {
    let _ = std::fs::remove_file(std::env::temp_dir().join(format!("vf-c13-template-{}.sqlite3", std::process::id())));
}

#[derive(Clone, Debug)]
pub struct StackCfg {
    pub max_per_poll: usize,
    pub chunk: u64,
    pub prune_keep: Option<u64>,
    /// the aggregator's wiring: `CardanoChainDataImporter` without the chunking / pruning decorators
    pub bare: bool,
}

/// Everything a signer process holds about chain data; dropping it = stopping the process.
pub struct Sut {
    pub repo: Arc<SignerCardanoChainDataRepository>,
    pub store: Arc<FaultyStore>,
    pub importer: Arc<dyn ChainDataImporter>,
    ctx_builder: CardanoTransactionsSignableBuilder<MKTreeStoreSqlite>,
    cbtx_builder: CardanoBlocksTransactionsSignableBuilder<MKTreeStoreSqlite>,
}

/// Stored state, in a canonical order.
#[derive(Clone, Debug, PartialEq, Eq, Default)]
pub struct Dump {
    /// (block_number, slot, block_hash)
    pub blocks: Vec<(u64, u64, String)>,
    /// (block_number, tx_hash, slot, block_hash)
    pub txs: Vec<(u64, String, u64, String)>,
    /// (start, end, root)
    pub roots: Vec<(u64, u64, String)>,
    pub legacy_roots: Vec<(u64, u64, String)>,
}

impl Sut {
    /// open (or re-open) the database at `db` and build the whole stack on a new connection to the node
    pub fn open(db: &Path, node: SharedNode, cfg: &StackCfg) -> StdResult<Sut> {
        let pool = Arc::new(
            ConnectionBuilder::open_file(db)
                .with_options(&[ConnectionOptions::EnableForeignKeys])
                .with_migrations(mithril_persistence::database::cardano_transaction_migration::get_migrations())
                .build_pool(1)?,
        );
        let repo = Arc::new(SignerCardanoChainDataRepository::new(pool));
        let store = Arc::new(FaultyStore::new(repo.clone(), db));
        node.lock().unwrap().disconnect();
        let reader = SimNodeReader { node };
        let scanner =
            Arc::new(CardanoBlockScanner::new(Arc::new(tokio::sync::Mutex::new(reader)), cfg.max_per_poll, logger()));
        let base = Arc::new(CardanoChainDataImporter::new(scanner, store.clone(), logger()));
        let with_pruner =
            Arc::new(ChainDataImporterWithPruner::new(cfg.prune_keep.map(BlockNumber), store.clone(), base.clone(), logger()));
        let importer: Arc<dyn ChainDataImporter> = if cfg.bare {
            base
        } else {
            Arc::new(ChainDataImporterByChunk::new(store.clone(), with_pruner, BlockNumber(cfg.chunk), logger()))
        };
        let signer_importer = Arc::new(SignerChainDataImporter::new(importer.clone()));
        let ctx_builder = CardanoTransactionsSignableBuilder::<MKTreeStoreSqlite>::new(signer_importer.clone(), repo.clone());
        let cbtx_builder =
            CardanoBlocksTransactionsSignableBuilder::<MKTreeStoreSqlite>::new(signer_importer, repo.clone());
        Ok(Sut { repo, store, importer, ctx_builder, cbtx_builder })
    }

    pub async fn import(&self, target: u64) -> StdResult<()> {
        self.importer.import(BlockNumber(target)).await
    }

    pub async fn dump(&self) -> StdResult<Dump> {
        let mut d = Dump::default();
        for b in self.repo.get_all_blocks().await? {
            d.blocks.push((*b.block_number, *b.slot_number, b.block_hash));
        }
        for t in self.repo.get_all_transactions().await? {
            d.txs.push((*t.block_number, t.transaction_hash, *t.slot_number, t.block_hash));
        }
        for r in self.repo.get_all_block_range_root()? {
            d.roots.push((*r.range.start, *r.range.end, r.merkle_root.to_hex()));
        }
        for r in self.repo.get_all_legacy_block_range_root()? {
            d.legacy_roots.push((*r.range.start, *r.range.end, r.merkle_root.to_hex()));
        }
        d.blocks.sort();
        d.txs.sort();
        d.roots.sort();
        d.legacy_roots.sort();
        Ok(d)
    }

    /// Merkle root the `CardanoTransactions` signable builder offers for signing at `beacon`
    /// (the builder calls `import(beacon)` first, exactly as in the signer)
    pub async fn ctx_root(&self, beacon: u64) -> StdResult<String> {
        let msg = match self.ctx_builder.compute_protocol_message(BlockNumber(beacon)).await {
            // the reader's time-out at the tip (the signer would retry on its next cycle with a new connection)
            Err(e) if format!("{e:#}").contains(crate::simnode::TIMEOUT) => {
                self.ctx_builder.compute_protocol_message(BlockNumber(beacon)).await?
            }
            r => r?,
        };
        Ok(msg.get_message_part(&ProtocolMessagePartKey::CardanoTransactionsMerkleRoot).cloned().unwrap_or_default())
    }

    /// Merkle root the `CardanoBlocksTransactions` signable builder offers for signing at `beacon`
    pub async fn cbtx_root(&self, beacon: u64) -> StdResult<String> {
        let msg = match self.cbtx_builder.compute_protocol_message((BlockNumber(beacon), BlockNumberOffset(0))).await {
            Err(e) if format!("{e:#}").contains(crate::simnode::TIMEOUT) => {
                self.cbtx_builder.compute_protocol_message((BlockNumber(beacon), BlockNumberOffset(0))).await?
            }
            r => r?,
        };
        Ok(msg
            .get_message_part(&ProtocolMessagePartKey::CardanoBlocksTransactionsMerkleRoot)
            .cloned()
            .unwrap_or_default())
    }
}
