//! C15 — an aggregator crash at any point leaves a verifiable store and resumable rounds.
//!
//! Fault enumeration over generated histories on the real aggregator (same system as C14, see sut.rs / run.rs).
//! The repository carries named crash points (`mithril_aggregator::verif_hooks`, compiled only with
//! `--cfg mithril_verif`) before/after every persistence step of certificate sealing, artifact production and the
//! buffered-signature hand-over. An armed crash point parks the running future forever; the harness then drops
//! the aggregator where it stands, shuts the tokio runtime it lived on down (every spawned task dies with it: no
//! error handling, no shutdown code runs), and boots a new aggregator on the same directories on a fresh runtime.
//!
//! A crash case = (history, list of 1..2 stops). Every history is first run crash-free (the *twin*), which also
//! counts how often every crash point executes; the enumerated section then stops the same history at EVERY
//! (crash point, occurrence) seen in the twin, plus "two stops in a row" variants; the generated section samples
//! (history, point, occurrence, second stop, ticks after restart) with shrinking.
//!
//! Oracle (after the restart, after k further cycles, and at the end of the history + a healthy epilogue):
//!   O1 every stored certificate verifies with its whole chain (fresh mithril_common verifier; at the end also the
//!      mithril-client verifier on the HTTP view);
//!   O2 no signed entity (type + beacon) has two artifacts;
//!   O3 every artifact's certificate exists and certifies exactly that signed entity;
//!   O4 progress, as a differential with the twin: signers sign every entity once (an acknowledged submission is
//!      never repeated), the environment of both runs is the same history, the crashed run additionally gets a
//!      recovery round after each restart; whatever entity of the FINAL time point the twin certified / produced
//!      an artifact for must be certified / have an artifact in the crashed run too, and the aggregator must not
//!      end blocked when the twin does not;
//!   O5 no round stays open with its quorum stored (same clause as C16's, evaluated on every cycle of the run, in
//!      particular on the cycles after a restart): when the signatures that parties got stored under their own
//!      name for the open message the state machine is working on reach the quorum, that cycle certifies it. This
//!      is the "interrupted round is completed" half of the progress clause, judged where it happens rather than
//!      at the end of the epilogue, three epochs later, where a round that stayed stuck has long been superseded.

use std::collections::{BTreeMap, BTreeSet, VecDeque};
use std::sync::{Arc, Mutex};

use proptest::prelude::*;
use serde::{Deserialize, Serialize};
use vcore::{Args, Check, Report};

use mithril_aggregator::verif_hooks as hooks;
use mithril_common::certificate_chain::{CertificateVerifier, MithrilCertificateVerifier};
use mithril_common::entities::Certificate;
use mithril_common::messages::CertificateMessage;

use crate::run::{Flavour, IdxList, Inlet, Label, MapRequester, MapRetriever, Op, RegEpoch, Run, RunOpts, SignOp, Source, Target, tkey};
use crate::sut::{SutConfig, case_runtime};

pub const POINTS: &[&str] = &[
    "certificate:before-insert",
    "certificate:after-insert",
    "certificate:after-open-message-update",
    "artifact:before-compute",
    "artifact:after-compute",
    "artifact:after-store",
    "buffer:after-open-message-created",
    "buffer:after-signature-handed-over",
    "buffer:before-remove",
    "buffer:after-remove",
];

#[derive(Clone, Debug, PartialEq, Serialize, Deserialize)]
pub enum Occ {
    /// the n-th execution of the point (counted from 1 since the process started)
    Nth(u32),
    /// generated: mapped monotonically onto 1..=count of the crash-free twin
    Raw(u16),
}

#[derive(Clone, Debug, Serialize, Deserialize)]
pub struct Stop {
    pub point: u8,
    pub occ: Occ,
    /// healthy cycles right after the restart, before the store is looked at again
    pub ticks_after: u8,
}

#[derive(Clone, Debug, Serialize, Deserialize)]
pub struct Case {
    pub cfg: SutConfig,
    pub ops: Vec<Op>,
    pub stops: Vec<Stop>,
}

// ------------------------------------------------------------------------------------------------ histories

fn sign(mask: u16, target: Target, inlet: Inlet) -> Op {
    Op::Sign(SignOp { mask, target, flavour: Flavour::Valid, inlet, label: Label::Own, source: Source::Own, idx: IdxList::Matching })
}

fn cfg_strategy() -> impl Strategy<Value = SutConfig> {
    (
        prop_oneof![2 => Just((5u64, 100u64, 95u8)), 2 => Just((30u64, 100u64, 65u8))],
        3u8..=5,
        prop_oneof![3 => Just(true), 1 => Just(false)],
        prop_oneof![3 => Just(false), 1 => Just(true)],
        prop_oneof![2 => Just(false), 1 => Just(true)],
    )
        .prop_map(|((k, m, phi_pct), n_signers, cardano_database, cardano_transactions, cardano_stake_distribution)| SutConfig {
            k,
            m,
            phi_pct,
            n_signers,
            cardano_database,
            cardano_transactions,
            cardano_stake_distribution,
            zero_stake_party: false,
        })
}

/// What happens during one Cardano epoch: registration for the epoch after next, signing rounds, new immutable
/// files / blocks (sometimes with signatures that arrive before the aggregator opened the message: buffered path),
/// a little noise (partial rounds, clean restarts, an expiry), then the epoch change (again with early signatures).
fn block_strategy(n: u8) -> impl Strategy<Value = Vec<Op>> {
    let full = (1u16 << n) - 1;
    let mask = move || prop_oneof![4 => Just(full), 1 => 1u16..=full];
    let inlet = || prop_oneof![3 => Just(Inlet::Http), 1 => Just(Inlet::Dmq)];
    let round = (mask(), inlet(), 1u8..=2).prop_map(|(m, i, t)| vec![sign(m, Target::Current(0), i), Op::Tick(t)]);
    let early = move || prop_oneof![2 => Just(None), 3 => (mask(), any::<u16>(), inlet()).prop_map(|(m, i, inl)| Some(sign(m, Target::NotYetOpen(i), inl)))];
    let event = (prop_oneof![3 => Just(Op::ImmutableUp), 2 => (20u8..=70).prop_map(Op::BlocksUp)], early(), prop::collection::vec(round.clone(), 1..=2)).prop_map(|(ev, early, rounds)| {
        let mut v = vec![ev];
        v.extend(early);
        v.push(Op::Tick(2));
        v.extend(rounds.into_iter().flatten());
        v
    });
    let noise = prop_oneof![
        4 => Just(None),
        1 => Just(Some(Op::Restart)),
        1 => any::<u16>().prop_map(|i| Some(Op::Expire(i))),
        1 => Just(Some(Op::Tick(1))),
    ];
    (
        prop_oneof![10 => Just(Some(full)), 3 => (1u16..=full).prop_map(Some), 1 => Just(None)],
        prop::collection::vec(round, 1..=3),
        prop::collection::vec(event, 0..=2),
        noise,
        any::<u16>(),
        early(),
    )
        .prop_map(move |(reg, rounds, events, noise, at, early)| {
            let mut v: Vec<Op> = vec![];
            if let Some(m) = reg {
                v.push(Op::Register { mask: m, keygen: 0, when: RegEpoch::Current });
            }
            v.extend(rounds.into_iter().flatten());
            for e in events {
                v.extend(e);
            }
            if let Some(nz) = noise {
                let pos = vcore::pick_index(at, v.len() + 1);
                v.insert(pos, nz);
            }
            // signatures that arrive early: after the aggregator entered the epoch (two cycles), before it opened the message
            v.push(Op::EpochUp(1));
            v.push(Op::Tick(2));
            v.extend(early);
            v.push(Op::Tick(2));
            v
        })
}

fn history_strategy() -> impl Strategy<Value = (SutConfig, Vec<Op>)> {
    cfg_strategy().prop_flat_map(|cfg| {
        let n = cfg.n_signers;
        let full = (1u16 << n) - 1;
        (Just(cfg), prop::collection::vec(block_strategy(n), 2..=3)).prop_map(move |(cfg, blocks)| {
            let mut ops = vec![Op::Tick(1), Op::Register { mask: full, keygen: 0, when: RegEpoch::Current }, Op::EpochUp(1), Op::Tick(3)];
            for b in blocks {
                ops.extend(b);
            }
            (cfg, ops)
        })
    })
}

fn stop_strategy() -> impl Strategy<Value = Stop> {
    (
        0u8..POINTS.len() as u8,
        any::<u16>(),
        prop_oneof![Just(0u8), Just(1u8), Just(3u8)],
    )
        .prop_map(|(point, raw, ticks_after)| Stop { point, occ: Occ::Raw(raw), ticks_after })
}

pub fn case_strategy() -> impl Strategy<Value = Case> {
    (
        history_strategy(),
        stop_strategy(),
        prop_oneof![
            2 => Just(None),
            1 => (0u8..POINTS.len() as u8, 1u32..=2, prop_oneof![Just(0u8), Just(1u8)]).prop_map(|(point, nth, ticks_after)| Some(Stop { point, occ: Occ::Nth(nth), ticks_after })),
        ],
    )
        .prop_map(|((cfg, ops), first, second)| {
            let mut stops = vec![first];
            stops.extend(second);
            Case { cfg, ops, stops }
        })
}

/// scripted histories (a floor for the classes the enumeration must reach: every crash point executes)
fn scripted() -> Vec<(SutConfig, Vec<Op>)> {
    let mut v = vec![];
    for (n, k, m, phi) in [(3u8, 5u64, 100u64, 95u8), (4, 30, 100, 65)] {
        let cfg = SutConfig { k, m, phi_pct: phi, n_signers: n, cardano_database: true, cardano_transactions: n == 4, cardano_stake_distribution: n == 3, zero_stake_party: false };
        let full = (1u16 << n) - 1;
        let reg = Op::Register { mask: full, keygen: 0, when: RegEpoch::Current };
        let all = || sign(full, Target::Current(0), Inlet::Http);
        let early = |i: u16| sign(full, Target::NotYetOpen(i), Inlet::Http);
        let mut ops = vec![Op::Tick(1), reg.clone(), Op::EpochUp(1), Op::Tick(3)];
        for e in 0..2u16 {
            ops.extend([reg.clone(), all(), Op::Tick(2), all(), Op::Tick(2), all(), Op::Tick(2)]);
            ops.extend([Op::ImmutableUp, early(e), Op::Tick(2), all(), Op::Tick(2), all(), Op::Tick(2)]);
            ops.extend([Op::BlocksUp(45), Op::Tick(2), all(), Op::Tick(2)]);
            ops.extend([Op::EpochUp(1), Op::Tick(2), early(0), Op::Tick(2)]);
        }
        v.push((cfg, ops));
    }
    v
}

/// the healthy continuation every run ends with: three epochs in which everybody registers and signs whatever the
/// aggregator asks for, then a few more rounds without new beacons
fn epilogue(cfg: &SutConfig) -> Vec<Op> {
    let n = cfg.n_signers;
    let full = (1u16 << n) - 1;
    let all = || sign(full, Target::Current(0), Inlet::Http);
    let d = cfg.discriminants().len();
    let mut v = vec![];
    for epoch in 0..3 {
        v.push(Op::Register { mask: full, keygen: 0, when: RegEpoch::Current });
        for _ in 0..=d {
            v.extend([all(), Op::Tick(2)]);
        }
        if epoch == 2 {
            v.extend([Op::ImmutableUp, Op::BlocksUp(40), Op::Tick(2)]);
            for _ in 0..d {
                v.extend([all(), Op::Tick(2)]);
            }
        }
        v.extend([Op::EpochUp(1), Op::Tick(3)]);
    }
    for _ in 0..=d + 1 {
        v.extend([all(), Op::Tick(2)]);
    }
    v
}

fn recovery(cfg: &SutConfig) -> Vec<Op> {
    let n = cfg.n_signers;
    let full = (1u16 << n) - 1;
    let d = cfg.discriminants().len();
    let mut v = vec![];
    for _ in 0..=d {
        v.extend([sign(full, Target::Current(0), Inlet::Http), Op::Tick(2)]);
    }
    v
}

// ------------------------------------------------------------------------------------------------ execution

#[derive(Clone, Debug, Default)]
pub struct Outcome {
    /// executions of every crash point during the history part (before the epilogue), per process lifetime 0
    pub seen_history: BTreeMap<String, u32>,
    pub seen_total: BTreeMap<String, u32>,
    pub fired: Vec<(String, u32, usize)>,
    pub certified: BTreeSet<String>,
    pub artifacts: BTreeSet<String>,
    pub final_types: Vec<String>,
    pub final_state: String,
    pub certificates: usize,
    pub recertified: usize,
    pub violation: Option<(String, String)>,
    pub labels: BTreeSet<String>,
    pub stops_not_reached: usize,
}

/// O1..O3 on what is stored right now. `client` adds the mithril-client verifier on the HTTP view (O1).
async fn check_store(run: &mut Run, tag: &str, client: bool) -> Option<(String, String)> {
    let certs: Vec<Certificate> = match run.node().certificates().await {
        Ok(c) => c,
        Err(e) => return Some((format!("store-unreadable:{tag}"), format!("certificates cannot be listed: {e:?}"))),
    };
    let stored: BTreeMap<String, Certificate> = certs.iter().map(|c| (c.hash.clone(), c.clone())).collect();
    let genesis_verifier = Arc::new(run.genesis_signer.create_verifier());
    let verifier = MithrilCertificateVerifier::new(run.world.logger.clone(), Arc::new(MapRetriever(stored.clone())), genesis_verifier);
    // "verifies with its whole chain" = verify_certificate_chain, which is the iteration of verify_certificate along
    // the previous-hash links: every stored certificate is verified once against its parent (linear instead of
    // quadratic work), then every certificate's links are followed to a genesis certificate
    for c in &certs {
        if let Err(e) = verifier.verify_certificate(c).await {
            let what = format!("certificate {} ({}, epoch {}) does not verify: {e:?}", c.hash, if c.is_genesis() { "genesis".to_string() } else { tkey(&c.signed_entity_type()) }, c.epoch);
            return Some((format!("O1-chain-does-not-verify:{tag}"), what.chars().take(700).collect()));
        }
    }
    for c in &certs {
        let mut at = c;
        let mut steps = 0;
        while !at.is_genesis() {
            steps += 1;
            match stored.get(&at.previous_hash) {
                Some(p) if steps <= certs.len() => at = p,
                _ => {
                    return Some((format!("O1-chain-does-not-verify:{tag}"), format!("the chain of certificate {} does not reach a genesis certificate (stops at {})", c.hash, at.hash)));
                }
            }
        }
    }
    if client {
        let mut view = BTreeMap::new();
        for h in stored.keys() {
            let resp = warp::test::request().method("GET").path(&format!("/aggregator/certificate/{h}")).reply(&run.node().routes).await;
            if resp.status().as_u16() == 200 {
                if let Ok(m) = serde_json::from_slice::<CertificateMessage>(resp.body()) {
                    view.insert(h.clone(), m);
                }
            }
        }
        let cv = mithril_client::certificate_client::MithrilCertificateVerifier::new(
            Arc::new(MapRequester(view.clone())),
            &run.world.configuration.genesis_verification_key,
            mithril_client::feedback::FeedbackSender::new(&[]),
            None,
            run.world.logger.clone(),
        );
        match cv {
            Ok(cv) => {
                use mithril_client::certificate_client::CertificateVerifier as _;
                // the public client view: the newest certificates (their chains cover the older ones) and every
                // certificate of an entity that was certified more than once
                let mut types: BTreeMap<String, u32> = BTreeMap::new();
                for c in certs.iter().filter(|c| !c.is_genesis()) {
                    *types.entry(tkey(&c.signed_entity_type())).or_insert(0) += 1;
                }
                let newest: BTreeSet<String> = certs.iter().rev().take(3).map(|c| c.hash.clone()).collect();
                let wanted: Vec<String> = certs
                    .iter()
                    .filter(|c| newest.contains(&c.hash) || (!c.is_genesis() && types.get(&tkey(&c.signed_entity_type())).copied().unwrap_or(0) > 1))
                    .map(|c| c.hash.clone())
                    .collect();
                for h in &wanted {
                    let Some(me) = view.get(h) else {
                        return Some((format!("O1-certificate-not-served:{tag}"), format!("certificate {h} is stored but not served over HTTP")));
                    };
                    if let Err(e) = cv.verify_chain(me).await {
                        return Some((format!("O1-client-verifier-rejects:{tag}"), format!("certificate {h}: mithril-client verifier: {e:?}").chars().take(700).collect()));
                    }
                }
            }
            Err(e) => return Some((format!("O1-client-verifier-rejects:{tag}"), format!("cannot build the client verifier: {e:?}"))),
        }
    }
    // artifacts
    let mut by_entity: BTreeMap<String, Vec<String>> = BTreeMap::new();
    for d in run.world.cfg.discriminants() {
        let records = match run.node().signed_entity_storer.get_last_signed_entities_by_type(&d, 100_000).await {
            Ok(r) => r,
            Err(e) => return Some((format!("store-unreadable:{tag}"), format!("signed entities of {d:?} cannot be listed: {e:?}"))),
        };
        for r in records {
            by_entity.entry(tkey(&r.signed_entity_type)).or_default().push(r.signed_entity_id.clone());
            match stored.get(&r.certificate_id) {
                None => {
                    return Some((
                        format!("O3-artifact-without-certificate:{tag}"),
                        format!("artifact {} of {:?} references certificate {} which is not stored", r.signed_entity_id, r.signed_entity_type, r.certificate_id),
                    ));
                }
                Some(c) => {
                    if c.is_genesis() || c.signed_entity_type() != r.signed_entity_type {
                        return Some((
                            format!("O3-artifact-certificate-mismatch:{tag}"),
                            format!("artifact {} of {:?} references certificate {} which certifies {:?}", r.signed_entity_id, r.signed_entity_type, c.hash, c.signed_entity_type()),
                        ));
                    }
                }
            }
        }
    }
    for (t, ids) in by_entity {
        if ids.len() > 1 {
            return Some((format!("O2-two-artifacts:{tag}"), format!("{t} has {} artifacts: {ids:?}", ids.len())));
        }
    }
    None
}

async fn snapshot(run: &mut Run, out: &mut Outcome) {
    let certs = run.node().certificates().await.unwrap_or_default();
    let mut seen_types = BTreeSet::new();
    out.recertified = 0;
    for c in certs.iter().filter(|c| !c.is_genesis()) {
        if !seen_types.insert(tkey(&c.signed_entity_type())) {
            out.recertified += 1;
        }
    }
    out.certificates = certs.iter().filter(|c| !c.is_genesis()).count();
    out.certified = seen_types;
    out.artifacts.clear();
    for d in run.world.cfg.discriminants() {
        if let Ok(records) = run.node().signed_entity_storer.get_last_signed_entities_by_type(&d, 100_000).await {
            for r in records {
                out.artifacts.insert(tkey(&r.signed_entity_type));
            }
        }
    }
    let tp = run.world.time_point().await;
    out.final_types = run.types_at(&tp).iter().map(tkey).collect();
    out.final_state = run.node().state().to_string();
}

fn opts() -> RunOpts {
    RunOpts { certificates: false, rows: false, client_verifier: false, signers_by_true_key: false, expect_certificate_on_honest_quorum: true, sign_once: true }
}

/// resolved stop: (point name, occurrence counted since the process started, ticks after restart)
type Resolved = (String, u32, u8);

enum Item {
    Op(Op),
    /// end of the history part (the epilogue follows)
    HistoryEnd,
    /// look at the store (O1..O3) — placed after a restart and after the healing ticks
    Check(&'static str, String),
}

pub fn execute(cfg: &SutConfig, ops: &[Op], stops: &[Resolved]) -> Outcome {
    let mut out = Outcome::default();
    let mut queue: VecDeque<Item> = ops.iter().cloned().map(Item::Op).collect();
    queue.push_back(Item::HistoryEnd);
    queue.extend(epilogue(cfg).into_iter().map(Item::Op));

    hooks::reset();
    let mut rt = case_runtime();
    let mut run = rt.block_on(Run::boot(cfg, "c15", opts()));
    let mut next_stop = 0usize;
    let arm = |next_stop: usize| {
        if let Some((name, occ, _)) = stops.get(next_stop) {
            hooks::arm(name, *occ);
        }
    };
    arm(next_stop);
    let mut lifetime_seen: BTreeMap<String, u32> = BTreeMap::new();
    let mut in_history = true;
    let mut op_no = 0usize;

    while let Some(item) = queue.pop_front() {
        match item {
            Item::HistoryEnd => {
                in_history = false;
                if out.fired.is_empty() {
                    out.seen_history = hooks::seen();
                }
            }
            Item::Check(phase, point) => {
                let v = rt.block_on(check_store(&mut run, &format!("{phase}:{point}"), false));
                if v.is_some() {
                    out.violation = v;
                    break;
                }
            }
            Item::Op(op) => {
                op_no += 1;
                let crashed = rt.block_on(async {
                    tokio::select! {
                        biased;
                        _ = run.apply(&op) => false,
                        _ = async { loop { if hooks::fired().is_some() { break; } tokio::time::sleep(std::time::Duration::from_millis(1)).await; } } => true,
                    }
                });
                // a crash point that fired at the very end of the operation (apply completed in the same poll)
                let crashed = crashed || hooks::fired().is_some();
                if let Some((k, w)) = run.violation.clone() {
                    out.violation = Some((k, w));
                    break;
                }
                if crashed {
                    let (name, occ) = hooks::fired().expect("fired");
                    out.fired.push((name.clone(), occ, op_no));
                    out.labels.insert(format!("fired:{name}"));
                    out.labels.insert(if in_history { "fired-in:history".to_string() } else { "fired-in:epilogue".to_string() });
                    let ticks_after = stops.get(next_stop).map(|s| s.2).unwrap_or(0);
                    for (k, v) in hooks::seen() {
                        *lifetime_seen.entry(k).or_insert(0) += v;
                    }
                    // the process dies where it stands
                    run.kill();
                    rt.shutdown_background();
                    rt = case_runtime();
                    hooks::reset();
                    next_stop += 1;
                    arm(next_stop);
                    let booted = rt.block_on(async {
                        match run.world.start().await {
                            Ok(n) => {
                                run.node = Some(n);
                                Ok(())
                            }
                            Err(e) => Err(format!("{e:?}")),
                        }
                    });
                    if let Err(e) = booted {
                        out.violation = Some((format!("restart-fails:{name}"), format!("the aggregator does not start on the store left by a stop at {name}#{occ}: {e}").chars().take(600).collect()));
                        break;
                    }
                    run.obs.restarts += 1;
                    // what the restart finds; then k healthy cycles; then a recovery round; then the history goes on
                    let mut front: Vec<Item> = vec![Item::Check("after-restart", name.clone())];
                    if ticks_after > 0 {
                        front.push(Item::Op(Op::Tick(ticks_after)));
                        front.push(Item::Check("after-ticks", name.clone()));
                    }
                    front.extend(recovery(cfg).into_iter().map(Item::Op));
                    front.push(Item::Check("after-recovery", name.clone()));
                    for it in front.into_iter().rev() {
                        queue.push_front(it);
                    }
                }
            }
        }
    }
    for (k, v) in hooks::seen() {
        *lifetime_seen.entry(k).or_insert(0) += v;
    }
    out.seen_total = lifetime_seen;
    out.stops_not_reached = stops.len().saturating_sub(out.fired.len());
    hooks::reset();
    if out.violation.is_none() {
        let tag = out.fired.last().map(|f| f.0.clone()).unwrap_or_else(|| "no-crash".into());
        let v = rt.block_on(check_store(&mut run, &format!("end:{tag}"), true));
        out.violation = v;
    }
    if run.node.is_some() {
        rt.block_on(snapshot(&mut run, &mut out));
    }
    for l in run.labels.iter() {
        if l.starts_with("tick-err") || l.starts_with("sign:") && l.contains("buffered") || l == "sign:already-acknowledged" || l == "artifact-task-not-settled" || l == "honest-quorum-certified" {
            out.labels.insert(l.clone());
        }
    }
    for s in run.obs.states.iter() {
        out.labels.insert(format!("state:{s}"));
    }
    rt.block_on(run.shutdown());
    rt.shutdown_background();
    out
}

// ------------------------------------------------------------------------------------------------ twins

fn history_key(cfg: &SutConfig, ops: &[Op]) -> String {
    serde_json::to_string(&(cfg, ops)).unwrap_or_default()
}

static TWINS: Mutex<BTreeMap<String, Arc<Outcome>>> = Mutex::new(BTreeMap::new());

fn twin(cfg: &SutConfig, ops: &[Op]) -> Arc<Outcome> {
    let key = history_key(cfg, ops);
    if let Some(t) = TWINS.lock().unwrap().get(&key) {
        return t.clone();
    }
    let t = Arc::new(execute(cfg, ops, &[]));
    let mut g = TWINS.lock().unwrap();
    if g.len() > 4096 {
        g.clear();
    }
    g.insert(key, t.clone());
    t
}

// ------------------------------------------------------------------------------------------------ the case

/// A progress verdict (O4: a differential between two executions of a concurrent system, each with background tasks)
/// is reported only when it is a function of the case: the case is executed a second time with a freshly computed
/// twin, and a verdict that does not come back is counted (`O4-verdict-not-reproduced`), not reported. Two thorough
/// runs on a machine shared with other builds each produced one such verdict in ~14 000 cases (an artifact of the last
/// round missing at the end) whose replay passes every time; every seeded change and mutant is deterministic and is
/// still reported.
pub fn run_case(c: &Case, tolerated: &[String]) -> Report {
    let first = run_case_once(c, tolerated);
    let is_o4 = matches!(&first.outcome, vcore::Outcome::Violation { key, .. } if key.starts_with("O4-"));
    if !is_o4 {
        return first;
    }
    TWINS.lock().unwrap().remove(&history_key(&c.cfg, &c.ops));
    crate::run::clear_sticky();
    let mut second = run_case_once(c, tolerated);
    if !second.is_violation() {
        second.label("O4-verdict-not-reproduced");
    }
    second
}

fn run_case_once(c: &Case, tolerated: &[String]) -> Report {
    let mut rep = Report::new();
    let tw = twin(&c.cfg, &c.ops);
    if let Some((k, w)) = &tw.violation {
        // no crash involved: the store of an undisturbed run violates O1..O3 (that is C14's territory, but a
        // violation all the same)
        rep.label("twin-violation");
        rep.violation(format!("no-crash:{k}"), format!("crash-free run: {w}"));
        return rep;
    }
    // resolve the stops
    let mut stops: Vec<Resolved> = vec![];
    for (i, s) in c.stops.iter().enumerate() {
        let name = POINTS[s.point as usize % POINTS.len()].to_string();
        let occ = match &s.occ {
            Occ::Nth(n) => (*n).max(1),
            Occ::Raw(raw) => {
                let count = if i == 0 { tw.seen_history.get(&name).copied().unwrap_or(0) } else { 2 };
                if count == 0 {
                    rep.label(format!("point-not-executed-by-history:{name}"));
                    return rep;
                }
                1 + vcore::pick_index(*raw, count as usize) as u32
            }
        };
        stops.push((name, occ, s.ticks_after));
    }
    let out = execute(&c.cfg, &c.ops, &stops);
    for l in &out.labels {
        rep.label(l.clone());
    }
    if out.fired.is_empty() {
        rep.label("no-stop-fired");
        return rep;
    }
    rep.label(format!("stops:{}", out.fired.len()));
    if out.fired.len() >= 2 {
        rep.label("two-stops");
        rep.label(format!("second:{}", out.fired[1].0));
    }
    if out.recertified > 0 {
        rep.label("entity-certified-again-after-stop");
    }
    for (_, _, ticks) in &stops {
        rep.label(format!("ticks-after-restart:{ticks}"));
    }
    let occ_class = |occ: u32| match occ {
        1 => "first",
        2..=3 => "early",
        _ => "late",
    };
    let shape = out.fired.iter().map(|(n, o, _)| format!("{n}#{}", occ_class(*o))).collect::<Vec<_>>().join("+");
    let kinds: Vec<String> = c.ops.iter().map(|o| o.kind()).collect();
    let history_hash = kinds.join(" ").bytes().fold(0u64, |a, b| vcore::mix(a, b as u64));
    rep.nontrivial(format!("{shape}|{}|{}|{history_hash:x}", c.cfg.n_signers, c.cfg.discriminants().len()));

    let first = out.fired[0].0.clone();
    let mut verdict = out.violation.clone();
    if verdict.is_none() {
        // O4: progress relative to the twin, on the entities of the final time point
        if tw.final_state != "blocked-epoch-gap" && out.final_state == "blocked-epoch-gap" {
            verdict = Some((format!("O4-blocked-after-stop:{first}"), format!("the crash-free run ends in state {}, the run stopped at {:?} ends blocked by an epoch gap (manual repair needed)", tw.final_state, out.fired)));
        }
    }
    let unsettled = out.labels.contains("artifact-task-not-settled") || tw.labels.contains("artifact-task-not-settled");
    if unsettled {
        // the background artifact task of some cycle was still running when the harness stopped waiting for it (machine
        // overload): what the run holds at its end is then a matter of timing, not of the code - nothing is concluded
        rep.label("progress-not-judged:artifact-task-not-settled");
    }
    if verdict.is_none() && !unsettled {
        let mut judged = 0;
        for t in &tw.final_types {
            if tw.certified.contains(t) {
                judged += 1;
                if !out.certified.contains(t) {
                    verdict = Some((format!("O4-no-progress:{first}"), format!("{t} (an entity of the final time point) is certified in the crash-free run but not in the run stopped at {:?}; final state {}", out.fired, out.final_state)));
                    break;
                }
            }
            if tw.artifacts.contains(t) && !out.artifacts.contains(t) {
                verdict = Some((format!("O4-no-artifact:{first}"), format!("{t} (an entity of the final time point) has an artifact in the crash-free run but not in the run stopped at {:?}", out.fired)));
                break;
            }
        }
        rep.label(if judged > 0 { "progress-judged" } else { "progress-not-judged:twin-did-not-certify" });
    }
    if let Some((k, w)) = verdict {
        let tolerated_hit = tolerated.iter().any(|t| match t.strip_suffix('*') {
            Some(p) => k.starts_with(p),
            None => *t == k,
        });
        if tolerated_hit {
            rep.excluded_known(k);
        } else if crate::run::sticky_key(&k) {
            rep.violation(k, format!("{w}; stops={:?}", stops));
        }
    }
    rep
}

/// the enumeration runs every case once and does not shrink: the sticky key (a shrinking aid of the generated
/// sections, per worker thread) is cleared so that every case reports its own verdict
fn run_case_enum(c: &Case, tolerated: &[String]) -> Report {
    crate::run::clear_sticky();
    let mut r = run_case(c, tolerated);
    r.label("enumerated");
    crate::run::clear_sticky();
    r
}

// ------------------------------------------------------------------------------------------------ check

pub const KNOWN_CANDIDATES: &[&str] = &[];

pub fn run(args: &Args) -> i32 {
    let mut check = Check::new("C15", "fault_enumeration", args);
    check
        .rule(
            "crash case = (history, 1..2 stops). History = deployment start + 2..3 epoch blocks (registration all/some/nobody, 1..3 signing rounds over HTTP or the message queue, \
             new immutable files / blocks with or without signatures arriving before the open message exists (buffered path), clean restart / expiry / extra tick as noise, epoch change) \
             followed by a fixed healthy epilogue of three epochs. Section `enumeration`: for scripted and generated histories EVERY (crash point, occurrence) executed by the crash-free \
             twin during the history, with 0 healthy cycles after the restart, plus for every crash point a second stop at the first execution of every certificate/artifact point after the restart. \
             Section `generated`: sampled (history, point, occurrence, cycles after restart in {0,1,3}, optional second stop). \
             Non-trivial = the armed crash point actually fired; distinct by (points fired with occurrence class first/early/late, number of signers, number of signed entity types, history shape)",
        )
        .assume("a stop = the process dies at a named crash point: the future is parked, the aggregator dropped, its tokio runtime shut down (all spawned tasks die), a new aggregator boots on the same directories; sqlite statements already executed are durable, nothing else survives")
        .assume("signers sign every signed entity once: an acknowledged (201/202) submission is never repeated; after each restart the registered signers that have not yet signed the open messages do so (recovery round)")
        .assume("progress (O4) is judged relative to the crash-free twin of the same history, on the entities of the final time point only; chain / immutable / block inputs come from the repository's test doubles")
        .shrink_iters(60);
    for p in POINTS {
        check.require_label(&format!("fired:{p}"));
    }
    check.require_label("two-stops").require_label("progress-judged").require_label("fired-in:history");
    crate::model::warm_up(6);
    let t = check.tier;
    let tolerated = crate::run::tolerated_keys(&check, args, KNOWN_CANDIDATES);
    if let Ok(which) = std::env::var("VERIF_C15_TWIN") {
        // development aid (never set by the registered commands): run one scripted history crash-free and print
        let (cfg, ops) = scripted()[which.parse::<usize>().unwrap_or(0) % 2].clone();
        if let Ok(stop) = std::env::var("VERIF_C15_CASE") {
            // "<point index>:<occurrence>": print the enumeration case (used to write /verif/regressions/C15/*.json)
            let mut it = stop.split(':');
            let point: u8 = it.next().and_then(|x| x.parse().ok()).unwrap_or(0);
            let occ: u32 = it.next().and_then(|x| x.parse().ok()).unwrap_or(1);
            let case = Case { cfg: cfg.clone(), ops: ops.clone(), stops: vec![Stop { point, occ: Occ::Nth(occ), ticks_after: 0 }] };
            println!("{}", serde_json::to_string(&serde_json::json!({"property": "C15", "section": "enumeration", "seed": 0, "tier": "quick", "key": "O4-blocked-after-stop", "what": "hand-picked regression case", "case": case})).unwrap());
            return 2;
        }
        let out = execute(&cfg, &ops, &[]);
        eprintln!("TWIN seen_history={:?}\n certified={:?}\n artifacts={:?}\n final_types={:?} state={} violation={:?}", out.seen_history, out.certified, out.artifacts, out.final_types, out.final_state, out.violation);
        return 2;
    }

    // ---- enumeration
    // quick: one scripted and one generated history are enumerated completely; thorough: both scripted and 60 generated
    let mut histories = scripted();
    if t == vcore::Tier::Quick {
        histories.truncate(1);
    }
    let n_generated = t.pick(1, 60) as u64;
    if !check.is_replay() {
        for i in 0..n_generated {
            histories.push(vcore::sample_one(&history_strategy(), vcore::mix(check.seed, 1000 + i)));
        }
    }
    let mut cases: Vec<Case> = vec![];
    if !check.is_replay() {
        // twins in parallel
        let idx = std::sync::atomic::AtomicUsize::new(0);
        std::thread::scope(|s| {
            for _ in 0..check.threads.max(1) {
                s.spawn(|| {
                    loop {
                        let i = idx.fetch_add(1, std::sync::atomic::Ordering::Relaxed);
                        if i >= histories.len() {
                            break;
                        }
                        let (cfg, ops) = &histories[i];
                        let _ = twin(cfg, ops);
                    }
                });
            }
        });
        for (cfg, ops) in &histories {
            let tw = twin(cfg, ops);
            for (pi, p) in POINTS.iter().enumerate() {
                let count = tw.seen_history.get(*p).copied().unwrap_or(0);
                for occ in 1..=count {
                    cases.push(Case { cfg: cfg.clone(), ops: ops.clone(), stops: vec![Stop { point: pi as u8, occ: Occ::Nth(occ), ticks_after: 0 }] });
                }
                // two stops in a row: the middle occurrence, then the first execution of each sealing/artifact point
                if count > 0 {
                    let mid = (count + 1) / 2;
                    let seconds: Vec<u8> = if t == vcore::Tier::Quick { vec![1 + (pi as u8) % 2, 3 + (pi as u8) % 3] } else { (0..6u8).collect() };
                    for second in seconds {
                        cases.push(Case {
                            cfg: cfg.clone(),
                            ops: ops.clone(),
                            stops: vec![Stop { point: pi as u8, occ: Occ::Nth(mid), ticks_after: 0 }, Stop { point: second, occ: Occ::Nth(1), ticks_after: 1 }],
                        });
                    }
                }
            }
        }
    }
    check.enumerate("enumeration", cases.into_iter(), true, |c| run_case_enum(c, &tolerated));
    check.section("generated", case_strategy, t.pick(128, 6000), |c| run_case(c, &tolerated));
    check.finish()
}
