// The repo's own integration-test observer (kept in sync with the aggregator's API by the repo itself).
#[allow(dead_code)]
#[path = "/repo/mithril-aggregator/tests/test_extensions/aggregator_observer.rs"]
mod aggregator_observer;

mod c14;
mod c15;
mod c16;
#[allow(dead_code)]
mod model;
#[allow(dead_code)]
mod run;
#[allow(dead_code)]
mod sut;

fn main() {
    let args = vcore::parse_args();
    let which = args.rest.first().cloned().unwrap_or_default();
    let code = match which.as_str() {
        "C14" => c14::run(&args),
        "C15" => c15::run(&args),
        "C16" => c16::run(&args),
        other => {
            eprintln!("p-aggregator: unknown property '{other}'");
            2
        }
    };
    std::process::exit(code);
}
