mod c14;
mod c15;
mod c16;

fn main() {
    let args = vcore::parse_args();
    let which = args.rest.first().cloned().unwrap_or_default();
    let code = match which.as_str() {
        "C14" => c14::run(&args),
        "C15" => c15::run(&args),
        "C16" => c16::run(&args),
        other => {
            eprintln!("p-aggregator: unknown property '{other}'");
            2
        }
    };
    std::process::exit(code);
}
