//! The harness' own model of "who registered which key for which epoch" and everything derived from it
//! (aggregate verification keys, signers able to sign, validity of a single signature for a given party).
//! Nothing in here asks the aggregator: keys are generated here, the registration history is what the harness
//! itself submitted (and the aggregator acknowledged), and all cryptography goes straight to
//! `mithril_common::protocol::SignerBuilder` / `mithril-stm`.
//!
//! Epoch offsets of the protocol (mithril_common::entities::Epoch):
//!   registration sent while the aggregator's registration round is open for recording epoch `r`
//!   (`r` = aggregator epoch + 1)  ⇒  stored under `r`  ⇒  these are the signers of signing epoch `r + 1`
//!   (signer retrieval offset -1) and the "next signers" announced (next AVK) by certificates of epoch `r`.

use std::collections::BTreeMap;
use std::path::PathBuf;
use std::sync::Arc;

use rand_chacha::ChaCha20Rng;
use rand_core::SeedableRng;

use mithril_common::{
    crypto_helper::{
        KesEvolutions, KesPeriod, KesSigner, KesSignerStandard, ProtocolAggregateVerificationKey, ProtocolClerk,
        ProtocolClosedKeyRegistration, ProtocolInitializer, ProtocolOpCert,
    },
    entities::{PartyId, ProtocolParameters, SignerWithStake, SingleSignature, Stake},
    protocol::SignerBuilder,
    test::builder::{MithrilFixture, MithrilFixtureBuilder},
};

pub type PartyIdx = usize;
pub type KeyGen = u8;

pub struct Party {
    pub party_id: PartyId,
    pub stake: Stake,
    pub kes_sk: Option<PathBuf>,
    pub opcert_path: Option<PathBuf>,
    pub opcert: Option<ProtocolOpCert>,
}

/// A closed registration derived by the harness for one set of (party, key generation).
pub struct KeySet {
    pub members: BTreeMap<PartyIdx, KeyGen>,
    pub signers: Vec<SignerWithStake>,
    pub closed: ProtocolClosedKeyRegistration,
    pub avk: ProtocolAggregateVerificationKey,
}

pub struct Model {
    pub params: ProtocolParameters,
    pub parties: Vec<Party>,
    pub fixture: MithrilFixture,
    keys: BTreeMap<(PartyIdx, KeyGen), (ProtocolInitializer, SignerWithStake)>,
    keysets: BTreeMap<BTreeMap<PartyIdx, KeyGen>, Arc<KeySet>>,
    /// recording epoch -> accepted registrations (last key wins, like the store's insert-or-replace)
    pub store: BTreeMap<u64, BTreeMap<PartyIdx, KeyGen>>,
}

/// Building the fixture writes the KES key / operational certificate files of the parties below TMPDIR if they
/// are missing; do it once before the worker threads start so that no two cases race on those files.
pub fn warm_up(max_signers: usize) {
    let _ = MithrilFixtureBuilder::default().with_signers(max_signers).build();
}

impl Model {
    pub fn new(params: ProtocolParameters, n_signers: usize) -> Model {
        let fixture = MithrilFixtureBuilder::default()
            .with_signers(n_signers)
            .with_protocol_parameters(params.clone())
            .build();
        let mut parties = vec![];
        let mut keys = BTreeMap::new();
        for (i, s) in fixture.signers_fixture().into_iter().enumerate() {
            parties.push(Party {
                party_id: s.signer_with_stake.party_id.clone(),
                stake: s.signer_with_stake.stake,
                kes_sk: s.kes_secret_key_path.clone(),
                opcert_path: s.operational_certificate_path.clone(),
                opcert: s.signer_with_stake.operational_certificate.clone(),
            });
            // key generation 0 = the fixture's own key
            keys.insert((i, 0u8), (s.protocol_initializer.clone(), s.signer_with_stake.clone()));
        }
        Model { params, parties, fixture, keys, keysets: BTreeMap::new(), store: BTreeMap::new() }
    }

    pub fn n(&self) -> usize {
        self.parties.len()
    }

    /// give party `p` another stake (before anything was derived from it): its keys of every generation are made
    /// again with that stake, the fixture's own key is not used for it
    pub fn set_stake(&mut self, p: PartyIdx, stake: Stake) {
        self.parties[p].stake = stake;
        self.keys.retain(|(q, _), _| *q != p);
        self.keysets.clear();
    }

    pub fn party_index(&self, party_id: &str) -> Option<PartyIdx> {
        self.parties.iter().position(|p| p.party_id == party_id)
    }

    /// the key (generation `g`) of party `p`: a fresh protocol initializer, deterministic in (p, g), certified by
    /// the party's KES key exactly like `mithril_common::test::crypto_helper::setup_signers_from_stake_distribution`
    pub fn key(&mut self, p: PartyIdx, g: KeyGen) -> &(ProtocolInitializer, SignerWithStake) {
        if !self.keys.contains_key(&(p, g)) {
            let party = &self.parties[p];
            let mut seed = [0u8; 32];
            let pid = party.party_id.as_bytes();
            for (i, b) in pid.iter().take(30).enumerate() {
                seed[i] = *b;
            }
            seed[30] = g;
            seed[31] = 0xA5;
            let mut rng = ChaCha20Rng::from_seed(seed);
            let kes_signer = party.kes_sk.clone().map(|sk| {
                Arc::new(KesSignerStandard::new(sk, party.opcert_path.clone().expect("opcert path"))) as Arc<dyn KesSigner>
            });
            let kes_period = kes_signer.as_ref().map(|_| KesPeriod(0));
            let initializer =
                ProtocolInitializer::setup(self.params.clone().into(), kes_signer, kes_period, party.stake, &mut rng)
                    .expect("protocol initializer");
            let sws = SignerWithStake {
                party_id: party.party_id.clone(),
                verification_key_for_concatenation: initializer.verification_key_for_concatenation().into(),
                verification_key_signature_for_concatenation: initializer.verification_key_signature_for_concatenation(),
                operational_certificate: party.opcert.clone(),
                kes_evolutions: party.opcert.as_ref().map(|_| KesEvolutions(0)),
                stake: party.stake,
            };
            self.keys.insert((p, g), (initializer, sws));
        }
        &self.keys[&(p, g)]
    }

    pub fn signer_with_stake(&mut self, p: PartyIdx, g: KeyGen) -> SignerWithStake {
        self.key(p, g).1.clone()
    }

    /// the harness saw the aggregator acknowledge the registration of (p, g) for recording epoch `r`
    pub fn record_registration(&mut self, r: u64, p: PartyIdx, g: KeyGen) {
        self.store.entry(r).or_default().insert(p, g);
    }

    /// who signs in signing epoch `e` (registered under recording epoch e-1)
    pub fn members_for_signing_epoch(&self, e: u64) -> BTreeMap<PartyIdx, KeyGen> {
        if e == 0 {
            return BTreeMap::new();
        }
        self.store.get(&(e - 1)).cloned().unwrap_or_default()
    }

    /// derive the closed key registration / AVK of a member set (None for the empty set)
    pub fn keyset(&mut self, members: &BTreeMap<PartyIdx, KeyGen>) -> Option<Arc<KeySet>> {
        if members.is_empty() {
            return None;
        }
        if let Some(ks) = self.keysets.get(members) {
            return Some(ks.clone());
        }
        let signers: Vec<SignerWithStake> = members.iter().map(|(p, g)| self.signer_with_stake(*p, *g)).collect();
        let builder = SignerBuilder::new(&signers, &self.params).ok()?;
        let avk = builder.compute_aggregate_verification_key();
        // the closed registration is needed to create signers; SignerBuilder keeps it private, so derive it the
        // way SignerBuilder does (same public crypto_helper API)
        let closed = closed_registration(&signers, &self.params)?;
        let ks = Arc::new(KeySet { members: members.clone(), signers, closed, avk });
        self.keysets.insert(members.clone(), ks.clone());
        Some(ks)
    }

    pub fn keyset_for_signing_epoch(&mut self, e: u64) -> Option<Arc<KeySet>> {
        let m = self.members_for_signing_epoch(e);
        self.keyset(&m)
    }

    /// party `p` (which must be a member) signs `message` within `ks`; None = lost every lottery
    pub fn sign(&mut self, ks: &KeySet, p: PartyIdx, message: &str) -> Option<SingleSignature> {
        let g = *ks.members.get(&p)?;
        let initializer = self.key(p, g).0.clone();
        let signer = initializer.new_signer(ks.closed.clone()).ok()?;
        let sig = signer.sign(message.as_bytes())?;
        let idx = sig.get_concatenation_signature_indices();
        Some(SingleSignature::new(self.parties[p].party_id.clone(), sig.into(), idx))
    }

    /// Does `sig` verify for `message` against the key that party `p` registered in `ks` (mithril-stm directly;
    /// the key is looked up by the *party*, never by the slot number inside the signature)?
    pub fn verifies_for_party(&mut self, ks: &KeySet, p: PartyIdx, sig: &SingleSignature, message: &str) -> bool {
        let Some(g) = ks.members.get(&p).copied() else {
            return false;
        };
        let vk = self.key(p, g).0.verification_key_for_concatenation().vk;
        let stake = self.parties[p].stake;
        let stm_sig = sig.to_protocol_signature();
        vcore::catch(|| stm_sig.verify(&self.params.clone().into(), &vk, &stake, &ks.avk, message.as_bytes()).is_ok())
            .unwrap_or(false)
    }

    /// the party (if any) of `ks` whose registered key verifies `sig` for `message`
    pub fn true_signer(&mut self, ks: &KeySet, sig: &SingleSignature, message: &str) -> Option<PartyIdx> {
        let members: Vec<PartyIdx> = ks.members.keys().copied().collect();
        members.into_iter().find(|p| self.verifies_for_party(ks, *p, sig, message))
    }
}

fn closed_registration(signers: &[SignerWithStake], params: &ProtocolParameters) -> Option<ProtocolClosedKeyRegistration> {
    use mithril_common::crypto_helper::{ProtocolKeyRegistration, ProtocolStakeDistribution, SignerRegistrationParameters};
    let stake_distribution: ProtocolStakeDistribution = signers.iter().map(|s| s.into()).collect();
    let mut reg = ProtocolKeyRegistration::init(&stake_distribution);
    for s in signers {
        reg.register(SignerRegistrationParameters {
            party_id: Some(s.party_id.clone()),
            operational_certificate: s.operational_certificate.clone(),
            verification_key_signature_for_concatenation: s.verification_key_signature_for_concatenation,
            kes_evolutions: s.kes_evolutions,
            verification_key_for_concatenation: s.verification_key_for_concatenation,
        })
        .ok()?;
    }
    let closed = reg.close(&params.clone().into()).ok()?;
    // cross-check: a clerk on this registration yields the AVK SignerBuilder computes
    let _ = ProtocolClerk::new_clerk_from_closed_key_registration(&params.clone().into(), &closed);
    Some(closed)
}
