//! C14 — the aggregator only publishes certificates clients can verify to genesis.
//!
//! Stateful exploration: generated histories of the events the aggregator reacts to, run against the real
//! aggregator (see sut.rs); after every step every stored certificate is checked against the harness' own model
//! of the registration history (model.rs) and against fresh verifiers (run.rs, I1..I5).

use proptest::prelude::*;
use serde::{Deserialize, Serialize};
use vcore::{Args, Check, Report};

use crate::run::{Flavour, IdxList, Inlet, Label, Op, RegEpoch, Run, RunOpts, SignOp, Source, Target, op_strategy_c14};
use crate::sut::{SutConfig, case_runtime};

#[derive(Clone, Debug, Serialize, Deserialize)]
pub struct Case {
    pub cfg: SutConfig,
    pub ops: Vec<Op>,
}

pub fn cfg_strategy() -> impl Strategy<Value = SutConfig> {
    (
        prop_oneof![
            2 => Just((5u64, 100u64, 95u8)),   // the integration tests' parameters: every signer alone reaches the quorum
            3 => Just((30u64, 100u64, 65u8)),  // about half of the stake is needed
            1 => Just((12u64, 40u64, 70u8)),
        ],
        3u8..=6,
        any::<bool>(),
        prop_oneof![3 => Just(false), 1 => Just(true)],
        prop_oneof![2 => Just(false), 1 => Just(true)],
        prop::bool::weighted(0.2),
    )
        .prop_map(|((k, m, phi_pct), n_signers, cardano_database, cardano_transactions, cardano_stake_distribution, zero_stake_party)| SutConfig {
            k,
            m,
            phi_pct,
            n_signers,
            cardano_database,
            cardano_transactions,
            cardano_stake_distribution,
            zero_stake_party,
        })
}

fn sign_all(n: u8) -> Op {
    Op::Sign(SignOp {
        mask: (1u16 << n) - 1,
        target: Target::Current(0),
        flavour: Flavour::Valid,
        inlet: Inlet::Http,
        label: Label::Own,
        source: Source::Own,
        idx: IdxList::Matching,
    })
}

/// A generated history = the start every deployment goes through (genesis epoch, first registrations, first epoch
/// change; each step individually perturbable) followed by 2..3 epoch blocks. A block is what happens during one
/// Cardano epoch: the signers register for the epoch after next (all / a subset / nobody, possibly with a new
/// key) somewhere in the block, 3..7 freely generated operations, and the epoch change that ends it (sometimes
/// several epochs at once, sometimes preceded by the operator's re-genesis).
pub fn case_strategy() -> impl Strategy<Value = Case> {
    cfg_strategy().prop_flat_map(|cfg| {
        let n = cfg.n_signers;
        let full = (1u16 << n) - 1;
        let register = move || {
            prop_oneof![
                10 => Just(Some(Op::Register { mask: full, keygen: 0, when: RegEpoch::Current })),
                6 => (1u16..=full).prop_map(|mask| Some(Op::Register { mask, keygen: 0, when: RegEpoch::Current })),
                3 => (1u16..=full, 1u8..=2).prop_map(|(mask, keygen)| Some(Op::Register { mask, keygen, when: RegEpoch::Current })),
                1 => Just(None),
            ]
        };
        let prefix = (
            prop_oneof![12 => Just(Some(Op::Tick(1))), 1 => Just(None)],
            register(),
            prop_oneof![12 => Just(Op::EpochUp(1)), 1 => Just(Op::EpochUp(2))],
            prop_oneof![6 => Just(Op::Tick(3)), 1 => Just(Op::Tick(2))],
        );
        // a round = the registered signers (all / some) sign what the aggregator currently asks for, then it ticks
        let round = (
            prop_oneof![3 => Just(full), 1 => 1u16..=full],
            prop_oneof![3 => Just(Inlet::Http), 1 => Just(Inlet::Dmq)],
            prop_oneof![Just(1u8), Just(2u8)],
        )
            .prop_map(|(mask, inlet, ticks)| {
                vec![
                    Op::Sign(SignOp { mask, target: Target::Current(0), flavour: Flavour::Valid, inlet, label: Label::Own, source: Source::Own, idx: IdxList::Matching }),
                    Op::Tick(ticks),
                ]
            });
        let rounds = prop_oneof![
            1 => prop::collection::vec(round.clone(), 0..=0),
            6 => prop::collection::vec(round.clone(), 1..=1),
            6 => prop::collection::vec(round.clone(), 2..=2),
            2 => prop::collection::vec(round, 3..=3),
        ];
        let block = (
            prop_oneof![5 => Just(Some(false)), 1 => Just(Some(true)), 6 => Just(None)],
            register(),
            any::<u16>(),
            rounds,
            prop::collection::vec((op_strategy_c14(n), any::<u16>()), 1..=2),
            prop_oneof![24 => Just(Op::EpochUp(1)), 3 => Just(Op::EpochUp(2)), 1 => Just(Op::EpochUp(3))],
            prop_oneof![6 => Just(Op::Tick(3)), 1 => Just(Op::Tick(1))],
        )
            .prop_map(|(regenesis, reg, at, rounds, noise, up, tick)| {
                let mut items: Vec<Op> = rounds.into_iter().flatten().collect();
                if let Some(r) = reg {
                    let pos = vcore::pick_index(at, items.len() + 1);
                    items.insert(pos, r);
                }
                for (op, at) in noise {
                    let pos = vcore::pick_index(at, items.len() + 1);
                    items.insert(pos, op);
                }
                if let Some(force) = regenesis {
                    items.insert(0, Op::ReGenesis { force });
                }
                items.push(up);
                items.push(tick);
                items
            });
        (Just(cfg), prefix, prop::collection::vec(block, 2..=4)).prop_map(|(cfg, (a, b, c, d), blocks)| {
            let mut ops: Vec<Op> = a.into_iter().collect();
            ops.extend(b);
            ops.extend([c, d]);
            for b in blocks {
                ops.extend(b);
            }
            Case { cfg, ops }
        })
    })
}

/// Honest, scripted histories: validation of the epoch-offset model (any disagreement here is a model bug until
/// proven otherwise) and a floor for the required classes.
pub fn scripted() -> Vec<Case> {
    let mut v = vec![];
    for (k, m, phi_pct) in [(5u64, 100u64, 95u8), (30, 100, 65)] {
        for n in [3u8, 5] {
            let cfg = SutConfig {
                k,
                m,
                phi_pct,
                n_signers: n,
                cardano_database: true,
                cardano_transactions: n == 5,
                cardano_stake_distribution: n == 3,
                // one scripted configuration per parameter set has a registered party without stake
                zero_stake_party: n == 5,
            };
            let full = (1u16 << n) - 1;
            let reg = |mask: u16, keygen: u8| Op::Register { mask, keygen, when: RegEpoch::Current };
            // three epochs, everybody registers, one certificate per entity, an immutable file in between
            let mut ops = vec![Op::Tick(1), reg(full, 0), Op::EpochUp(1), Op::Tick(3)];
            for _epoch in 0..3 {
                ops.extend([reg(full, 0), sign_all(n), Op::Tick(2), sign_all(n), Op::Tick(2), sign_all(n), Op::Tick(2)]);
                ops.extend([Op::ImmutableUp, Op::BlocksUp(40), Op::Tick(2), sign_all(n), Op::Tick(2), sign_all(n), Op::Tick(1)]);
                ops.extend([Op::EpochUp(1), Op::Tick(3)]);
            }
            v.push(Case { cfg: cfg.clone(), ops });
            // partial registration with rotated keys, restart in the middle of a round, late registration
            let part = full & !1;
            let mut ops = vec![Op::Tick(1), reg(part, 1), Op::EpochUp(1), Op::Tick(3)];
            ops.extend([reg(full, 2), sign_all(n), Op::Tick(2), Op::Restart, Op::Tick(3), sign_all(n), Op::Tick(2)]);
            ops.extend([Op::EpochUp(1), Op::Register { mask: 1, keygen: 1, when: RegEpoch::Stale }, Op::Tick(3)]);
            ops.extend([reg(part, 0), sign_all(n), Op::Tick(2), sign_all(n), Op::Tick(2)]);
            ops.extend([Op::EpochUp(1), Op::Tick(3), reg(full, 0), sign_all(n), Op::Tick(2), sign_all(n), Op::Tick(2)]);
            // skipped epoch, blocked, operator bootstraps a new genesis, chain goes on
            ops.extend([Op::EpochUp(2), Op::Tick(3), sign_all(n), Op::Tick(2), reg(full, 0), Op::EpochUp(1), Op::Tick(3)]);
            ops.extend([Op::ReGenesis { force: false }, Op::Tick(2), reg(full, 0), Op::EpochUp(1), Op::Tick(3), sign_all(n), Op::Tick(2), sign_all(n), Op::Tick(2)]);
            v.push(Case { cfg, ops });
        }
    }
    // every signed entity type: its open message expires while it is being signed, late signatures reach the quorum,
    // it must never be sealed; then a chain roll-back that returns to a beacon that is already certified
    let cfg = SutConfig { k: 5, m: 100, phi_pct: 95, n_signers: 3, cardano_database: true, cardano_transactions: true, cardano_stake_distribution: true, zero_stake_party: false };
    let full = 0b111u16;
    let reg = Op::Register { mask: full, keygen: 0, when: RegEpoch::Current };
    let mut ops = vec![Op::Tick(1), reg.clone(), Op::EpochUp(1), Op::Tick(3), reg.clone()];
    // epoch 2: everything gets certified once (so that epoch 3 has a parent)
    for _ in 0..5 {
        ops.extend([sign_all(3), Op::Tick(2)]);
    }
    ops.extend([Op::EpochUp(1), Op::Tick(3), reg.clone()]);
    // epoch 3: MithrilStakeDistribution certified, then each following type expires while signing
    ops.extend([sign_all(3), Op::Tick(2)]);
    for _ in 0..4 {
        ops.extend([Op::Expire(u16::MAX), sign_all(3), Op::Tick(2)]);
    }
    v.push(Case { cfg: cfg.clone(), ops });
    // roll-back: (e, 179) certified at block 185, the chain goes on to 215 ((e, 209) opened), rolls back to 185
    let mut ops = vec![Op::Tick(1), reg.clone(), Op::EpochUp(1), Op::Tick(3), reg.clone(), Op::BlocksUp(85)];
    for _ in 0..5 {
        ops.extend([sign_all(3), Op::Tick(2)]);
    }
    ops.extend([Op::BlocksUp(30), Op::Tick(2), sign_all(3), Op::Tick(2), Op::BlocksDown(30), Op::Tick(2)]);
    for _ in 0..3 {
        ops.extend([sign_all(3), Op::Tick(2)]);
    }
    ops.extend([Op::BlocksUp(45), Op::Tick(2), sign_all(3), Op::Tick(2), Op::BlocksDown(20), Op::Tick(2), sign_all(3), Op::Tick(2)]);
    v.push(Case { cfg, ops });
    v
}

pub fn run_case_with(c: &Case, prefix: &str, tolerated: &[String], sticky: bool) -> Report {
    let rt = case_runtime();
    let rep = rt.block_on(async {
        let mut rep = Report::new();
        let mut run = Run::boot(&c.cfg, "c14", RunOpts { certificates: true, rows: false, client_verifier: true, signers_by_true_key: false, expect_certificate_on_honest_quorum: false, sign_once: false }).await;
        run.tolerated = tolerated.to_vec();
        for op in &c.ops {
            if run.violation.is_some() {
                break;
            }
            run.apply(op).await;
        }
        let certs = run.non_genesis_certificates();
        let epochs_with_certs: std::collections::BTreeSet<u64> = run.obs.certs.iter().filter(|c| !c.is_genesis()).map(|c| c.epoch.0).collect();
        rep.label(format!("certificates:{}", match certs { 0 => "0", 1 => "1", 2..=3 => "2-3", 4..=6 => "4-6", _ => "7+" }));
        rep.label(format!("epochs-with-certificates:{}", epochs_with_certs.len().min(4)));
        let labels: Vec<String> = run.labels.iter().cloned().collect();
        for l in labels {
            rep.label(l);
        }
        for s in run.obs.states.clone() {
            rep.label(format!("state:{s}"));
        }
        if run.obs.restarts > 0 {
            rep.label("restart");
        }
        if run.obs.regenesis > 0 {
            rep.label("regenesis");
            if run.obs.certs.iter().rev().take_while(|c| !c.is_genesis()).count() > 0 && run.obs.certs.iter().filter(|c| c.is_genesis()).count() > 1 {
                rep.label("certificate-after-regenesis");
            }
        }
        if run.obs.multi_epoch_jump {
            rep.label("multi-epoch-jump");
        }
        if run.obs.partial_registration {
            rep.label("partial-registration");
        }
        if run.obs.non_current_signature {
            rep.label("signature-for-non-current-message");
        }
        if run.obs.buffered > 0 {
            rep.label("buffered-signature");
        }
        // partial registration that actually shaped a certificate: some certificate's key set is a strict subset
        let n = run.model.n();
        let shaped = run.obs.certs.iter().filter(|c| !c.is_genesis()).any(|c| run.model.members_for_signing_epoch(c.epoch.0).len() < n);
        if shaped {
            rep.label("certificate-with-partial-signer-set");
        }
        let rotated = run.obs.certs.iter().filter(|c| !c.is_genesis()).any(|c| run.model.members_for_signing_epoch(c.epoch.0).values().any(|g| *g > 0));
        if rotated {
            rep.label("certificate-with-rotated-key");
        }
        if certs >= 2 {
            rep.label("certificates>=2");
        }
        let interesting = run.obs.restarts > 0 || run.obs.multi_epoch_jump || run.obs.partial_registration || run.obs.non_current_signature;
        if certs >= 2 && interesting {
            let shape: Vec<String> = c.ops.iter().map(|o| o.kind()).collect();
            rep.nontrivial(format!("{}|{}", c.cfg.n_signers, shape.join(" ")));
        }
        if let Some((k, w)) = run.verdict() {
            if !sticky || run.violation.is_none() || crate::run::sticky_key(&k) {
                rep.violation(k, w);
            }
        }
        run.shutdown().await;
        if !prefix.is_empty() {
            for l in rep.labels.iter_mut() {
                *l = format!("{prefix}{l}");
            }
        }
        rep
    });
    rt.shutdown_background();
    rep
}

pub fn run(args: &Args) -> i32 {
    let mut check = Check::new("C14", "exploration", args);
    check
        .rule(
            "history = deployment start (genesis, first registrations, first epoch change; each step perturbable) + 2..4 \
             epoch blocks; a block = registration for the epoch after next (all / subset / nobody, possibly a new key) at \
             a generated position, 0..3 rounds (registered signers, all or some, sign what is currently asked for over the \
             HTTP route or the message queue, then 1..2 ticks), 1..2 free operations at generated positions (tick, epoch \
             change, immutable file, blocks, register current/late/ahead, sign subset x target {current, superseded, not \
             yet open, unknown} x {valid, duplicate, wrong message, next/previous epoch key} x inlet, expire, restart, \
             forced re-genesis), optional operator re-genesis when blocked, then epoch +1 (sometimes +2/+3) and ticks; \
             run on the real aggregator, all invariants evaluated after every state-machine cycle and every operation; \
             non-trivial = >= 2 certificates produced and at least one of: signature for a non-current open message, \
             restart, multi-epoch jump, partial registration; distinct by the sequence of operation kinds",
        )
        .assume("chain/immutable/block inputs come from the repo's test doubles; signer stakes are constant; protocol parameters are constant over a history")
        .assume("the artifact task spawned after a certificate always finishes before the next event (its interruption is C15)")
        .assume("re-genesis is an operator action on a stopped node, computed from the registrations stored for the current epoch, as `genesis bootstrap` does")
        .require_label("certificates>=2")
        .require_label("restart")
        .require_label("multi-epoch-jump")
        .require_label("partial-registration")
        .require_label("certificate-with-partial-signer-set")
        .require_label("signature-for-non-current-message")
        .require_label("buffered-signature")
        .require_label("state:blocked-epoch-gap")
        .require_label("certificate-after-regenesis")
        .require_label("scripted/chain-rollback")
        .require_label("scripted/expire:done")
        .shrink_iters(120);
    crate::model::warm_up(6);
    let t = check.tier;
    let tolerated = crate::run::tolerated_keys(&check, args, &[]);
    check.enumerate("scripted-honest", scripted().into_iter(), false, |c| run_case_with(c, "scripted/", &tolerated, false));
    check.section("histories", case_strategy, t.pick(400, 12000), |c| run_case_with(c, "", &tolerated, true));
    check.finish()
}
