//! C16 — a stored single signature is attributed to the party whose registered key produced it.
//!
//! Rounds on the real aggregator (same system as C14). Some parties are honest (they submit their own signature
//! under their own name), the others submit anything a peer can submit: own or copied signatures, under their
//! own, another registered or an unregistered name, for the right or a wrong message, with the current or another
//! epoch's key, with matching or altered won-index lists — through the HTTP route, through the message-queue
//! processor, and (both inlets, when the open message does not exist yet) through the buffer.
//! After every step every stored row is re-verified with mithril-stm against the key the *labelled* party
//! registered (harness model, model.rs); see `Run::check_rows`, `must_certify_next`, `check_new_certificate`.

use proptest::prelude::*;
use serde::{Deserialize, Serialize};
use vcore::{Args, Check, Report};

use crate::run::{Flavour, IdxList, Inlet, Label, Op, RegEpoch, Run, RunOpts, SignOp, Source, Target};
use crate::sut::{SutConfig, case_runtime};

#[derive(Clone, Debug, Serialize, Deserialize)]
pub struct Case {
    pub cfg: SutConfig,
    /// parties that only ever submit their own signature under their own name
    pub honest_mask: u16,
    pub ops: Vec<Op>,
}

fn cfg_strategy() -> impl Strategy<Value = SutConfig> {
    (
        prop_oneof![
            2 => Just((5u64, 100u64, 95u8)),
            3 => Just((30u64, 100u64, 65u8)),
            1 => Just((12u64, 40u64, 70u8)),
        ],
        3u8..=6,
        prop_oneof![3 => Just(true), 1 => Just(false)],
        prop_oneof![3 => Just(false), 1 => Just(true)],
    )
        .prop_map(|((k, m, phi_pct), n_signers, cardano_database, cardano_stake_distribution)| SutConfig {
            k,
            m,
            phi_pct,
            n_signers,
            cardano_database,
            cardano_transactions: false,
            cardano_stake_distribution,
            zero_stake_party: false,
        })
}

fn one_party(n: u8) -> impl Strategy<Value = u16> {
    (0..n).prop_map(|p| 1u16 << p)
}

/// anything a peer can submit
fn any_submission(n: u8) -> impl Strategy<Value = SignOp> {
    (
        one_party(n),
        prop_oneof![10 => Just(Target::Current(0)), 2 => any::<u16>().prop_map(Target::Current), 4 => any::<u16>().prop_map(Target::NotYetOpen), 1 => any::<u16>().prop_map(Target::Old)],
        prop_oneof![8 => Just(Flavour::Valid), 2 => Just(Flavour::WrongMessage), 2 => Just(Flavour::NextEpochKey), 1 => Just(Flavour::PrevEpochKey), 1 => Just(Flavour::Duplicate)],
        prop_oneof![3 => Just(Inlet::Http), 1 => Just(Inlet::Dmq)],
        prop_oneof![3 => Just(Label::Own), 5 => any::<u16>().prop_map(Label::Other), 1 => Just(Label::Unregistered)],
        prop_oneof![3 => Just(Source::Own), 4 => any::<u16>().prop_map(Source::CopyOf)],
        prop_oneof![4 => Just(IdxList::Matching), 1 => Just(IdxList::Truncated), 1 => Just(IdxList::Extended), 1 => Just(IdxList::Restricted)],
    )
        .prop_map(|(mask, target, flavour, inlet, label, source, idx)| SignOp { mask, target, flavour, inlet, label, source, idx })
}

fn honest_form(mut s: SignOp) -> SignOp {
    s.flavour = Flavour::Valid;
    s.label = Label::Own;
    s.source = Source::Own;
    s.idx = IdxList::Matching;
    if matches!(s.target, Target::Old(_)) {
        s.target = Target::Current(0);
    }
    s
}

fn op_strategy(n: u8) -> impl Strategy<Value = Op> {
    let full = (1u16 << n) - 1;
    prop_oneof![
        60 => any_submission(n).prop_map(Op::Sign),
        // several parties at once in honest form (restricted to the honest ones at execution)
        8 => (1u16..=full, prop_oneof![3 => Just(Inlet::Http), 1 => Just(Inlet::Dmq)], prop_oneof![4 => Just(Target::Current(0)), 1 => Just(Target::NotYetOpen(0))])
            .prop_map(|(mask, inlet, target)| Op::Sign(SignOp { mask, target, flavour: Flavour::Valid, inlet, label: Label::Own, source: Source::Own, idx: IdxList::Matching })),
        18 => prop_oneof![4 => Just(1u8), 1 => Just(2u8)].prop_map(Op::Tick),
        3 => Just(Op::ImmutableUp),
        2 => (1u16..=full, 0u8..=1).prop_map(|(mask, keygen)| Op::Register { mask, keygen, when: RegEpoch::Current }),
        2 => Just(Op::EpochUp(1)),
    ]
}

fn case_strategy() -> impl Strategy<Value = Case> {
    cfg_strategy().prop_flat_map(|cfg| {
        let n = cfg.n_signers;
        let full = (1u16 << n) - 1;
        (
            Just(cfg),
            0u16..=full,
            // who registers (with which key) for the epoch after the first signing epoch
            prop_oneof![2 => Just(full), 2 => 1u16..=full],
            0u8..=1,
            prop::collection::vec(op_strategy(n), 6..=16),
        )
            .prop_map(move |(cfg, honest_mask, reg_mask, keygen, ops)| {
                let mut all = vec![Op::Tick(1), Op::Register { mask: reg_mask, keygen, when: RegEpoch::Current }, Op::EpochUp(1), Op::Tick(3)];
                all.extend(ops);
                // close the round
                all.push(Op::Tick(2));
                Case { cfg, honest_mask, ops: all }
            })
    })
}

/// The (label, signature, index list, inlet, order) product on the smallest system, enumerated: party 0 honest,
/// party 1 the peer under test, its submission before or after party 0's own.
fn product() -> Vec<Case> {
    let mut v = vec![];
    let cfg = SutConfig { k: 5, m: 100, phi_pct: 95, n_signers: 3, cardano_database: true, cardano_transactions: false, cardano_stake_distribution: false, zero_stake_party: false };
    let honest = |mask: u16, inlet: Inlet| Op::Sign(SignOp { mask, target: Target::Current(0), flavour: Flavour::Valid, inlet, label: Label::Own, source: Source::Own, idx: IdxList::Matching });
    for label in [Label::Own, Label::Other(0), Label::Other(40000), Label::Unregistered] {
        for source in [Source::Own, Source::CopyOf(0), Source::CopyOf(40000)] {
            for flavour in [Flavour::Valid, Flavour::WrongMessage, Flavour::NextEpochKey] {
                for idx in [IdxList::Matching, IdxList::Truncated, IdxList::Extended] {
                    for inlet in [Inlet::Http, Inlet::Dmq] {
                        for buffered in [false, true] {
                            for first in [false, true] {
                                if inlet == Inlet::Dmq && (label != Label::Own || idx != IdxList::Matching) {
                                    continue; // the queue fixes the sender's name and rebuilds the index list
                                }
                                // buffered: also the replay of a signature of ANOTHER message (it authenticates against the
                                // message the sender states), which can take a party's place in the buffer
                                if buffered && (flavour == Flavour::NextEpochKey || idx != IdxList::Matching) {
                                    continue;
                                }
                                let adv = Op::Sign(SignOp { mask: 0b010, target: if buffered { Target::NotYetOpen(0) } else { Target::Current(0) }, flavour, inlet, label, source, idx });
                                let mut ops = vec![Op::Tick(1), Op::Register { mask: 0b110, keygen: 1, when: RegEpoch::Current }, Op::EpochUp(1)];
                                if buffered {
                                    // IDLE -> READY only: the open message does not exist yet, submissions are buffered
                                    ops.push(Op::Tick(2));
                                    let hb = Op::Sign(SignOp { mask: 0b001, target: Target::NotYetOpen(0), flavour: Flavour::Valid, inlet, label: Label::Own, source: Source::Own, idx: IdxList::Matching });
                                    if first { ops.extend([adv, hb]) } else { ops.extend([hb, adv]) }
                                    ops.push(Op::Tick(1));
                                } else {
                                    ops.push(Op::Tick(3));
                                    if first { ops.extend([adv, honest(0b001, inlet)]) } else { ops.extend([honest(0b001, inlet), adv]) }
                                }
                                ops.extend([Op::Tick(1), honest(0b101, Inlet::Http), Op::Tick(2)]);
                                v.push(Case { cfg: cfg.clone(), honest_mask: 0b101, ops });
                            }
                        }
                    }
                }
            }
        }
    }
    // the same parties submit twice: first a signature restricted to half of its indices (below the quorum together),
    // then their full signatures (insert-or-replace: the NUMBER of stored signatures stays the same, their content
    // reaches the quorum): the next cycle must certify
    // (the quorum is swept: for some k the halves stay below it while the full signatures reach it)
    for (k, n) in (50u64..=95).step_by(5).flat_map(|k| [(k, 3u8), (k, 5u8)]) {
        let cfg = SutConfig { k, m: 100, phi_pct: 65, n_signers: n, cardano_database: false, cardano_transactions: false, cardano_stake_distribution: false, zero_stake_party: false };
        let full = (1u16 << n) - 1;
        let sub = |idx: IdxList| Op::Sign(SignOp { mask: full, target: Target::Current(0), flavour: Flavour::Valid, inlet: Inlet::Http, label: Label::Own, source: Source::Own, idx });
        let ops = vec![
            Op::Tick(1),
            Op::Register { mask: full, keygen: 0, when: RegEpoch::Current },
            Op::EpochUp(1),
            Op::Tick(3),
            sub(IdxList::Restricted),
            Op::Tick(1),
            sub(IdxList::Matching),
            Op::Tick(1),
            Op::Tick(1),
        ];
        v.push(Case { cfg, honest_mask: 0, ops });
    }
    v
}

pub const KEY_DISPLACED: &str = "honest-buffered-contribution-displaced";

/// party 0 sends its signature early (buffered, acknowledged); party 1 replays a signature made by party 0's key over
/// another message under party 0's name (it authenticates against the message the sender states); the open message
/// is created: party 0 has no row
fn displacement_witness() -> Case {
    let cfg = SutConfig { k: 5, m: 100, phi_pct: 95, n_signers: 3, cardano_database: true, cardano_transactions: false, cardano_stake_distribution: false, zero_stake_party: false };
    let early = |mask: u16, flavour: Flavour, label: Label, source: Source| Op::Sign(SignOp { mask, target: Target::NotYetOpen(0), flavour, inlet: Inlet::Http, label, source, idx: IdxList::Matching });
    Case {
        cfg,
        honest_mask: 0b101,
        ops: vec![
            Op::Tick(1),
            Op::Register { mask: 0b110, keygen: 1, when: RegEpoch::Current },
            Op::EpochUp(1),
            Op::Tick(2),
            early(0b001, Flavour::Valid, Label::Own, Source::Own),
            early(0b010, Flavour::WrongMessage, Label::Other(0), Source::CopyOf(0)),
            Op::Tick(2),
        ],
    }
}

pub fn run_case(c: &Case, tolerated: &[String], sticky: bool) -> Report {
    let rt = case_runtime();
    let rep = rt.block_on(async {
        let mut rep = Report::new();
        let opts = RunOpts { certificates: true, rows: true, client_verifier: false, signers_by_true_key: true, expect_certificate_on_honest_quorum: true, sign_once: false };
        let mut run = Run::boot(&c.cfg, "c16", opts).await;
        let n = c.cfg.n_signers as usize;
        run.tolerated = tolerated.to_vec();
        for op in &c.ops {
            if run.violation.is_some() {
                break;
            }
            match op {
                Op::Sign(s) => {
                    // honest parties of the mask act in honest form, the others as generated
                    let honest_part = s.mask & c.honest_mask;
                    let other_part = s.mask & !c.honest_mask;
                    if honest_part != 0 {
                        let mut h = honest_form(s.clone());
                        h.mask = honest_part;
                        run.apply(&Op::Sign(h)).await;
                    }
                    if other_part != 0 && run.violation.is_none() {
                        let mut a = s.clone();
                        a.mask = other_part;
                        run.apply(&Op::Sign(a)).await;
                    }
                }
                other => run.apply(other).await,
            }
        }
        // classes
        let mut shape = std::collections::BTreeSet::new();
        let mut mislabelled_valid = 0;
        for subs in run.obs.subs.values() {
            for (i, s) in subs.iter().enumerate() {
                rep.label(format!("submission:{}", s.class));
                let label_party = run.model.party_index(&s.label);
                let mislabelled = label_party != Some(s.producer);
                if mislabelled && s.valid_for_producer == Some(true) {
                    mislabelled_valid += 1;
                    // order relative to the honest submission of the party whose name / signature is used
                    let victim_label = label_party.filter(|p| c.honest_mask & (1 << p) != 0);
                    let victim_sig = Some(s.producer).filter(|p| c.honest_mask & (1 << p) != 0 && *p != s.by);
                    let before = |v: Option<usize>| match v {
                        None => "-",
                        Some(p) => {
                            if subs.iter().take(i).any(|h| h.honest && h.by == p && h.stored) { "after-honest" } else { "before-honest" }
                        }
                    };
                    shape.insert(format!("{}:{}:{}:{}", s.class, before(victim_label), before(victim_sig), if s.stored { "stored" } else { "not-stored" }));
                    rep.label(format!("mislabelled-valid:{}", if s.stored { "stored" } else { "refused" }));
                }
                if s.honest && s.stored {
                    rep.label("honest-stored");
                }
                if matches!(s.outcome, crate::sut::Submitted::Buffered) {
                    rep.label(format!("buffered:{}", if s.honest { "honest" } else { "other" }));
                }
            }
        }
        let labels: Vec<String> = run.labels.iter().filter(|l| !l.starts_with("sign:")).cloned().collect();
        for l in labels {
            rep.label(l);
        }
        let certs = run.non_genesis_certificates();
        rep.label(format!("certificates:{}", certs.min(3)));
        if run.obs.certs.iter().filter(|c| !c.is_genesis()).any(|c| run.model.members_for_signing_epoch(c.epoch.0).len() < n) {
            rep.label("certificate-with-partial-signer-set");
        }
        if mislabelled_valid > 0 {
            let s: Vec<String> = shape.into_iter().collect();
            rep.nontrivial(s.join(" + "));
        }
        if let Some((k, w)) = run.verdict() {
            if !sticky || run.violation.is_none() || crate::run::sticky_key(&k) {
                rep.violation(k, w);
            }
        }
        run.shutdown().await;
        rep
    });
    rt.shutdown_background();
    rep
}

pub fn run(args: &Args) -> i32 {
    let mut check = Check::new("C16", "exploration", args);
    check
        .rule(
            "round history on the real aggregator with 3..6 signers, a generated honest subset, and 6..16 operations: \
             submissions from {own, other registered, unregistered name} x {own signature, copy of another party's} x \
             {valid, wrong message, next/previous epoch key, duplicate} x {matching, truncated, extended index list} x \
             {HTTP route, message-queue processor} x {open message exists, not yet (buffer)}, ticks, new immutable file, \
             registrations, epoch change; plus the enumerated product on a 3-signer system; non-trivial = at least one \
             submission whose name is not its producer's and whose signature is cryptographically valid for the open \
             message; distinct by the set of (name class, signature class, inlet, target class, before/after the honest \
             submission of the party whose name / signature is used, stored or not)",
        )
        .assume("the message queue delivers the sender's authenticated pool id as party id and rebuilds the index list from the signature (SignatureConsumerDmq); the harness feeds the real SequentialSignatureProcessor through the repo's FakeSignatureConsumer accordingly")
        .assume("signer stakes and protocol parameters are constant over a history")
        .require_label("honest-stored")
        .require_label("honest-quorum-certified")
        .require_label("buffered:other")
        .require_label("buffered:honest")
        .require_label("mislabelled-valid:refused")
        .shrink_iters(150);
    crate::model::warm_up(6);
    let t = check.tier;
    let tolerated = crate::run::tolerated_keys(&check, args, &["mislabelled-signature-stored*", "mislabelled-signature-stored", "mislabelled-signature-stored:two-names", "panic-on-submission:name-not-registered*", KEY_DISPLACED]);
    check.enumerate("label-signature-product", product().into_iter(), true, |c| run_case(c, &tolerated, false));
    check.section("rounds", case_strategy, t.pick(400, 12000), |c| run_case(c, &tolerated, true));
    check.witness(KEY_DISPLACED, "a replayed signature of party A over another message, sent under A's name before the open message exists, takes A's slot in the buffer: A's acknowledged contribution is gone at hand-over", || {
        let c = displacement_witness();
        matches!(run_case(&c, &[], false).outcome, vcore::Outcome::Violation { key, .. } if key == KEY_DISPLACED)
    });
    check.finish()
}
