//! Histories over the real aggregator: the operations (events the aggregator reacts to), their executor, what the
//! harness observes after every step, and the invariants of C14 (certificates) and C16 (single-signature rows).
//!
//! Building on this (C15):
//! * `Run::boot(&cfg, tag, opts)` = world + first aggregator process + genesis certificate; `run.apply(&op)` executes
//!   one [`Op`] and observes; `run.observe()` re-reads the database through the public services and checks the
//!   invariants selected in [`RunOpts`]; `run.verdict()` = first violation `(key, what)`; `run.labels` = classes seen.
//! * `run.node` is the running process (`sut::Node`: state machine, services, HTTP router, repositories,
//!   `DependenciesBuilder`); `run.world` survives restarts (`world.start()` boots a new process on the same stores);
//!   `run.restart()` = clean stop + start, `run.kill()` = the process dies where it stands (see its comment for the
//!   runtime hand-over). `run.model` is the harness' own registration/key model (model.rs), `run.obs` everything seen.
//! * case strategies: `op_strategy_c14(n)`, `sign_strategy_c14(n)`, c14::cfg_strategy(); one tokio runtime per case:
//!   `sut::case_runtime()`.

use std::collections::{BTreeMap, BTreeSet};
use std::sync::Arc;

use proptest::prelude::*;
use serde::{Deserialize, Serialize};

use mithril_common::{
    certificate_chain::{
        CertificateGenesisProducer, CertificateRetriever, CertificateRetrieverError, CertificateVerifier,
        MithrilCertificateVerifier,
    },
    crypto_helper::{GenesisSigner, ProtocolKey},
    entities::{
        BlockNumber, BlockNumberOffset, CardanoDbBeacon, CardanoTransactionsSigningConfig, Certificate,
        CertificateSignature, Epoch, ProtocolMessage, ProtocolMessagePartKey, SignedEntityType,
        SignedEntityTypeDiscriminants, SingleSignature, SupportedEra, TimePoint,
    },
    messages::CertificateMessage,
};

use crate::model::{KeySet, Model, PartyIdx};
use crate::sut::{self, Node, Submitted, SutConfig, World};

// ------------------------------------------------------------------------------------------------ operations

#[derive(Clone, Copy, Debug, PartialEq, Eq, Serialize, Deserialize)]
pub enum RegEpoch {
    /// chain epoch + 1: what a signer following the chain sends
    Current,
    /// chain epoch: a signer that has not noticed the last epoch change yet (late)
    Stale,
    /// chain epoch + 2
    Ahead,
}

#[derive(Clone, Copy, Debug, PartialEq, Eq, Serialize, Deserialize)]
pub enum Target {
    /// an entity of the current time point (preferring those with an open, uncertified message)
    Current(u16),
    /// an entity that had an open message earlier and is not derived from the current time point any more
    Old(u16),
    /// an entity of the current time point whose open message does not exist yet (buffered path)
    NotYetOpen(u16),
    /// an entity that will never be opened
    Unknown,
}

#[derive(Clone, Copy, Debug, PartialEq, Eq, Serialize, Deserialize)]
pub enum Flavour {
    Valid,
    /// the same valid submission twice
    Duplicate,
    /// a signature of another message, submitted for the target
    WrongMessage,
    /// signed with the key set registered for the following signing epoch
    NextEpochKey,
    /// signed with the key set of the previous signing epoch
    PrevEpochKey,
}

#[derive(Clone, Copy, Debug, PartialEq, Eq, Serialize, Deserialize)]
pub enum Inlet {
    Http,
    Dmq,
}

#[derive(Clone, Copy, Debug, PartialEq, Eq, Serialize, Deserialize)]
pub enum Label {
    Own,
    /// another party known to the harness (registered or not for the epoch in question)
    Other(u16),
    Unregistered,
}

#[derive(Clone, Copy, Debug, PartialEq, Eq, Serialize, Deserialize)]
pub enum Source {
    Own,
    /// a copy of the signature another party produces for the same message
    CopyOf(u16),
}

#[derive(Clone, Copy, Debug, PartialEq, Eq, Serialize, Deserialize)]
pub enum IdxList {
    Matching,
    Truncated,
    Extended,
    /// a VALID signature restricted to the first half of its won indices (in the signature itself and in the list)
    #[serde(alias = "Restricted")]
    Restricted,
}

#[derive(Clone, Debug, PartialEq, Eq, Serialize, Deserialize)]
pub struct SignOp {
    /// submitting parties (bit i = fixture party i)
    pub mask: u16,
    pub target: Target,
    pub flavour: Flavour,
    pub inlet: Inlet,
    pub label: Label,
    pub source: Source,
    pub idx: IdxList,
}

#[derive(Clone, Debug, PartialEq, Eq, Serialize, Deserialize)]
pub enum Op {
    /// n cycles of the state machine
    Tick(u8),
    EpochUp(u8),
    ImmutableUp,
    /// n new blocks
    BlocksUp(u8),
    /// the chain rolls back n blocks (never below the start of the history)
    #[serde(alias = "BlocksDown")]
    BlocksDown(u8),
    Register { mask: u16, keygen: u8, when: RegEpoch },
    Sign(SignOp),
    /// make one open message of the current time point expire
    Expire(u16),
    /// stop the aggregator process, start a new one on the same stores
    Restart,
    /// operator action after a blocked chain: stop, bootstrap a new genesis certificate for the current epoch
    /// (from the signers registered for it, as `genesis bootstrap` does), start. `force: false` = only when the
    /// state machine reports that it is blocked by an epoch gap (the situation the action exists for).
    ReGenesis { force: bool },
}

impl Op {
    pub fn kind(&self) -> String {
        match self {
            Op::Tick(_) => "T".into(),
            Op::EpochUp(n) => format!("E{n}"),
            Op::ImmutableUp => "I".into(),
            Op::BlocksUp(_) => "B".into(),
            Op::BlocksDown(_) => "Bd".into(),
            Op::Register { when, .. } => match when {
                RegEpoch::Current => "R".into(),
                RegEpoch::Stale => "Rs".into(),
                RegEpoch::Ahead => "Ra".into(),
            },
            Op::Sign(s) => {
                let t = match s.target {
                    Target::Current(_) => "c",
                    Target::Old(_) => "o",
                    Target::NotYetOpen(_) => "n",
                    Target::Unknown => "u",
                };
                let f = match s.flavour {
                    Flavour::Valid => "v",
                    Flavour::Duplicate => "d",
                    Flavour::WrongMessage => "w",
                    Flavour::NextEpochKey => "k",
                    Flavour::PrevEpochKey => "p",
                };
                let i = match s.inlet {
                    Inlet::Http => "h",
                    Inlet::Dmq => "q",
                };
                format!("S{t}{f}{i}")
            }
            Op::Expire(_) => "X".into(),
            Op::Restart => "Z".into(),
            Op::ReGenesis { .. } => "G".into(),
        }
    }
}

fn mask_strategy(n: u8) -> impl Strategy<Value = u16> {
    let full = (1u16 << n) - 1;
    prop_oneof![
        5 => Just(full),
        4 => 1u16..=full,
        1 => Just(0u16),
    ]
}

/// honest-label signature operations (C14)
pub fn sign_strategy_c14(n: u8) -> impl Strategy<Value = SignOp> {
    (
        mask_strategy(n),
        prop_oneof![
            12 => any::<u16>().prop_map(Target::Current),
            2 => any::<u16>().prop_map(Target::Old),
            3 => any::<u16>().prop_map(Target::NotYetOpen),
            1 => Just(Target::Unknown),
        ],
        prop_oneof![
            12 => Just(Flavour::Valid),
            2 => Just(Flavour::Duplicate),
            2 => Just(Flavour::WrongMessage),
            2 => Just(Flavour::NextEpochKey),
            1 => Just(Flavour::PrevEpochKey),
        ],
        prop_oneof![3 => Just(Inlet::Http), 1 => Just(Inlet::Dmq)],
    )
        .prop_map(|(mask, target, flavour, inlet)| SignOp {
            mask,
            target,
            flavour,
            inlet,
            label: Label::Own,
            source: Source::Own,
            idx: IdxList::Matching,
        })
}

pub fn op_strategy_c14(n: u8) -> impl Strategy<Value = Op> {
    prop_oneof![
        40 => prop_oneof![3 => Just(1u8), 3 => Just(2u8), 1 => Just(3u8)].prop_map(Op::Tick),
        1 => Just(Op::EpochUp(1)),
        5 => Just(Op::ImmutableUp),
        3 => (5u8..=70).prop_map(Op::BlocksUp),
        2 => (5u8..=70).prop_map(Op::BlocksDown),
        5 => (mask_strategy(n), prop_oneof![4 => Just(0u8), 1 => Just(1u8), 1 => Just(2u8)],
               prop_oneof![5 => Just(RegEpoch::Current), 3 => Just(RegEpoch::Stale), 1 => Just(RegEpoch::Ahead)])
            .prop_map(|(mask, keygen, when)| Op::Register { mask, keygen, when }),
        36 => sign_strategy_c14(n).prop_map(Op::Sign),
        2 => any::<u16>().prop_map(Op::Expire),
        4 => Just(Op::Restart),
        1 => Just(Op::ReGenesis { force: true }),
    ]
}

/// The keys of open known findings (known_findings.json) a history keeps running through. `candidates` are the
/// keys this check can produce for findings that leave the aggregator in a state the harness can still follow.
pub fn tolerated_keys(check: &vcore::Check, args: &vcore::Args, candidates: &[&str]) -> Vec<String> {
    if args.strict {
        return vec![];
    }
    candidates.iter().filter(|k| check.has_open_known(k)).map(|k| k.to_string()).collect()
}

thread_local! {
    static STICKY: std::cell::RefCell<Option<String>> = const { std::cell::RefCell::new(None) };
}

/// Shrinking aid for generated sections (one proptest runner per thread, which stops generating at its first
/// failure): the first failing key of the thread sticks, candidates failing with another key count as passing,
/// so the saved minimal case fails for the same reason as the case that was found.
pub fn sticky_key(key: &str) -> bool {
    STICKY.with(|s| {
        let mut s = s.borrow_mut();
        match &*s {
            None => {
                *s = Some(key.to_string());
                true
            }
            Some(k) => k == key,
        }
    })
}

pub fn clear_sticky() {
    STICKY.with(|s| *s.borrow_mut() = None);
}

// ------------------------------------------------------------------------------------------------ observations

pub fn tkey(t: &SignedEntityType) -> String {
    format!("{t:?}")
}

#[derive(Clone)]
pub struct SeenOpen {
    pub t: SignedEntityType,
    pub message: ProtocolMessage,
    pub epoch: u64,
}

#[derive(Clone)]
pub struct SubRec {
    pub op_index: usize,
    pub label: String,
    pub by: PartyIdx,
    pub producer: PartyIdx,
    pub sig: SingleSignature,
    /// the message (hash) that was signed
    pub signed_text: String,
    /// own label, own signature, right key set, right message, untouched index list
    pub honest: bool,
    /// a row with this label and this very signature existed right after the submission
    pub stored: bool,
    pub outcome: Submitted,
    /// the signature is cryptographically valid for its producer, the target's open message and the key set of
    /// the target's epoch (None: no open message existed at that moment)
    pub valid_for_producer: Option<bool>,
    /// (label class, source class, inlet, target class)
    pub class: String,
}

#[derive(Default)]
pub struct Obs {
    /// certificates in the order the harness saw them appear (= insertion order: observed after every cycle)
    pub certs: Vec<Certificate>,
    pub open_seen: BTreeMap<String, SeenOpen>,
    pub subs: BTreeMap<String, Vec<SubRec>>,
    pub states: BTreeSet<String>,
    pub multi_epoch_jump: bool,
    pub restarts: u32,
    pub regenesis: u32,
    pub partial_registration: bool,
    pub non_current_signature: bool,
    pub buffered: u32,
    pub mislabelled_accepted: u32,
    /// open messages whose deadline the harness moved into the past while they were not certified
    pub expired: BTreeSet<String>,
    /// a submission under a name not registered for the entity's epoch went into the buffer
    pub buffered_unregistered_name: bool,
    /// entities for which a row under a name other than its producer's was seen
    pub mislabelled_stored: BTreeSet<String>,
}

pub struct RunOpts {
    /// C14: check certificates (I1..I5)
    pub certificates: bool,
    /// C16: check single-signature rows after every step
    pub rows: bool,
    /// also run the mithril-client verifier on the HTTP view (I1)
    pub client_verifier: bool,
    /// C16: a party may be listed in `metadata.signers` iff *its own key* produced a valid signature of the message
    /// that was submitted under whatever name (C14 uses the stricter "submitted under its own name", its labels
    /// being honest by construction)
    pub signers_by_true_key: bool,
    /// C16: a tick in SIGNING must certify when the signatures honest parties got stored reach the quorum alone
    pub expect_certificate_on_honest_quorum: bool,
    /// C15: a signer signs each signed entity once: a party whose submission for the entity was acknowledged
    /// (registered or buffered) does not submit for it again, whatever happens to the aggregator afterwards
    /// (unless the aggregator announces another message for the entity than the one the party signed: the harness
    /// cannot predict the message of an entity before the aggregator has entered the epoch, a real signer can)
    pub sign_once: bool,
}

pub struct Run {
    pub world: World,
    pub node: Option<Node>,
    pub model: Model,
    pub obs: Obs,
    pub opts: RunOpts,
    pub labels: BTreeSet<String>,
    pub violation: Option<(String, String)>,
    pub tolerated: Vec<String>,
    pub tolerated_hits: Vec<(String, String)>,
    pub op_index: usize,
    pub genesis_signer: GenesisSigner,
    trace_labels: Vec<String>,
}

pub struct MapRetriever(pub BTreeMap<String, Certificate>);

#[async_trait::async_trait]
impl CertificateRetriever for MapRetriever {
    async fn get_certificate_details(&self, certificate_hash: &str) -> Result<Certificate, CertificateRetrieverError> {
        self.0
            .get(certificate_hash)
            .cloned()
            .ok_or_else(|| CertificateRetrieverError(anyhow::anyhow!("certificate {certificate_hash} is not stored")))
    }
}

pub struct MapRequester(pub BTreeMap<String, CertificateMessage>);

#[async_trait::async_trait]
impl mithril_client::certificate_client::CertificateAggregatorRequest for MapRequester {
    async fn list_latest(&self) -> mithril_client::MithrilResult<Vec<mithril_client::MithrilCertificateListItem>> {
        Ok(vec![])
    }
    async fn get_by_hash(&self, hash: &str) -> mithril_client::MithrilResult<Option<mithril_client::MithrilCertificate>> {
        Ok(self.0.get(hash).cloned())
    }
}

fn avk_hex(avk: &mithril_common::crypto_helper::ProtocolAggregateVerificationKey) -> String {
    ProtocolKey::new(avk.to_concatenation_aggregate_verification_key().to_owned())
        .to_json_hex()
        .unwrap_or_else(|e| format!("<unencodable {e}>"))
}

impl Run {
    /// World + first aggregator process + genesis certificate at the start epoch, signed by the deterministic
    /// genesis key of the sample configuration, for all fixture signers (as the repo's integration tests start).
    pub async fn boot(cfg: &SutConfig, tag: &str, opts: RunOpts) -> Run {
        let world = World::new(cfg, tag).await;
        let mut node = world.start().await.expect("aggregator boots");
        let mut model = Model::new(cfg.protocol_parameters(), cfg.n_signers as usize);
        if cfg.zero_stake_party {
            let last = model.n() - 1;
            model.set_stake(last, 0);
        }
        let all: Vec<_> = (0..model.n()).map(|p| model.signer_with_stake(p, 0)).collect();
        sut::bootstrap_genesis_state(&world, &mut node, &all, Epoch(sut::START_EPOCH)).await.expect("bootstrap");
        for p in 0..model.n() {
            model.record_registration(sut::START_EPOCH - 1, p, 0);
            model.record_registration(sut::START_EPOCH, p, 0);
        }
        let mut run = Run {
            world,
            node: Some(node),
            model,
            obs: Obs::default(),
            opts,
            labels: BTreeSet::new(),
            violation: None,
            tolerated: vec![],
            tolerated_hits: vec![],
            op_index: 0,
            genesis_signer: GenesisSigner::create_deterministic_signer(),
            trace_labels: vec![],
        };
        let ok = run.insert_genesis().await;
        assert!(ok, "initial genesis certificate");
        run.observe().await;
        run
    }

    pub fn label(&mut self, l: impl Into<String>) {
        let l = l.into();
        self.trace_labels.push(l.clone());
        self.labels.insert(l);
    }

    /// Record a violation. Returns true when the history must stop (the violation is not one of the `tolerated`
    /// keys = open known findings, through which the history keeps running so that it can still find other things).
    pub fn violate(&mut self, key: &str, what: String) -> bool {
        let what = format!("after op #{}: {what}", self.op_index);
        let tolerated = self.tolerated.iter().any(|k| match k.strip_suffix('*') {
            Some(prefix) => key.starts_with(prefix),
            None => k == key,
        });
        if tolerated {
            if !self.tolerated_hits.iter().any(|(k, _)| k == key) {
                self.tolerated_hits.push((key.to_string(), what));
            }
            return false;
        }
        if self.violation.is_none() {
            self.violation = Some((key.to_string(), what));
        }
        true
    }

    /// what the case reports: a real violation, else the first tolerated (known) one
    pub fn verdict(&self) -> Option<(String, String)> {
        self.violation.clone().or_else(|| self.tolerated_hits.first().cloned())
    }

    pub fn node(&self) -> &Node {
        self.node.as_ref().expect("node running")
    }

    /// the signed entity types of a time point, derived by the harness from the configuration
    pub fn types_at(&self, tp: &TimePoint) -> Vec<SignedEntityType> {
        let ctx = CardanoTransactionsSigningConfig { security_parameter: BlockNumberOffset(0), step: BlockNumber(sut::CTX_STEP) };
        self.world
            .cfg
            .discriminants()
            .into_iter()
            .filter_map(|d| match d {
                SignedEntityTypeDiscriminants::MithrilStakeDistribution => Some(SignedEntityType::MithrilStakeDistribution(tp.epoch)),
                SignedEntityTypeDiscriminants::CardanoStakeDistribution => {
                    tp.epoch.previous().ok().map(SignedEntityType::CardanoStakeDistribution)
                }
                SignedEntityTypeDiscriminants::CardanoTransactions => Some(SignedEntityType::CardanoTransactions(
                    tp.epoch,
                    ctx.compute_block_number_to_be_signed(tp.chain_point.block_number),
                )),
                SignedEntityTypeDiscriminants::CardanoDatabase => {
                    Some(SignedEntityType::CardanoDatabase(CardanoDbBeacon::new(*tp.epoch, tp.immutable_file_number)))
                }
                _ => None,
            })
            .collect()
    }

    /// Insert a genesis certificate for the chain's current epoch whose AVK is the one the *model* derives for
    /// the signers registered under that epoch (what `genesis bootstrap` computes from the verification key store).
    async fn insert_genesis(&mut self) -> bool {
        let epoch = self.world.time_point().await.epoch;
        let members = self.model.store.get(&epoch.0).cloned().unwrap_or_default();
        let Some(ks) = self.model.keyset(&members) else {
            return false;
        };
        let params = self.model.params.clone();
        let producer = CertificateGenesisProducer::new();
        let era = SupportedEra::Pythagoras;
        let Ok(msg) = producer.create_genesis_protocol_message(&params, &ks.avk, &epoch, era) else {
            return false;
        };
        use rand_core::SeedableRng;
        let Ok(signature) = self.genesis_signer.sign(&msg, era, &mut rand_chacha::ChaCha20Rng::from_seed([0u8; 32])) else {
            return false;
        };
        let cert = match signature {
            CertificateSignature::GenesisSignature(s) => {
                producer.create_legacy_genesis_certificate(params, self.world.network.clone(), epoch, ks.avk.clone(), s, era)
            }
            _ => return false,
        };
        let Ok(cert) = cert else { return false };
        self.node().certificate_repository.create_certificate(cert).await.is_ok()
    }

    // -------------------------------------------------------------------------------------------- executor

    pub async fn apply(&mut self, op: &Op) {
        self.op_index += 1;
        match op {
            Op::Tick(n) => {
                for _ in 0..*n {
                    let must = if self.opts.expect_certificate_on_honest_quorum { self.must_certify_next().await } else { None };
                    let r = self.node.as_mut().expect("node").tick().await;
                    if let Some(t) = must {
                        let certified = matches!(self.node().open_message(&t).await, Ok(Some(om)) if om.is_certified);
                        if !certified {
                            let err = r.clone().err().unwrap_or_default();
                            let key = if self.obs.mislabelled_stored.contains(&tkey(&t)) { "mislabelled-signature-stored:quorum-blocked" } else { "honest-quorum-not-certified" };
                            if self.violate(
                                key,
                                format!("{t:?}: the signatures honest parties got stored reach the quorum on their own, but the cycle did not certify: {}", err.chars().take(300).collect::<String>()),
                            ) {
                                return;
                            }
                        }
                        self.label("honest-quorum-certified");
                    }
                    if let Err(e) = &r {
                        if let Some(msg) = e.strip_prefix("panic: ") {
                            // the buffer hands over what was accepted earlier: a submission under a name that is not
                            // registered is the same storage-layer panic as on direct submission, one step later
                            let key = if msg.contains("FOREIGN KEY") && self.obs.buffered_unregistered_name { "panic-on-submission:name-not-registered:buffered" } else { "panic-in-cycle" };
                            if self.violate(key, format!("the state machine cycle panics: {}", msg.chars().take(300).collect::<String>())) {
                                return;
                            }
                        }
                        let short = if e.contains("not enough signature") { "tick-err:not-enough-signatures" } else { "tick-err:other" };
                        self.label(short);
                        if std::env::var("VERIF_DEBUG").is_ok() && short.ends_with("other") {
                            eprintln!("TICK-ERR {}", e.chars().take(600).collect::<String>());
                        }
                    }
                    if !self.node().settle().await {
                        self.label("artifact-task-not-settled");
                    }
                    self.observe().await;
                    if self.violation.is_some() {
                        return;
                    }
                }
            }
            Op::EpochUp(n) => {
                self.world.epoch_up(*n as u64).await;
                if *n >= 2 {
                    self.obs.multi_epoch_jump = true;
                }
            }
            Op::ImmutableUp => {
                self.world.immutable_up().await;
            }
            Op::BlocksUp(n) => self.world.blocks_up(*n as u64).await,
            Op::BlocksDown(n) => {
                if self.world.blocks_down(*n as u64).await {
                    self.label("chain-rollback");
                }
            }
            Op::Register { mask, keygen, when } => self.do_register(*mask, *keygen, *when).await,
            Op::Sign(s) => self.do_sign(s).await,
            Op::Expire(i) => {
                let tp = self.world.time_point().await;
                let mut cands = vec![];
                for t in self.types_at(&tp) {
                    if let Ok(Some(om)) = self.node().open_message(&t).await {
                        if !om.is_certified {
                            cands.push(t);
                        }
                    }
                }
                if cands.is_empty() {
                    self.label("expire:no-open-message");
                } else {
                    let t = cands[vcore::pick_index(*i, cands.len())].clone();
                    if self.node().expire(&t).await.unwrap_or(false) {
                        self.label("expire:done");
                        self.obs.expired.insert(tkey(&t));
                    }
                }
            }
            Op::Restart => {
                self.restart().await;
                self.obs.restarts += 1;
            }
            Op::ReGenesis { force } => {
                if !*force && self.node().state() != "blocked-epoch-gap" {
                    self.label("regenesis:not-needed");
                    self.observe().await;
                    return;
                }
                if let Some(n) = self.node.take() {
                    n.stop().await;
                }
                self.node = Some(self.world.start().await.expect("aggregator restarts"));
                if self.insert_genesis().await {
                    self.obs.regenesis += 1;
                    self.label("regenesis:done");
                } else {
                    self.label("regenesis:impossible-no-signers");
                }
                // the operator restarts the node after the bootstrap
                self.restart().await;
            }
        }
        self.observe().await;
        if std::env::var("VERIF_TRACE").is_ok() {
            let tp = self.world.time_point().await;
            eprintln!(
                "TRACE #{} {:?} -> state={} chain=(e{},i{},b{}) certs={} labels={:?}",
                self.op_index,
                op,
                self.node().state(),
                tp.epoch,
                tp.immutable_file_number,
                tp.chain_point.block_number,
                self.obs.certs.len(),
                self.trace_labels.drain(..).collect::<Vec<_>>()
            );
        }
    }

    pub async fn restart(&mut self) {
        if let Some(n) = self.node.take() {
            n.stop().await;
        }
        self.node = Some(self.world.start().await.expect("aggregator restarts"));
    }

    async fn do_register(&mut self, mask: u16, keygen: u8, when: RegEpoch) {
        let chain_epoch = self.world.time_point().await.epoch.0;
        let r = match when {
            RegEpoch::Current => chain_epoch + 1,
            RegEpoch::Stale => chain_epoch,
            RegEpoch::Ahead => chain_epoch + 2,
        };
        let n = self.model.n();
        let full = (1u16 << n) - 1;
        let mut accepted = 0;
        for p in 0..n {
            if mask & (1 << p) == 0 {
                continue;
            }
            let signer: mithril_common::entities::Signer = self.model.signer_with_stake(p, keygen).into();
            let res = self.node().deps.signer_registerer.register_signer(Epoch(r), &signer).await;
            use mithril_aggregator::SignerRegistrationError as E;
            match res {
                Ok(_) | Err(E::ExistingSigner(_)) => {
                    // both answers mean "this key is now stored for recording epoch r" (insert-or-replace)
                    self.model.record_registration(r, p, keygen);
                    accepted += 1;
                }
                Err(E::RegistrationRoundNotYetOpened) => self.label("register:round-not-open"),
                Err(E::RegistrationRoundUnexpectedEpoch { .. }) => self.label("register:unexpected-epoch"),
                Err(e) => {
                    let s = format!("{e:?}");
                    self.label(format!("register:refused:{}", s.chars().take(40).collect::<String>()));
                }
            }
        }
        if accepted > 0 {
            self.label(format!("register:accepted:{when:?}"));
            if keygen > 0 {
                self.label("register:rotated-key");
            }
            let now = self.model.store.get(&r).map(|m| m.len()).unwrap_or(0);
            if mask & full != full && now < n {
                self.obs.partial_registration = true;
            }
        }
    }

    fn label_string(&self, by: PartyIdx, label: Label) -> (String, Option<PartyIdx>) {
        let n = self.model.n();
        match label {
            Label::Own => (self.model.parties[by].party_id.clone(), Some(by)),
            Label::Other(j) => {
                let others: Vec<PartyIdx> = (0..n).filter(|q| *q != by).collect();
                if others.is_empty() {
                    (self.model.parties[by].party_id.clone(), Some(by))
                } else {
                    let q = others[vcore::pick_index(j, others.len())];
                    (self.model.parties[q].party_id.clone(), Some(q))
                }
            }
            Label::Unregistered => ("pool1harnessunregisteredpartyxxxxxxxxxxxxxxxxxxxxxxxxxxxxxx".to_string(), None),
        }
    }

    async fn do_sign(&mut self, s: &SignOp) {
        let tp = self.world.time_point().await;
        let current = self.types_at(&tp);
        // --- which entity
        let mut open_now: BTreeMap<String, (bool, ProtocolMessage)> = BTreeMap::new();
        for t in &current {
            if let Ok(Some(om)) = self.node().open_message(t).await {
                open_now.insert(tkey(t), (om.is_certified || om.is_expired, om.protocol_message.clone()));
            }
        }
        let (t, class): (SignedEntityType, &str) = match s.target {
            Target::Current(i) => {
                let mut c: Vec<_> = current.iter().filter(|t| open_now.get(&tkey(t)).is_some_and(|(done, _)| !done)).cloned().collect();
                if c.is_empty() {
                    c = current.clone();
                }
                (c[vcore::pick_index(i, c.len())].clone(), "current")
            }
            Target::Old(i) => {
                let cur: BTreeSet<String> = current.iter().map(tkey).collect();
                let c: Vec<_> = self.obs.open_seen.values().filter(|o| !cur.contains(&tkey(&o.t))).map(|o| o.t.clone()).collect();
                if c.is_empty() {
                    (current[vcore::pick_index(i, current.len())].clone(), "current")
                } else {
                    (c[vcore::pick_index(i, c.len())].clone(), "old")
                }
            }
            Target::NotYetOpen(i) => {
                let c: Vec<_> = current.iter().filter(|t| !open_now.contains_key(&tkey(t))).cloned().collect();
                if c.is_empty() {
                    (SignedEntityType::MithrilStakeDistribution(tp.epoch.next()), "future")
                } else {
                    (c[vcore::pick_index(i, c.len())].clone(), "not-yet-open")
                }
            }
            Target::Unknown => (SignedEntityType::MithrilStakeDistribution(tp.epoch + 9), "unknown"),
        };
        // --- which message the signers believe they have to sign
        let message: String = if let Some((_, m)) = open_now.get(&tkey(&t)) {
            m.compute_hash()
        } else if let Some(o) = self.obs.open_seen.get(&tkey(&t)) {
            o.message.compute_hash()
        } else {
            match self.node().deps.signable_builder_service.compute_protocol_message(t.clone()).await {
                Ok(m) => m.compute_hash(),
                Err(_) => format!("{:064x}", vcore::mix(7, self.op_index as u64)),
            }
        };
        // --- which key set
        let es = t.get_epoch_when_signed_entity_type_is_signed().0;
        let ks_epoch = match s.flavour {
            Flavour::NextEpochKey => es + 1,
            Flavour::PrevEpochKey => es.saturating_sub(1),
            _ => es,
        };
        let Some(ks) = self.model.keyset_for_signing_epoch(ks_epoch) else {
            self.label(format!("sign:{class}:no-keyset"));
            return;
        };
        let signed_text = if s.flavour == Flavour::WrongMessage { format!("{:064x}", vcore::mix(11, self.op_index as u64)) } else { message.clone() };
        if class != "current" {
            self.obs.non_current_signature = true;
        }
        let n = self.model.n();
        for by in 0..n {
            if s.mask & (1 << by) == 0 {
                continue;
            }
            if self.opts.sign_once
                && self.obs.subs.get(&tkey(&t)).is_some_and(|v| v.iter().any(|r| r.by == by && r.signed_text == signed_text && matches!(r.outcome, Submitted::Registered | Submitted::Buffered)))
            {
                self.label("sign:already-acknowledged");
                continue;
            }
            let producer = match s.source {
                Source::Own => by,
                Source::CopyOf(j) => {
                    let others: Vec<PartyIdx> = ks.members.keys().copied().filter(|q| *q != by).collect();
                    if others.is_empty() { by } else { others[vcore::pick_index(j, others.len())] }
                }
            };
            let Some(mut sig) = self.model.sign(&ks, producer, &signed_text) else {
                self.label(if ks.members.contains_key(&producer) { "sign:lost-all-lotteries" } else { "sign:party-not-in-keyset" });
                continue;
            };
            let (label, label_party) = if s.inlet == Inlet::Dmq {
                // the DMQ network authenticates the sender: the party id cannot be chosen
                (self.model.parties[by].party_id.clone(), Some(by))
            } else {
                self.label_string(by, s.label)
            };
            sig.party_id = label.clone();
            match s.idx {
                IdxList::Matching => {}
                IdxList::Truncated => {
                    let keep = sig.won_indexes.len() / 2;
                    sig.won_indexes.truncate(keep);
                }
                IdxList::Restricted => {
                    let mut ps = sig.to_protocol_signature();
                    let idx = ps.get_concatenation_signature_indices();
                    let keep: Vec<u64> = idx[..(idx.len() / 2).max(1).min(idx.len())].to_vec();
                    ps.set_concatenation_signature_indices(&keep);
                    sig.signature = ps.into();
                    sig.won_indexes = keep;
                }
                IdxList::Extended => {
                    let extra = (0..self.model.params.m).find(|i| !sig.won_indexes.contains(i));
                    if let Some(x) = extra {
                        sig.won_indexes.push(x);
                    }
                }
            }
            let honest = label_party == Some(by)
                && producer == by
                && s.flavour == Flavour::Valid
                && (s.idx == IdxList::Matching || s.idx == IdxList::Restricted || s.inlet == Inlet::Dmq);
            let valid_for_producer = match (open_now.get(&tkey(&t)), self.model.keyset_for_signing_epoch(es)) {
                (Some((_, m)), Some(proper)) => Some(self.model.verifies_for_party(&proper, producer, &sig, &m.compute_hash())),
                _ => None,
            };
            let sub_class = format!(
                "{}/{}/{:?}/{class}",
                match (s.inlet, s.label) {
                    (Inlet::Dmq, _) | (_, Label::Own) => "own-label",
                    (_, Label::Other(_)) => "other-label",
                    (_, Label::Unregistered) => "unregistered-label",
                },
                if producer == by { "own-signature" } else { "copied-signature" },
                s.inlet
            );
            let times = if s.flavour == Flavour::Duplicate { 2 } else { 1 };
            for _ in 0..times {
                let outcome = match s.inlet {
                    Inlet::Http => self.node().submit_http(&t, &sig, &signed_text).await,
                    Inlet::Dmq => {
                        // the DMQ consumer rebuilds the index list from the signature itself
                        let mut dsig = sig.clone();
                        dsig.won_indexes = dsig.to_protocol_signature().get_concatenation_signature_indices();
                        match self.node().submit_dmq(vec![(dsig, t.clone())]).await {
                            Ok(()) => Submitted::Registered,
                            Err(e) => Submitted::Refused(e.chars().take(200).collect()),
                        }
                    }
                };
                // is there now a row (label, this very signature)?
                let mut stored = false;
                if let Ok(Some(om)) = self.node().open_message(&t).await {
                    stored = om.single_signatures.iter().any(|r| r.party_id == label && r.signature == sig.signature);
                }
                let oc: String = match &outcome {
                    Submitted::Registered => if stored { "stored".into() } else { "accepted-no-row".into() },
                    Submitted::Buffered => "buffered".into(),
                    Submitted::Refused(r) => {
                        if r.starts_with("http ") { r.chars().take(8).collect::<String>().replace(' ', "-") } else { "refused".into() }
                    }
                };
                if outcome == Submitted::Buffered || (s.inlet == Inlet::Dmq && outcome == Submitted::Registered && !stored) {
                    self.obs.buffered += 1;
                    if !label_party.is_some_and(|p| self.model.members_for_signing_epoch(es).contains_key(&p)) {
                        self.obs.buffered_unregistered_name = true;
                    }
                }
                self.label(format!("sign:{class}:{:?}:{:?}:{oc}", s.flavour, s.inlet));
                if stored && label_party != Some(producer) {
                    self.obs.mislabelled_accepted += 1;
                    self.obs.mislabelled_stored.insert(tkey(&t));
                }
                if let Submitted::Refused(why) = &outcome {
                    if let Some(msg) = why.strip_prefix("panic: ") {
                        // a submission a peer can make must never crash the aggregator's request handler / queue processor
                        let registered = label_party.is_some_and(|p| self.model.members_for_signing_epoch(es).contains_key(&p));
                        let key = if registered { "panic-on-submission" } else { "panic-on-submission:name-not-registered" };
                        let what = format!("{t:?}: submission ({sub_class}, name {label}) through {:?} panics inside the aggregator: {msg}", s.inlet);
                        if self.violate(key, what) {
                            return;
                        }
                    }
                }
                self.obs.subs.entry(tkey(&t)).or_default().push(SubRec {
                    op_index: self.op_index,
                    label: label.clone(),
                    by,
                    producer,
                    sig: sig.clone(),
                    signed_text: signed_text.clone(),
                    honest,
                    stored,
                    outcome,
                    valid_for_producer,
                    class: sub_class.clone(),
                });
            }
        }
    }

    // -------------------------------------------------------------------------------------------- observation

    /// Look at the database through the aggregator's public services and check the invariants.
    pub async fn observe(&mut self) {
        let state = self.node().state().to_string();
        self.obs.states.insert(state);
        // open messages of the current time point
        let tp = self.world.time_point().await;
        for t in self.types_at(&tp) {
            if let Ok(Some(om)) = self.node().open_message(&t).await {
                let k = tkey(&t);
                match self.obs.open_seen.get(&k) {
                    None => {
                        self.obs.open_seen.insert(k, SeenOpen { t: t.clone(), message: om.protocol_message.clone(), epoch: om.epoch.0 });
                    }
                    Some(prev) => {
                        if prev.message != om.protocol_message {
                            // the message of an entity is fixed while it is open (signers sign what was announced)
                            self.label("open-message-content-changed");
                            self.obs.open_seen.insert(k, SeenOpen { t: t.clone(), message: om.protocol_message.clone(), epoch: om.epoch.0 });
                        }
                    }
                }
            }
        }
        if self.opts.rows {
            self.check_rows().await;
        }
        if !self.opts.certificates && !self.opts.rows {
            // C15 looks at the store itself at chosen moments (decoding every stored certificate after every
            // operation is the dominant cost of a long history)
            return;
        }
        let certs = match self.node().certificates().await {
            Ok(c) => c,
            Err(e) => {
                self.violate("certificate-listing-fails", format!("{e:?}"));
                return;
            }
        };
        let known: BTreeSet<String> = self.obs.certs.iter().map(|c| c.hash.clone()).collect();
        let stored: BTreeMap<String, Certificate> = certs.iter().map(|c| (c.hash.clone(), c.clone())).collect();
        // a certificate the harness saw earlier is gone or has another content: what is stored now must still verify
        // (the statement speaks about every stored certificate, so re-verify all of them with a fresh verifier)
        let mut disturbed = false;
        for c in self.obs.certs.iter() {
            match stored.get(&c.hash) {
                None => disturbed = true,
                Some(now) if now != c => disturbed = true,
                _ => {}
            }
        }
        if disturbed {
            self.label("stored-certificate-vanished-or-changed");
            if self.opts.certificates {
                let genesis_verifier = Arc::new(self.genesis_signer.create_verifier());
                let verifier = MithrilCertificateVerifier::new(self.world.logger.clone(), Arc::new(MapRetriever(stored.clone())), genesis_verifier);
                for c in certs.iter() {
                    if let Err(e) = verifier.verify_certificate_chain(c.clone()).await {
                        let what = format!("certificate {} (epoch {}) no longer verifies after stored certificates vanished or changed: {e:?}", c.hash, c.epoch);
                        if self.violate("I1-chain-does-not-verify", what.chars().take(600).collect()) {
                            return;
                        }
                    }
                }
            }
            self.obs.certs.retain(|c| stored.get(&c.hash) == Some(c));
        }
        let new: Vec<Certificate> = certs.iter().filter(|c| !known.contains(&c.hash)).cloned().collect();
        if new.is_empty() {
            return;
        }
        if new.iter().filter(|c| !c.is_genesis()).count() > 1 {
            // one cycle creates at most one certificate and the harness looks after every cycle
            self.label("several-certificates-in-one-step");
        }
        for c in new {
            if self.opts.certificates {
                self.check_new_certificate(&c, &stored).await;
            }
            self.obs.certs.push(c);
            if self.violation.is_some() {
                return;
            }
        }
    }

    /// (party ids, distinct lottery indices) of the valid signatures submitted for `t`. A submission counts for
    /// the party it was submitted as (C14) or, with `signers_by_true_key` (C16), for the party whose key made it.
    fn valid_submissions(&mut self, t: &SignedEntityType, ks: &Arc<KeySet>, message: &str) -> (BTreeSet<String>, BTreeSet<u64>) {
        let mut parties = BTreeSet::new();
        let mut indices = BTreeSet::new();
        // every submission counts, whatever entity it was submitted for: the buffer is keyed by the entity TYPE, so a
        // signature sent early under another beacon of the type is handed over to the open message it is valid for
        // (what makes a submission count is that it is this party's valid signature of this very message)
        let _ = t;
        let subs: Vec<SubRec> = self.obs.subs.values().flatten().cloned().collect();
        for s in subs {
            let who = if self.opts.signers_by_true_key {
                self.model.true_signer(ks, &s.sig, message)
            } else {
                self.model.party_index(&s.label).filter(|p| self.model.verifies_for_party(ks, *p, &s.sig, message))
            };
            if let Some(p) = who {
                parties.insert(self.model.parties[p].party_id.clone());
                indices.extend(s.sig.to_protocol_signature().get_concatenation_signature_indices());
            }
        }
        (parties, indices)
    }

    /// C16 liveness side of "copies do not worsen the outcome": which entity must the next cycle certify?
    async fn must_certify_next(&mut self) -> Option<SignedEntityType> {
        if self.node().state() != "signing" {
            return None;
        }
        // in the AGGREGATOR's own processing order (asked from the node): after a restart two open messages of the
        // current time point can be uncertified, and a machine coming from READY takes the first of them in that order
        // (a harness-side order once demanded a certificate for the other one: false alarm, corrected)
        for t in self.node().current_entity_types().await {
            let Ok(Some(om)) = self.node().open_message(&t).await else { return None };
            if om.is_certified {
                continue;
            }
            if om.is_expired || om.expires_at.is_some_and(|d| d < chrono::Utc::now() + chrono::Duration::minutes(5)) {
                return None;
            }
            // this is the message the state machine is signing (first uncertified in its processing order)
            let subs = self.obs.subs.get(&tkey(&t)).cloned().unwrap_or_default();
            // the store keeps ONE row per party (insert or replace): what a party has in the store is what it got
            // stored LAST (`stored` is observed right after each submission, so submission order is storage order);
            // a party that narrows its own contribution afterwards is not "another party's contribution
            // disappearing" and the narrower signature is what counts towards the quorum
            let mut last: BTreeMap<String, (bool, BTreeSet<u64>)> = BTreeMap::new();
            for s in subs.iter().filter(|s| s.stored) {
                last.insert(s.label.clone(), (s.honest, s.sig.to_protocol_signature().get_concatenation_signature_indices().into_iter().collect()));
            }
            let mut indices = BTreeSet::new();
            for (_, idx) in last.values().filter(|(honest, _)| *honest) {
                indices.extend(idx.iter().copied());
            }
            return if indices.len() as u64 >= self.model.params.k { Some(t) } else { None };
        }
        None
    }

    async fn check_new_certificate(&mut self, c: &Certificate, stored: &BTreeMap<String, Certificate>) {
        let id = format!("certificate {} ({:?}, epoch {})", &c.hash[..12.min(c.hash.len())], if c.is_genesis() { "genesis".to_string() } else { tkey(&c.signed_entity_type()) }, c.epoch);

        // ---- I1: the chain verifies with a fresh verifier reading only what is stored
        let genesis_verifier = Arc::new(self.genesis_signer.create_verifier());
        let verifier = MithrilCertificateVerifier::new(self.world.logger.clone(), Arc::new(MapRetriever(stored.clone())), genesis_verifier);
        if let Err(e) = verifier.verify_certificate_chain(c.clone()).await {
            if self.violate("I1-chain-does-not-verify", format!("{id}: mithril_common verifier: {e:?}")) {
                return;
            }
        }
        if self.opts.client_verifier {
            // the public client view: every certificate as served by GET /aggregator/certificate/{hash}
            let mut view = BTreeMap::new();
            for h in stored.keys() {
                let resp = warp::test::request().method("GET").path(&format!("/aggregator/certificate/{h}")).reply(&self.node().routes).await;
                if resp.status().as_u16() == 200 {
                    if let Ok(m) = serde_json::from_slice::<CertificateMessage>(resp.body()) {
                        view.insert(h.clone(), m);
                    }
                }
            }
            let Some(me) = view.get(&c.hash).cloned() else {
                self.violate("I1-certificate-not-served", format!("{id}: stored but not served over HTTP"));
                return;
            };
            let cv = mithril_client::certificate_client::MithrilCertificateVerifier::new(
                Arc::new(MapRequester(view)),
                &self.world.configuration.genesis_verification_key,
                mithril_client::feedback::FeedbackSender::new(&[]),
                None,
                self.world.logger.clone(),
            );
            match cv {
                Ok(cv) => {
                    use mithril_client::certificate_client::CertificateVerifier as _;
                    if let Err(e) = cv.verify_chain(&me).await {
                        if self.violate("I1-client-verifier-rejects", format!("{id}: mithril-client verifier: {e:?}")) {
                            return;
                        }
                    }
                }
                Err(e) => {
                    if self.violate("I1-client-verifier-rejects", format!("{id}: cannot build client verifier: {e:?}")) {
                        return;
                    }
                }
            }
        }

        // ---- I3 / I5: the parent link, from the harness' own record of the insertion order
        let mut first_of_epoch: BTreeMap<u64, String> = BTreeMap::new();
        for prev in &self.obs.certs {
            if prev.is_genesis() {
                first_of_epoch.clear();
                first_of_epoch.insert(prev.epoch.0, prev.hash.clone());
            } else {
                first_of_epoch.entry(prev.epoch.0).or_insert(prev.hash.clone());
            }
        }
        if c.is_genesis() {
            return;
        }
        let e = c.epoch.0;
        let expected_parent = match first_of_epoch.get(&e) {
            Some(h) => Some(h.clone()),
            None => first_of_epoch.get(&e.wrapping_sub(1)).cloned(),
        };
        match expected_parent {
            None => {
                if self.violate(
                    "I5-certificate-after-skipped-epoch",
                    format!("{id}: neither epoch {e} nor epoch {} has a certificate in the current chain (since the last genesis): the chain has a gap", e.wrapping_sub(1)),
                ) {
                    return;
                }
            }
            Some(h) if h != c.previous_hash => {
                let exp = stored.get(&h).map(|p| format!("{} (epoch {})", &h[..12], p.epoch)).unwrap_or(h.clone());
                let got = stored.get(&c.previous_hash).map(|p| format!("{} (epoch {})", &c.previous_hash[..12.min(c.previous_hash.len())], p.epoch)).unwrap_or(c.previous_hash.clone());
                if self.violate("I3-wrong-parent", format!("{id}: parent is {got}, expected the first certificate of its epoch / of the previous epoch: {exp}")) {
                    return;
                }
            }
            _ => {}
        }

        // ---- I4: no signed entity certified twice
        let t = c.signed_entity_type();
        if self.obs.certs.iter().any(|p| !p.is_genesis() && p.signed_entity_type() == t) {
            if self.violate("I4-entity-certified-twice", format!("{id}: a certificate for {t:?} already exists")) {
                return;
            }
        }

        // ---- I6 (documented behaviour of expiration, not part of the statement's wording): an open message whose
        // deadline passed before it was certified is abandoned, never sealed later
        if self.obs.expired.contains(&tkey(&t)) {
            if self.violate("I6-expired-message-certified", format!("{id}: sealed although its open message had expired uncertified")) {
                return;
            }
        }

        // ---- I2: key, parameters, message, signers
        let Some(ks) = self.model.keyset_for_signing_epoch(e) else {
            self.violate("I2-no-registered-signers", format!("{id}: the harness knows no signer registered for epoch {e}"));
            return;
        };
        let cert_avk = avk_hex(&c.create_aggregate_verification_key());
        if cert_avk != avk_hex(&ks.avk) {
            let members: Vec<_> = ks.members.iter().collect();
            if self.violate("I2-wrong-aggregate-key", format!("{id}: aggregate verification key differs from the one derived from the registrations for epoch {e} (recorded under {}: {members:?})", e - 1)) {
                return;
            }
        }
        if c.metadata.protocol_parameters != self.model.params {
            if self.violate("I2-wrong-parameters", format!("{id}: parameters {:?}, in force {:?}", c.metadata.protocol_parameters, self.model.params)) {
                return;
            }
        }
        if c.signed_message != c.protocol_message.compute_hash() {
            if self.violate("I2-signed-message-mismatch", format!("{id}: signed_message is not the hash of the protocol message")) {
                return;
            }
        }
        if c.protocol_message.get_message_part(&ProtocolMessagePartKey::CurrentEpoch).map(|s| s.as_str()) != Some(e.to_string().as_str()) {
            if self.violate("I2-epoch-part-mismatch", format!("{id}: protocol message epoch part {:?}", c.protocol_message.get_message_part(&ProtocolMessagePartKey::CurrentEpoch))) {
                return;
            }
        }
        let next_members = self.model.store.get(&e).cloned().unwrap_or_default();
        match self.model.keyset(&next_members) {
            Some(next) => {
                let expected: String = avk_hex(&next.avk);
                if c.protocol_message.get_message_part(&ProtocolMessagePartKey::NextAggregateVerificationKey) != Some(&expected) {
                    if self.violate("I2-wrong-next-aggregate-key", format!("{id}: announced next aggregate key is not the one of the signers registered under epoch {e}: {next_members:?}")) {
                        return;
                    }
                }
            }
            None => {
                if self.violate("I2-wrong-next-aggregate-key", format!("{id}: certificate issued although nobody is registered for the next epoch")) {
                    return;
                }
            }
        }
        let CertificateSignature::MultiSignature(_, ms) = &c.signature else { return };
        let ok = vcore::catch(|| {
            ms.verify(
                c.signed_message.as_bytes(),
                &ks.avk,
                &self.model.params.clone().into(),
                c.ancillary_verifier_data.clone().map(|d| d.into_inner()),
                None,
            )
            .is_ok()
        })
        .unwrap_or(false);
        if !ok {
            if self.violate("I2-multi-signature-invalid", format!("{id}: multi-signature does not verify for its signed message under the derived key")) {
                return;
            }
        }
        // sealed for an open message the harness saw, with that content
        match self.obs.open_seen.get(&tkey(&t)) {
            Some(o) if o.message == c.protocol_message => {}
            Some(_) => {
                if self.violate("I2-message-not-the-open-message", format!("{id}: protocol message differs from the open message that was announced")) {
                    return;
                }
            }
            None => {
                if self.violate("I2-no-open-message", format!("{id}: no open message was ever visible for {t:?}")) {
                    return;
                }
            }
        }
        let (valid_parties, indices) = self.valid_submissions(&t, &ks, &c.signed_message);
        for sp in &c.metadata.signers {
            if !valid_parties.contains(&sp.party_id) {
                let key = if self.obs.mislabelled_stored.contains(&tkey(&t)) { "mislabelled-signature-stored:listed-in-certificate" } else { "I2-signer-listed-without-valid-signature" };
                if self.violate(
                    key,
                    format!("{id}: metadata lists {} but no signature valid for that party's registered key was submitted for this message (valid submitters: {valid_parties:?})", sp.party_id),
                ) {
                    return;
                }
            }
            let stake_ok = self.model.party_index(&sp.party_id).map(|p| self.model.parties[p].stake) == Some(sp.stake);
            if !stake_ok {
                if self.violate("I2-signer-stake", format!("{id}: metadata stake of {} is {}", sp.party_id, sp.stake)) {
                    return;
                }
            }
        }
        if (indices.len() as u64) < self.model.params.k {
            self.violate(
                "I2-sealed-below-quorum",
                format!("{id}: valid signatures submitted for this message win only {} distinct lotteries, quorum is {}", indices.len(), self.model.params.k),
            );
        }
    }

    /// C16: every stored single-signature row is the labelled party's own valid signature.
    /// Keys: `mislabelled-signature-stored` = a row holds a signature that is valid, but for another party's key
    /// (the class the design notes predicted, F13); its consequences carry that key as a prefix
    /// (`:two-names`, `:honest-row-replaced`, `:listed-in-certificate`, `:quorum-blocked`), anything else gets its own key.
    async fn check_rows(&mut self) {
        let tp = self.world.time_point().await;
        let mut ts: Vec<SignedEntityType> = self.types_at(&tp);
        for o in self.obs.open_seen.values() {
            if !ts.contains(&o.t) {
                ts.push(o.t.clone());
            }
        }
        for t in ts {
            let Ok(Some(om)) = self.node().open_message(&t).await else { continue };
            let message = om.protocol_message.compute_hash();
            let ks = self.model.keyset_for_signing_epoch(om.epoch.0);
            let mut seen_sigs: BTreeMap<String, String> = BTreeMap::new();
            for row in &om.single_signatures {
                let sig_hex = row.signature.to_json_hex().unwrap_or_default();
                if let Some(other) = seen_sigs.get(&sig_hex) {
                    if other != &row.party_id {
                        self.obs.mislabelled_stored.insert(tkey(&t));
                        let what = format!("{t:?}: one signature is stored under {other} and under {}", row.party_id);
                        if self.violate("mislabelled-signature-stored:two-names", what) {
                            return;
                        }
                    }
                }
                seen_sigs.insert(sig_hex, row.party_id.clone());
                let p = self.model.party_index(&row.party_id);
                let ok = match (&ks, p) {
                    (Some(ks), Some(p)) => self.model.verifies_for_party(ks, p, row, &message),
                    _ => false,
                };
                if !ok {
                    let truth = ks.as_ref().and_then(|ks| self.model.true_signer(ks, row, &message)).map(|q| self.model.parties[q].party_id.clone());
                    let fatal = match &truth {
                        Some(q) => {
                            self.obs.mislabelled_stored.insert(tkey(&t));
                            self.violate(
                                "mislabelled-signature-stored",
                                format!("{t:?}: the row of {} holds a signature that does not verify against the key that party registered for epoch {}; it is the signature of {q}", row.party_id, om.epoch),
                            )
                        }
                        None => self.violate(
                            "invalid-signature-stored",
                            format!("{t:?}: the row of {} holds a signature that verifies for nobody registered for epoch {}", row.party_id, om.epoch),
                        ),
                    };
                    if fatal {
                        return;
                    }
                }
            }
            // honest contributions stay
            let subs = self.obs.subs.get(&tkey(&t)).cloned().unwrap_or_default();
            for s in subs.iter().filter(|s| s.honest && s.stored) {
                let row = om.single_signatures.iter().find(|r| r.party_id == s.label);
                let fine = match (row, &ks) {
                    (Some(r), Some(ks)) => self.model.verifies_for_party(ks, s.by, r, &message),
                    _ => false,
                };
                if !fine {
                    let replaced = match (row, &ks) {
                        (Some(r), Some(ks)) => self.model.true_signer(ks, r, &message).is_some(),
                        _ => false,
                    };
                    let key = if replaced { "mislabelled-signature-stored:honest-row-replaced" } else { "honest-contribution-lost" };
                    let what = format!(
                        "{t:?}: {} submitted its own valid signature (op #{}) and it was stored; now its row {}",
                        s.label,
                        s.op_index,
                        if replaced { "holds another party's signature" } else if row.is_some() { "holds an invalid signature" } else { "is gone" }
                    );
                    if self.violate(key, what) {
                        return;
                    }
                }
            }
            // honest contributions that went through the buffer (sent before the open message existed) must be rows
            // now that it exists - unless the party itself buffered something newer for the same entity type (the
            // buffer keeps one signature per party and entity type)
            if om.is_certified || om.is_expired {
                continue;
            }
            let Some(ks) = &ks else { continue };
            let was_buffered = |s: &SubRec| matches!(s.outcome, Submitted::Buffered) || (s.class.contains("/Dmq/") && s.outcome == Submitted::Registered && !s.stored);
            // every submission made for an entity of the same TYPE (the buffer's key), whatever the beacon
            let type_name = |k: &str| k.split('(').next().unwrap_or("").to_string();
            let this_type = type_name(&tkey(&t));
            let same_type: Vec<SubRec> = self.obs.subs.iter().filter(|(k, _)| type_name(k) == this_type).flat_map(|(_, v)| v.iter().cloned()).collect();
            for s in subs.iter().filter(|s| s.honest && was_buffered(s) && s.signed_text == message) {
                if !self.model.verifies_for_party(ks, s.by, &s.sig, &message) {
                    continue;
                }
                let later_same_slot: Vec<&SubRec> = same_type.iter().filter(|r| r.label == s.label && r.op_index > s.op_index && was_buffered(r)).collect();
                if later_same_slot.iter().any(|r| r.by == s.by) {
                    // superseded by the party's own newer buffered signature
                    continue;
                }
                let row = om.single_signatures.iter().find(|r| r.party_id == s.label);
                let fine = row.is_some_and(|r| self.model.verifies_for_party(ks, s.by, r, &message));
                if !fine {
                    let displaced = !later_same_slot.is_empty();
                    let key = if displaced { "honest-buffered-contribution-displaced" } else { "honest-buffered-contribution-lost" };
                    let what = format!(
                        "{t:?}: {} sent its own valid signature of this message before the open message existed (op #{}, acknowledged); the open message exists now and its row {}{}",
                        s.label,
                        s.op_index,
                        if row.is_some() { "holds something else" } else { "does not exist" },
                        if displaced { format!("; a later buffered submission under its name by party #{} took its place in the buffer", later_same_slot[0].by) } else { String::new() }
                    );
                    if self.violate(key, what) {
                        return;
                    }
                }
                self.label("honest-buffered-contribution-handed-over");
            }
        }
    }

    /// C15: the process dies where it stands — no shutdown code runs. The caller then calls
    /// `shutdown_background()` on the tokio runtime the node lived on (that kills its spawned tasks) and starts a
    /// new node with `run.node = Some(run.world.start().await?)` on a fresh runtime; `Run`, `World` and `Model`
    /// are not tied to a runtime.
    pub fn kill(&mut self) {
        drop(self.node.take());
    }

    pub async fn shutdown(mut self) {
        if let Some(n) = self.node.take() {
            n.stop().await;
        }
    }

    pub fn non_genesis_certificates(&self) -> usize {
        self.obs.certs.iter().filter(|c| !c.is_genesis()).count()
    }
}
