//! The system under test for C14 / C15 / C16: the real mithril aggregator, assembled by its own
//! `DependenciesBuilder` exactly as `/repo/mithril-aggregator/tests/test_extensions/runtime_tester.rs` does
//! (same injected test doubles: fake chain observer, dumb immutable observer / digester / block scanner, fake
//! snapshotter, dumb uploader, dummy era adapter), sqlite files on disk in a per-case scratch directory.
//!
//! Why not `RuntimeTester` itself: it throws its `DependenciesBuilder` away, and the HTTP router
//! (`DependenciesBuilder::create_http_routes`), the epoch service and the signature authenticator can only be
//! obtained from the builder that made the services (`ServeCommandDependenciesContainer` keeps them `pub(crate)`).
//! It also installs a process-global `slog_scope` logger whose guard, when dropped by one case, makes every
//! other concurrently running case panic. So this module mirrors `RuntimeTester::build` (~40 lines) but keeps
//! the builder; the repo's `AggregatorObserver` is still included by `#[path]`.
//!
//! Layout: [`World`] is what survives a process restart (directories, configuration, the simulated Cardano
//! node); [`Node`] is one aggregator process (services + state machine + HTTP router + DMQ processor).
//! `World::start()` boots a node on the world's stores; dropping the `Node` is a (clean) stop.

use std::path::PathBuf;
use std::sync::Arc;
use std::time::Duration;

use anyhow::{Context, anyhow};

use mithril_aggregator::{
    AggregatorRuntime, DumbUploader, MetricsService, ServeCommandConfiguration, ServeCommandDependenciesContainer,
    SingleSignatureAuthenticator,
    database::repository::{CertificateRepository, OpenMessageRepository, SignedEntityStorer},
    dependency_injection::{DependenciesBuilder, EpochServiceWrapper},
    entities::OpenMessage,
    services::{
        CertifierService, FakeSignatureConsumer, FakeSnapshotter, SequentialSignatureProcessor, SignatureProcessor,
    },
};
use mithril_cardano_node_chain::{
    entities::ScannedBlock,
    test::double::{DumbBlockScanner, FakeChainObserver},
};
use mithril_cardano_node_internal_database::test::double::{DumbImmutableDigester, DumbImmutableFileObserver};
use mithril_common::{
    StdResult,
    entities::{
        BlockNumber, BlockNumberOffset, CardanoTransactionsSigningConfig, Certificate, ChainPoint, Epoch,
        ProtocolParameters, SignedEntityType, SignedEntityTypeDiscriminants, SignerWithStake, SingleSignature,
        SlotNumber, SupportedEra, TimePoint,
    },
    messages::{RegisterSignatureMessageHttp, SignedEntityTypeMessage},
    test::double::Dummy,
};
use mithril_era::{EraMarker, EraReader, adapters::EraReaderDummyAdapter};

use crate::aggregator_observer::AggregatorObserver;

pub const START_EPOCH: u64 = 1;
pub const START_IMMUTABLE: u64 = 1;
pub const START_BLOCK: u64 = 100;
pub const START_SLOT: u64 = 10;
/// Cardano transactions signing configuration used by every case (same as tests/create_certificate.rs)
pub const CTX_STEP: u64 = 30;

/// Static part of a case: how the aggregator is configured.
#[derive(Clone, Debug, PartialEq, serde::Serialize, serde::Deserialize)]
pub struct SutConfig {
    /// protocol parameters (k, m, phi_f in percent)
    pub k: u64,
    pub m: u64,
    pub phi_pct: u8,
    /// number of fixture signers (stake holders known to the simulated chain)
    pub n_signers: u8,
    /// additional signed entity types besides MithrilStakeDistribution (always on)
    pub cardano_database: bool,
    pub cardano_transactions: bool,
    pub cardano_stake_distribution: bool,
    /// the last fixture party holds no stake (it registers like the others; it can never win a lottery)
    #[serde(default)]
    pub zero_stake_party: bool,
}

impl SutConfig {
    pub fn protocol_parameters(&self) -> ProtocolParameters {
        ProtocolParameters { k: self.k, m: self.m, phi_f: self.phi_pct as f64 / 100.0 }
    }
    pub fn discriminants(&self) -> Vec<SignedEntityTypeDiscriminants> {
        // BTreeSet order of the aggregator = declaration order of the enum
        let mut v = vec![SignedEntityTypeDiscriminants::MithrilStakeDistribution];
        if self.cardano_stake_distribution {
            v.push(SignedEntityTypeDiscriminants::CardanoStakeDistribution);
        }
        if self.cardano_transactions {
            v.push(SignedEntityTypeDiscriminants::CardanoTransactions);
        }
        if self.cardano_database {
            v.push(SignedEntityTypeDiscriminants::CardanoDatabase);
        }
        v
    }
}

fn quiet_logger() -> slog::Logger {
    // VERIF_AGG_LOG=1: log the aggregator's warnings/errors to stderr (debugging aid, never used by the checks)
    if std::env::var("VERIF_AGG_LOG").is_ok() {
        use slog::Drain;
        let decorator = slog_term::PlainSyncDecorator::new(std::io::stderr());
        let drain = slog_term::FullFormat::new(decorator).build().fuse();
        let level = match std::env::var("VERIF_AGG_LOG").as_deref() {
            Ok("debug") => slog::Level::Debug,
            Ok("info") => slog::Level::Info,
            _ => slog::Level::Warning,
        };
        let drain = slog::LevelFilter::new(drain, level).fuse();
        slog::Logger::root(drain, slog::o!())
    } else {
        slog::Logger::root(slog::Discard, slog::o!())
    }
}

/// Everything that survives an aggregator restart.
pub struct World {
    pub cfg: SutConfig,
    pub configuration: ServeCommandConfiguration,
    pub scratch: vcore::util::Scratch,
    pub network: String,
    pub chain_observer: Arc<FakeChainObserver>,
    pub immutable_file_observer: Arc<DumbImmutableFileObserver>,
    pub digester: Arc<DumbImmutableDigester>,
    pub block_scanner: Arc<DumbBlockScanner>,
    pub era_reader_adapter: Arc<EraReaderDummyAdapter>,
    pub snapshot_uploader: Arc<DumbUploader>,
    pub logger: slog::Logger,
}

impl World {
    pub async fn new(cfg: &SutConfig, tag: &str) -> World {
        let scratch = vcore::util::Scratch::new(tag);
        let stores: PathBuf = scratch.path().join("stores");
        let snapshots: PathBuf = scratch.path().join("snapshots");
        let signed_entity_types: Vec<String> = cfg
            .discriminants()
            .into_iter()
            .filter(|d| *d != SignedEntityTypeDiscriminants::MithrilStakeDistribution)
            .map(|d| d.to_string())
            .collect();
        let configuration = ServeCommandConfiguration {
            protocol_parameters: Some(cfg.protocol_parameters()),
            signed_entity_types: if signed_entity_types.is_empty() { None } else { Some(signed_entity_types.join(",")) },
            data_stores_directory: stores,
            cardano_transactions_signing_config: Some(CardanoTransactionsSigningConfig {
                security_parameter: BlockNumberOffset(0),
                step: BlockNumber(CTX_STEP),
            }),
            ..ServeCommandConfiguration::new_sample(snapshots)
        };
        let start = TimePoint {
            epoch: Epoch(START_EPOCH),
            immutable_file_number: START_IMMUTABLE,
            chain_point: ChainPoint {
                slot_number: SlotNumber(START_SLOT),
                block_number: BlockNumber(START_BLOCK),
                block_hash: format!("block_hash-{START_BLOCK}"),
            },
        };
        let immutable_file_observer = Arc::new(DumbImmutableFileObserver::new());
        immutable_file_observer.shall_return(Some(start.immutable_file_number)).await;
        let chain_observer = Arc::new(FakeChainObserver::new(Some(start)));
        let era_reader_adapter = Arc::new(EraReaderDummyAdapter::from_markers(vec![EraMarker::new(
            &SupportedEra::dummy().to_string(),
            Some(Epoch(0)),
        )]));
        World {
            cfg: cfg.clone(),
            network: configuration.network.clone(),
            configuration,
            scratch,
            chain_observer,
            immutable_file_observer,
            digester: Arc::new(DumbImmutableDigester::default()),
            block_scanner: Arc::new(DumbBlockScanner::new()),
            era_reader_adapter,
            snapshot_uploader: Arc::new(DumbUploader::default()),
            logger: quiet_logger(),
        }
    }

    /// Boot an aggregator process on this world's stores (first start or restart).
    pub async fn start(&self) -> StdResult<Node> {
        let configuration = self.configuration.clone();
        let snapshotter = Arc::new(FakeSnapshotter::new(
            mithril_aggregator::ConfigurationSource::get_snapshot_dir(&configuration)?.join("fake_snapshots"),
        ));
        let mut b = DependenciesBuilder::new(self.logger.clone(), Arc::new(configuration));
        b.snapshot_uploader = Some(self.snapshot_uploader.clone());
        b.chain_observer = Some(self.chain_observer.clone());
        b.immutable_file_observer = Some(self.immutable_file_observer.clone());
        b.immutable_digester = Some(self.digester.clone());
        b.snapshotter = Some(snapshotter);
        b.era_reader = Some(Arc::new(EraReader::new(self.era_reader_adapter.clone())));
        b.block_scanner = Some(self.block_scanner.clone());

        let deps = b.build_serve_dependencies_container().await.map_err(|e| anyhow!("build container: {e:?}"))?;
        let runtime = b.create_aggregator_runner().await.map_err(|e| anyhow!("build runner: {e:?}"))?;
        let observer = AggregatorObserver::new(&mut b).await;
        let routes = {
            use warp::Filter;
            b.create_http_routes()
                .await
                .map_err(|e| anyhow!("build routes: {e:?}"))?
                .map(|r| warp::Reply::into_response(r))
                .boxed()
        };
        let (stop_tx, stop_rx) = tokio::sync::watch::channel(());
        Ok(Node {
            open_message_repository: b.get_open_message_repository().await.map_err(|e| anyhow!("{e:?}"))?,
            certificate_repository: b.get_certificate_repository().await.map_err(|e| anyhow!("{e:?}"))?,
            epoch_service: b.get_epoch_service().await.map_err(|e| anyhow!("{e:?}"))?,
            authenticator: b.get_single_signature_authenticator().await.map_err(|e| anyhow!("{e:?}"))?,
            metrics_service: b.get_metrics_service().await.map_err(|e| anyhow!("{e:?}"))?,
            certifier_service: b.get_certifier_service().await.map_err(|e| anyhow!("{e:?}"))?,
            signed_entity_storer: b.get_signed_entity_storer().await.map_err(|e| anyhow!("{e:?}"))?,
            deps,
            runtime,
            observer,
            routes,
            builder: b,
            logger: self.logger.clone(),
            _stop_tx: stop_tx,
            stop_rx,
        })
    }

    // ----- the simulated Cardano node (inputs of the aggregator) -----

    pub async fn time_point(&self) -> TimePoint {
        let mut tp = self.chain_observer.current_time_point.read().await.clone().expect("time point");
        tp.immutable_file_number = self.immutable_file_observer.shall_return.read().await.unwrap_or(tp.immutable_file_number);
        tp
    }

    async fn refresh_digester(&self) {
        let tp = self.time_point().await;
        self.digester
            .update_digest(format!("n{}-e{}-i{}", self.network, tp.epoch, tp.immutable_file_number))
            .await;
        self.digester.update_merkle_tree(vec![tp.immutable_file_number.to_string()]).await;
    }

    pub async fn epoch_up(&self, n: u64) -> Epoch {
        let mut e = Epoch(0);
        for _ in 0..n {
            e = self.chain_observer.next_epoch().await.expect("epoch");
        }
        self.refresh_digester().await;
        e
    }

    pub async fn immutable_up(&self) -> u64 {
        let n = self.immutable_file_observer.increase().await.expect("immutable");
        self.refresh_digester().await;
        n
    }

    pub async fn blocks_up(&self, increment: u64) {
        let slot = self.chain_observer.increase_slot_number(increment).await.expect("slot");
        let block = self.chain_observer.increase_block_number(increment).await.expect("block");
        let blocks: Vec<ScannedBlock> = (1..=increment)
            .map(|i| {
                let b = block - increment + i;
                let s = slot - increment + i;
                ScannedBlock::new(format!("block_hash-{}", *b), b, s, vec![format!("tx_hash-{}-1", *b)])
            })
            .collect();
        self.block_scanner.add_forwards(vec![blocks]);
    }
}

impl World {
    /// the Cardano node rolls back `decrement` blocks (as `RuntimeTester::cardano_chain_send_rollback` does)
    pub async fn blocks_down(&self, decrement: u64) -> bool {
        let tp = self.time_point().await;
        let d = decrement.min((*tp.chain_point.block_number).saturating_sub(START_BLOCK)).min((*tp.chain_point.slot_number).saturating_sub(START_SLOT));
        if d == 0 {
            return false;
        }
        let (Some(slot), Some(block)) = (self.chain_observer.decrease_slot_number(d).await, self.chain_observer.decrease_block_number(d).await) else {
            return false;
        };
        self.block_scanner.add_backward(ChainPoint { slot_number: slot, block_number: block, block_hash: format!("block_hash-{}", *block) });
        true
    }
}

pub type Routes = warp::filters::BoxedFilter<(warp::reply::Response,)>;

/// One aggregator process.
pub struct Node {
    pub deps: ServeCommandDependenciesContainer,
    pub runtime: AggregatorRuntime,
    pub observer: AggregatorObserver,
    pub routes: Routes,
    pub open_message_repository: Arc<OpenMessageRepository>,
    pub certificate_repository: Arc<CertificateRepository>,
    pub certifier_service: Arc<dyn CertifierService>,
    pub signed_entity_storer: Arc<dyn SignedEntityStorer>,
    pub epoch_service: EpochServiceWrapper,
    pub authenticator: Arc<SingleSignatureAuthenticator>,
    pub metrics_service: Arc<MetricsService>,
    pub builder: DependenciesBuilder,
    pub logger: slog::Logger,
    _stop_tx: tokio::sync::watch::Sender<()>,
    stop_rx: tokio::sync::watch::Receiver<()>,
}

/// What an inlet answered to one signature submission.
#[derive(Clone, Debug, PartialEq, Eq)]
pub enum Submitted {
    /// HTTP 201 / processor ok and a row now exists
    Registered,
    /// HTTP 202 (buffered: no open message yet)
    Buffered,
    /// refused (status / error text)
    Refused(String),
}

impl Node {
    /// One tick of the state machine; `Err` = the cycle returned an error (state kept / re-init), which is normal
    /// operation ("not enough signatures yet", ...).
    pub async fn tick(&mut self) -> Result<(), String> {
        use futures::FutureExt;
        let r = match std::panic::AssertUnwindSafe(self.runtime.cycle()).catch_unwind().await {
            Ok(r) => r.map_err(|e| format!("{e:?}")),
            Err(p) => Err(format!("panic: {}", panic_text(p))),
        };
        tokio::task::yield_now().await;
        r
    }

    /// Wait until the artifact task spawned by the last tick (if any) has finished. C14/C16 keep the schedule of
    /// that background task out of the domain (C15 interrupts it on purpose).
    pub async fn settle(&self) -> bool {
        // fixed number of polls, not a deadline of the property: a run whose task has not settled after them (about a
        // minute on an idle machine, an overloaded one may need it) is never judged on artifacts, see c15.rs
        for i in 0..10_000u32 {
            if !self.deps.signed_entity_type_lock.has_locked_entities().await {
                return true;
            }
            if i < 50 {
                tokio::task::yield_now().await;
            } else if i < 4000 {
                tokio::time::sleep(Duration::from_millis(1)).await;
            } else {
                tokio::time::sleep(Duration::from_millis(10)).await;
            }
        }
        false
    }

    pub fn state(&self) -> &'static str {
        self.runtime.state_label()
    }

    /// all stored certificates, oldest first (read through the public repository API)
    pub async fn certificates(&self) -> StdResult<Vec<Certificate>> {
        let mut v: Vec<Certificate> = self.certificate_repository.get_latest_certificates(100_000).await?;
        v.reverse();
        Ok(v)
    }

    pub async fn open_message(&self, t: &SignedEntityType) -> StdResult<Option<OpenMessage>> {
        self.certifier_service.get_open_message(t).await
    }

    /// the signed entity types the aggregator derives from the *current* time point, in its own processing order
    pub async fn current_entity_types(&self) -> Vec<SignedEntityType> {
        let mut v = vec![];
        if let Ok(ds) = self.observer.list_signable_signed_entity_discriminants().await {
            for d in ds {
                if let Ok(t) = self.observer.build_current_signed_entity_type(d).await {
                    v.push(t);
                }
            }
        }
        v
    }

    /// Inlet 1: the real HTTP router, `POST /aggregator/register-signatures`.
    pub async fn submit_http(
        &self,
        t: &SignedEntityType,
        sig: &SingleSignature,
        signed_message: &str,
    ) -> Submitted {
        let msg = RegisterSignatureMessageHttp {
            signed_entity_type: SignedEntityTypeMessage::Known(t.clone()),
            party_id: sig.party_id.clone(),
            signature: match sig.signature.clone().try_into() {
                Ok(s) => s,
                Err(e) => return Submitted::Refused(format!("encode: {e:?}")),
            },
            won_indexes: sig.won_indexes.clone(),
            signed_message: signed_message.to_string(),
        };
        use futures::FutureExt;
        let fut = warp::test::request()
            .method("POST")
            .path("/aggregator/register-signatures")
            .json(&msg)
            .reply(&self.routes);
        let resp = match std::panic::AssertUnwindSafe(fut).catch_unwind().await {
            Ok(r) => r,
            Err(p) => return Submitted::Refused(format!("panic: {}", panic_text(p))),
        };
        match resp.status().as_u16() {
            201 => Submitted::Registered,
            202 => Submitted::Buffered,
            s => Submitted::Refused(format!("http {s} {}", String::from_utf8_lossy(resp.body()).chars().take(160).collect::<String>())),
        }
    }

    /// Inlet 2: the message-queue path: the real `SequentialSignatureProcessor` fed by a fake consumer with one
    /// batch. As on the real DMQ path the party id is the (network-authenticated) sender and every signature is
    /// marked authenticated without further checks.
    pub async fn submit_dmq(&self, batch: Vec<(SingleSignature, SignedEntityType)>) -> Result<(), String> {
        let consumer = Arc::new(FakeSignatureConsumer::new(vec![Ok(batch)]));
        let processor = SequentialSignatureProcessor::new(
            consumer,
            self.certifier_service.clone(),
            self.stop_rx.clone(),
            self.metrics_service.clone(),
            Duration::from_millis(1),
            self.logger.clone(),
        );
        use futures::FutureExt;
        match std::panic::AssertUnwindSafe(processor.process_signatures()).catch_unwind().await {
            Ok(r) => r.map_err(|e| format!("{e:?}")),
            Err(p) => Err(format!("panic: {}", panic_text(p))),
        }
    }

    /// Make the open message of `t` expire: push its deadline into the past through the repository (what the
    /// repo's `activate_open_message_expiration` does with a short timeout, but without waiting for the clock).
    pub async fn expire(&self, t: &SignedEntityType) -> StdResult<bool> {
        // (looked up by the epoch the entity is SIGNED in: `get_open_message` uses the entity's own epoch, which differs
        // for CardanoStakeDistribution and would never find it)
        let Some(om) = self.open_message_repository.get_open_message_with_single_signatures(t).await? else {
            return Ok(false);
        };
        let mut om: mithril_aggregator::database::record::OpenMessageRecord = om.into();
        om.expires_at = Some(chrono::Utc::now() - chrono::Duration::hours(1));
        self.open_message_repository.update_open_message(&om).await?;
        Ok(true)
    }

    /// Stop cleanly (what `serve` does at shutdown).
    pub async fn stop(self) {
        let Node { builder, .. } = self;
        builder.vanish().await;
    }
}

/// the message of a caught panic (vcore's hook keeps it quiet and remembers the location)
pub fn panic_text(p: Box<dyn std::any::Any + Send>) -> String {
    if let Some(s) = p.downcast_ref::<&str>() {
        s.to_string()
    } else if let Some(s) = p.downcast_ref::<String>() {
        s.clone()
    } else {
        "<non-string panic>".into()
    }
}

/// Fill the stores needed for a genesis certificate at `epoch` with `signers` (the repo's
/// `init_state_from_fixture_for_genesis`, which needs a `MithrilFixture`) and tell the chain who holds stake.
pub async fn bootstrap_genesis_state(world: &World, node: &mut Node, signers: &[SignerWithStake], epoch: Epoch) -> StdResult<()> {
    world.chain_observer.set_signers(signers.to_vec()).await;
    let stake_store = node.builder.get_stake_store().await.map_err(|e| anyhow!("{e:?}"))?;
    for e in [epoch.offset_to_signer_retrieval_epoch()?, epoch] {
        for s in signers {
            mithril_aggregator::SignerRecorder::record_signer_registration(
                &*node.builder.get_signer_store().await.map_err(|e| anyhow!("{e:?}"))?,
                s.party_id.clone(),
            )
            .await?;
            node.deps.verification_key_store.save_verification_key(e, s.clone()).await?;
        }
        mithril_persistence::store::StakeStorer::save_stakes(
            &*stake_store,
            e,
            signers.iter().map(|s| (s.party_id.clone(), s.stake)).collect(),
        )
        .await
        .with_context(|| "save stakes")?;
    }
    Ok(())
}

/// per-case tokio runtime (multi-threaded is not needed: everything the aggregator spawns is a task)
pub fn case_runtime() -> tokio::runtime::Runtime {
    tokio::runtime::Builder::new_current_thread().enable_all().build().expect("tokio runtime")
}
