// shared by the three targets: the first input byte selects the entry point among those of the target's kind,
// the rest is the untrusted input. In-target oracle: Ok|Err without panic; an accepted input re-encodes to a fixed point.
#[allow(dead_code)]
#[path = "../../p-stm/src/entry.rs"]
pub mod entry;

use entry::{Entry, Kind, entries};
use std::sync::OnceLock;

pub fn table(kind: Kind) -> &'static Vec<Entry> {
    static T: OnceLock<Vec<Entry>> = OnceLock::new();
    T.get_or_init(|| entries().into_iter().filter(|e| e.kind == kind).collect())
}

pub fn run(kind: Kind, data: &[u8]) {
    if data.is_empty() {
        return;
    }
    let t = table(kind);
    let e = &t[data[0] as usize % t.len()];
    let input = &data[1..];
    if let Ok(reenc) = (e.decode)(input) {
        match (e.decode)(&reenc) {
            Ok(again) => assert!(again == reenc, "reencode-unstable:{}", e.name),
            Err(err) => panic!("reencode-rejected:{}: {err}", e.name),
        }
    }
}
