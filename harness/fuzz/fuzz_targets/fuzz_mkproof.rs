#![no_main]
// C09, coverage-guided layer: bincode-encoded MKProof against a fixed set of committed trees (oracle: mkproof_oracle.rs)
#[allow(dead_code)]
#[path = "../../p-stm/src/mkproof_oracle.rs"]
mod mkproof_oracle;

use libfuzzer_sys::fuzz_target;

fuzz_target!(|data: &[u8]| {
    if let mkproof_oracle::Verdict::Violation(what) = mkproof_oracle::judge(data) {
        panic!("C09:{what}");
    }
});
