//! Counting global allocator: records the largest single allocation request made by the current thread while
//! tracking is switched on (C05's observation point for "allocates out of proportion to the input").

use std::alloc::{GlobalAlloc, Layout, System};
use std::cell::Cell;

pub struct Tracking;

thread_local! {
    static ON: Cell<bool> = const { Cell::new(false) };
    static MAX: Cell<usize> = const { Cell::new(0) };
}

#[inline]
fn note(size: usize) {
    // try_with: the thread-local may already be gone during thread teardown
    let _ = ON.try_with(|on| {
        if on.get() {
            let _ = MAX.try_with(|m| {
                if size > m.get() {
                    m.set(size);
                }
            });
        }
    });
}

unsafe impl GlobalAlloc for Tracking {
    unsafe fn alloc(&self, layout: Layout) -> *mut u8 {
        note(layout.size());
        unsafe { System.alloc(layout) }
    }
    unsafe fn dealloc(&self, ptr: *mut u8, layout: Layout) {
        unsafe { System.dealloc(ptr, layout) }
    }
    unsafe fn alloc_zeroed(&self, layout: Layout) -> *mut u8 {
        note(layout.size());
        unsafe { System.alloc_zeroed(layout) }
    }
    unsafe fn realloc(&self, ptr: *mut u8, layout: Layout, new_size: usize) -> *mut u8 {
        note(new_size);
        unsafe { System.realloc(ptr, layout, new_size) }
    }
}

pub fn start() {
    MAX.with(|m| m.set(0));
    ON.with(|o| o.set(true));
}

pub fn stop() -> usize {
    ON.with(|o| o.set(false));
    MAX.with(|m| m.get())
}
