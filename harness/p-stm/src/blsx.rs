//! Direct use of the blst primitive (trusted base) for the independent acceptance rule of C01:
//! per-signature validity (empty DST, no augmentation — the scheme used by mithril-stm) and G1 point surgery.

use blst::min_sig::{PublicKey, SecretKey, Signature};
use blst::{
    BLST_ERROR, blst_p1, blst_p1_add_or_double, blst_p1_affine, blst_p1_affine_compress, blst_p1_cneg,
    blst_p1_from_affine, blst_p1_mult, blst_p1_to_affine, blst_p1_uncompress,
};

/// Some(true/false) = verdict; None = bytes are not valid group elements
pub fn sigma_valid(sigma: &[u8], vk: &[u8], msgp: &[u8]) -> Option<bool> {
    let sig = Signature::sig_validate(sigma, true).ok()?;
    let pk = PublicKey::key_validate(vk).ok()?;
    Some(sig.verify(false, msgp, &[], &[], &pk, false) == BLST_ERROR::BLST_SUCCESS)
}

/// a G1 subgroup point derived from a seed (a signature by a throw-away key)
pub fn delta_point(seed: u64) -> [u8; 48] {
    let mut ikm = [7u8; 32];
    ikm[..8].copy_from_slice(&seed.to_le_bytes());
    let sk = SecretKey::key_gen(&ikm, &[]).expect("keygen");
    sk.sign(b"verif-delta", &[], &[]).to_bytes()
}

fn uncompress(b: &[u8; 48]) -> Option<blst_p1> {
    let mut aff = blst_p1_affine::default();
    let mut p = blst_p1::default();
    unsafe {
        if blst_p1_uncompress(&mut aff, b.as_ptr()) != BLST_ERROR::BLST_SUCCESS {
            return None;
        }
        blst_p1_from_affine(&mut p, &aff);
    }
    Some(p)
}

/// A point of the curve E(Fp) OUTSIDE the prime-order group G1: r * P for a curve point P found from the seed (r = the
/// group order), i.e. a non-trivial element of the cofactor subgroup. e(T, Q) = 1 for every Q in G2, so sigma + T passes
/// every pairing equation sigma passes - but it is another byte string (and hashes differently in the lottery).
pub fn torsion_point(seed: u64) -> Option<[u8; 48]> {
    // r, little endian
    const R_LE: [u8; 32] = [
        0x01, 0x00, 0x00, 0x00, 0xff, 0xff, 0xff, 0xff, 0xfe, 0x5b, 0xfe, 0xff, 0x02, 0xa4, 0xbd, 0x53, 0x05, 0xd8, 0xa1, 0x09, 0x08, 0xd8, 0x39, 0x33, 0x48, 0x7d, 0x9d, 0x29, 0x53, 0xa7,
        0xed, 0x73,
    ];
    for attempt in 0..64u64 {
        let mut x = [0u8; 48];
        let s = seed.wrapping_mul(0x9E37_79B9_7F4A_7C15).wrapping_add(attempt);
        for (i, b) in x.iter_mut().enumerate().skip(1) {
            *b = (s >> ((i % 8) * 8)) as u8 ^ (i as u8).wrapping_mul(37);
        }
        x[0] = 0x80 | ((s >> 56) as u8 & 0x0f); // compressed, not infinity, x < p
        if uncompress(&x).is_none() {
            continue;
        }
        let t = p1_mult(&x, &R_LE, 255)?;
        // not the point at infinity
        if t[0] & 0x40 != 0 {
            continue;
        }
        return Some(t);
    }
    None
}

/// sigma + delta (or sigma - delta), compressed
pub fn sigma_add(sigma: &[u8; 48], delta: &[u8; 48], negate: bool) -> Option<[u8; 48]> {
    let a = uncompress(sigma)?;
    let mut d = uncompress(delta)?;
    let mut out = blst_p1::default();
    let mut aff = blst_p1_affine::default();
    let mut bytes = [0u8; 48];
    unsafe {
        if negate {
            blst_p1_cneg(&mut d, true);
        }
        blst_p1_add_or_double(&mut out, &a, &d);
        blst_p1_to_affine(&mut aff, &out);
        blst_p1_affine_compress(bytes.as_mut_ptr(), &aff);
    }
    Some(bytes)
}

/// scalar (little-endian bytes, `nbits` significant bits) times a compressed G1 point
pub fn p1_mult(point: &[u8; 48], scalar_le: &[u8], nbits: usize) -> Option<[u8; 48]> {
    let p = uncompress(point)?;
    let mut out = blst_p1::default();
    let mut aff = blst_p1_affine::default();
    let mut bytes = [0u8; 48];
    unsafe {
        blst_p1_mult(&mut out, &p, scalar_le.as_ptr(), nbits);
        blst_p1_to_affine(&mut aff, &out);
        blst_p1_affine_compress(bytes.as_mut_ptr(), &aff);
    }
    Some(bytes)
}
