//! Direct use of the blst primitive (trusted base) for the independent acceptance rule of C01:
//! per-signature validity (empty DST, no augmentation — the scheme used by mithril-stm) and G1 point surgery.

use blst::min_sig::{PublicKey, SecretKey, Signature};
use blst::{
    BLST_ERROR, blst_p1, blst_p1_add_or_double, blst_p1_affine, blst_p1_affine_compress, blst_p1_cneg,
    blst_p1_from_affine, blst_p1_mult, blst_p1_to_affine, blst_p1_uncompress,
};

/// Some(true/false) = verdict; None = bytes are not valid group elements
pub fn sigma_valid(sigma: &[u8], vk: &[u8], msgp: &[u8]) -> Option<bool> {
    let sig = Signature::sig_validate(sigma, true).ok()?;
    let pk = PublicKey::key_validate(vk).ok()?;
    Some(sig.verify(false, msgp, &[], &[], &pk, false) == BLST_ERROR::BLST_SUCCESS)
}

/// a G1 subgroup point derived from a seed (a signature by a throw-away key)
pub fn delta_point(seed: u64) -> [u8; 48] {
    let mut ikm = [7u8; 32];
    ikm[..8].copy_from_slice(&seed.to_le_bytes());
    let sk = SecretKey::key_gen(&ikm, &[]).expect("keygen");
    sk.sign(b"verif-delta", &[], &[]).to_bytes()
}

fn uncompress(b: &[u8; 48]) -> Option<blst_p1> {
    let mut aff = blst_p1_affine::default();
    let mut p = blst_p1::default();
    unsafe {
        if blst_p1_uncompress(&mut aff, b.as_ptr()) != BLST_ERROR::BLST_SUCCESS {
            return None;
        }
        blst_p1_from_affine(&mut p, &aff);
    }
    Some(p)
}

/// sigma + delta (or sigma - delta), compressed
pub fn sigma_add(sigma: &[u8; 48], delta: &[u8; 48], negate: bool) -> Option<[u8; 48]> {
    let a = uncompress(sigma)?;
    let mut d = uncompress(delta)?;
    let mut out = blst_p1::default();
    let mut aff = blst_p1_affine::default();
    let mut bytes = [0u8; 48];
    unsafe {
        if negate {
            blst_p1_cneg(&mut d, true);
        }
        blst_p1_add_or_double(&mut out, &a, &d);
        blst_p1_to_affine(&mut aff, &out);
        blst_p1_affine_compress(bytes.as_mut_ptr(), &aff);
    }
    Some(bytes)
}

/// scalar (little-endian bytes, `nbits` significant bits) times a compressed G1 point
pub fn p1_mult(point: &[u8; 48], scalar_le: &[u8], nbits: usize) -> Option<[u8; 48]> {
    let p = uncompress(point)?;
    let mut out = blst_p1::default();
    let mut aff = blst_p1_affine::default();
    let mut bytes = [0u8; 48];
    unsafe {
        blst_p1_mult(&mut out, &p, scalar_le.as_ptr(), nbits);
        blst_p1_to_affine(&mut aff, &out);
        blst_p1_affine_compress(bytes.as_mut_ptr(), &aff);
    }
    Some(bytes)
}
