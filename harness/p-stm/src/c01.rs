//! C01 — multi-signature soundness: accepted aggregates carry a real stake quorum.
//!
//! Honest aggregates are built through the public API, mutated through a grammar over their JSON view, pushed through
//! a wire re-encoding and verified. Oracle = an independent statement of the acceptance rule (clauses a–e, f for
//! batches) evaluated on the object that was actually verified.

use std::collections::{BTreeMap, BTreeSet};

use blst::min_sig::SecretKey;
use mithril_stm::{AggregateSignature, AggregateVerificationKey, Clerk, Parameters, SingleSignature};
use proptest::prelude::*;
use serde::{Deserialize, Serialize};
use serde_json::{Value, json};
use vcore::{Args, Check, Report, catch, pick_index};

use crate::blsx;
use crate::c08::world_strategy;
use crate::fixtures::{D, World, WorldSpec, draw};
use crate::lottery_ref::{Ref, enclosure, ev_to_int};
use crate::wire::{ALL_ENC, Enc, bytes_of, decode_via, json_bytes};

#[derive(Clone, Debug, Serialize, Deserialize)]
pub enum Special {
    MMinus1,
    M,
    MPlus1,
    Max,
}

#[derive(Clone, Debug, Serialize, Deserialize)]
pub enum PartyKind {
    OtherRegistered(u16),
    Unregistered(u64),
    InflateStake(u64),
}

#[derive(Clone, Debug, Serialize, Deserialize)]
pub enum SigmaKind {
    OtherParty(u16),
    OtherMessage,
    PlusDelta(u64),
    /// sigma + T with T outside the prime-order group (passes every pairing check, is another byte string)
    #[serde(alias = "PlusTorsion")]
    PlusTorsion(u64),
}

#[derive(Clone, Debug, Serialize, Deserialize)]
pub enum PathIdx {
    OutOfRange(u16),
    UsizeMax,
    Other(u16),
}

#[derive(Clone, Debug, Serialize, Deserialize)]
pub enum Mut {
    /// keep only k-1 indices overall (dropping from the end)
    BelowK,
    DropOneIndex { sig: u16, idx: u16 },
    DupWithin { sig: u16, idx: u16 },
    CopyIndexAcross { from: u16, to: u16, idx: u16 },
    InsertSpecial { sig: u16, kind: Special },
    InsertNotWon { sig: u16, raw: u16 },
    ReplaceByNotWon { sig: u16, idx: u16, raw: u16 },
    SwapSignerIndex { a: u16, b: u16 },
    SetSignerIndex { sig: u16, raw: u16 },
    DuplicateEntry { sig: u16 },
    SplitEntry { sig: u16 },
    ReplaceParty { sig: u16, kind: PartyKind },
    /// an unregistered key with a genuine signature of msg‖root and a stake that makes it win everything it can
    Outsider { sig: u16, seed: u64, stake: u64 },
    Sigma { sig: u16, kind: SigmaKind },
    CompensatePair { a: u16, b: u16, seed: u64 },
    /// sigma_a + e_b*P, sigma_b - e_a*P for coefficient derivations that do not depend on the signatures
    /// (0: Blake2b-128 over the verification keys + position, 1: over the message + position, 2: position only)
    WeightedCompensate { a: u16, b: u16, seed: u64, derivation: u8 },
    /// a second entry claiming the SAME signer slot as a genuine entry, placed before it: an unregistered key with a
    /// genuine signature and a claimed stake, carrying otherwise unused indices; the batch path is left untouched
    ShadowOutsider { sig: u16, seed: u64, stake: u64, nidx: u8 },
    /// entry `sig` twice (second copy: same key and sigma, inflated stake, unused indices), its batch index twice,
    /// every path value doubled in place
    DoubledPath { sig: u16, stake: u64 },
    FlipNode { i: u16, byte: u8, bit: u8 },
    DropNode { i: u16 },
    DupNode { i: u16 },
    AddNode { byte: u8 },
    ReverseIndices,
    SetPathIndex { i: u16, kind: PathIdx },
    DropPathIndex { i: u16 },
    DropEntry { sig: u16 },
}

#[derive(Clone, Debug, Serialize, Deserialize)]
pub enum Ctx {
    Same,
    KPlus(u64),
    MMinus(u64),
    OtherPhi(f64),
    OtherMsg,
    /// verify under the key of the same parties where one stake differs by one
    OtherAvk,
}

#[derive(Clone, Debug, Serialize, Deserialize)]
pub struct Case {
    pub world: WorldSpec,
    pub msg: Vec<u8>,
    pub kraw: u16,
    pub muts: Vec<Mut>,
    pub enc: Enc,
    pub ctx: Ctx,
}

pub fn mut_name(m: &Mut) -> String {
    let s = format!("{m:?}");
    let head = s.split([' ', '{', '(']).next().unwrap_or("").to_string();
    match m {
        Mut::InsertSpecial { kind, .. } => format!("{head}:{kind:?}"),
        Mut::ReplaceParty { kind, .. } => format!("{head}:{}", format!("{kind:?}").split('(').next().unwrap_or("")),
        Mut::Sigma { kind, .. } => format!("{head}:{}", format!("{kind:?}").split('(').next().unwrap_or("")),
        Mut::SetPathIndex { kind, .. } => format!("{head}:{}", format!("{kind:?}").split('(').next().unwrap_or("")),
        _ => head,
    }
}

/// honest aggregate for (world, msg) with k chosen so that the honest signatures reach it
pub struct Honest {
    pub world: World,
    pub params: Parameters,
    pub sigs: Vec<SingleSignature>,
    pub agg: AggregateSignature<D>,
    pub view: Value,
    pub won_by_vk: BTreeMap<Vec<u8>, BTreeSet<u64>>,
}

static CACHE: std::sync::OnceLock<std::sync::Mutex<std::collections::HashMap<String, Option<std::sync::Arc<Honest>>>>> = std::sync::OnceLock::new();

/// cached variant (worlds come from a per-run pool, so the same honest aggregate serves many mutation cases)
pub fn honest_cached(spec: &WorldSpec, msg: &[u8], kraw: u16) -> Option<std::sync::Arc<Honest>> {
    let key = format!("{}|{}|{kraw}", serde_json::to_string(spec).unwrap_or_default(), hex::encode(msg));
    let cache = CACHE.get_or_init(Default::default);
    if let Some(h) = cache.lock().unwrap().get(&key) {
        return h.clone();
    }
    let h = honest(spec, msg, kraw).map(std::sync::Arc::new);
    let mut g = cache.lock().unwrap();
    if g.len() > 20_000 {
        g.clear();
    }
    g.insert(key, h.clone());
    h
}

pub type Member = (WorldSpec, Vec<u8>, u16);

/// the per-run pool of (world, message, k selector): a pure function of the seed
pub fn build_pool(seed: u64, size: usize, max_n: usize, max_m: u64, threads: usize) -> Vec<Member> {
    let specs: Vec<Member> = (0..size)
        .map(|i| {
            vcore::sample_one(
                &(sound_world(max_n, max_m), prop::collection::vec(any::<u8>(), 0..40), prop_oneof![Just(u16::MAX), any::<u16>()]),
                vcore::mix(seed, 0xC01 + i as u64),
            )
        })
        .collect();
    // warm the cache in parallel
    let next = std::sync::atomic::AtomicUsize::new(0);
    std::thread::scope(|sc| {
        for _ in 0..threads.max(1) {
            sc.spawn(|| loop {
                let i = next.fetch_add(1, std::sync::atomic::Ordering::Relaxed);
                if i >= specs.len() {
                    break;
                }
                let _ = honest_cached(&specs[i].0, &specs[i].1, specs[i].2);
            });
        }
    });
    specs.into_iter().filter(|m| honest_cached(&m.0, &m.1, m.2).is_some()).collect()
}

pub fn honest(spec: &WorldSpec, msg: &[u8], kraw: u16) -> Option<Honest> {
    let world = World::build(spec)?;
    let mut sigs = world.sign_all(msg);
    if spec.params.phi >= 1.0 && sigs.len() > 1 {
        // with phi = 1 everybody wins every index and the clerk would keep a single signature: give each signer a
        // disjoint residue class so that the aggregate has several entries (needed by the sigma-surgery mutations)
        let n = sigs.len() as u64;
        for (i, s) in sigs.iter_mut().enumerate() {
            let own: Vec<u64> = s.get_concatenation_signature_indices().into_iter().filter(|j| j % n == i as u64).collect();
            if !own.is_empty() {
                s.set_concatenation_signature_indices(&own);
            }
        }
    }
    let mut all: BTreeSet<u64> = BTreeSet::new();
    let mut won_by_vk = BTreeMap::new();
    for s in &sigs {
        let idx: BTreeSet<u64> = s.get_concatenation_signature_indices().into_iter().collect();
        all.extend(idx.iter().copied());
        let vk = world.signers.iter().find(|x| x.signer_index == s.signer_index)?.get_bls_verification_key();
        won_by_vk.insert(vk.to_bytes().to_vec(), idx);
    }
    if all.is_empty() {
        return None;
    }
    let k = 1 + pick_index(kraw, all.len()) as u64;
    let params = Parameters { m: spec.params.m, k, phi_f: spec.params.phi };
    let clerk: Clerk<D> = Clerk::new_clerk_from_closed_key_registration(&params, &world.closed);
    let (agg, _) = clerk
        .aggregate_signatures_with_type(
            &sigs,
            msg,
            mithril_stm::AggregateSignatureType::Concatenation,
            mithril_stm::AncillaryProofInput::new(None, mithril_stm::AncillaryGenesisData::new()),
        )
        .ok()?;
    let view = serde_json::to_value(&agg).ok()?;
    // positive control (completeness is C02's claim; a rejected honest aggregate is not used as a mutation base)
    if agg.verify(msg, &world.avk, &params, None, None).is_err() {
        return None;
    }
    Some(Honest { world, params, sigs, agg, view, won_by_vk })
}

fn sig_count(v: &Value) -> usize {
    v["signatures"].as_array().map(|a| a.len()).unwrap_or(0)
}

fn entry_mut(v: &mut Value, i: usize) -> Option<&mut Value> {
    v["signatures"].as_array_mut()?.get_mut(i)
}

fn indexes_mut(v: &mut Value, i: usize) -> Option<&mut Vec<Value>> {
    entry_mut(v, i)?.get_mut(0)?.get_mut("indexes")?.as_array_mut()
}

fn unregistered_key(seed: u64) -> (SecretKey, Vec<u8>) {
    let mut ikm = [3u8; 32];
    ikm[..8].copy_from_slice(&seed.to_le_bytes());
    let sk = SecretKey::key_gen(&ikm, &[]).expect("keygen");
    let vk = sk.sk_to_pk().to_bytes().to_vec();
    (sk, vk)
}

/// apply one mutation to the JSON view; returns false if it could not be applied (no such position)
pub fn apply(v: &mut Value, m: &Mut, h: &Honest, msg: &[u8]) -> bool {
    let n = sig_count(v);
    if n == 0 {
        return false;
    }
    let mm = h.params.m;
    let pos = |raw: u16| pick_index(raw, n);
    match m {
        Mut::BelowK => {
            let mut total: usize = (0..n).map(|i| indexes_mut(v, i).map(|x| x.len()).unwrap_or(0)).sum();
            let target = (h.params.k as usize).saturating_sub(1);
            let mut i = n;
            while total > target && i > 0 {
                i -= 1;
                while total > target {
                    let Some(ix) = indexes_mut(v, i) else { break };
                    if ix.pop().is_none() {
                        break;
                    }
                    total -= 1;
                }
            }
            true
        }
        Mut::DropOneIndex { sig, idx } => {
            let Some(ix) = indexes_mut(v, pos(*sig)) else { return false };
            if ix.is_empty() {
                return false;
            }
            let p = pick_index(*idx, ix.len());
            ix.remove(p);
            true
        }
        Mut::DupWithin { sig, idx } => {
            let Some(ix) = indexes_mut(v, pos(*sig)) else { return false };
            if ix.is_empty() {
                return false;
            }
            let p = pick_index(*idx, ix.len());
            let val = ix[p].clone();
            ix.insert(p, val);
            true
        }
        Mut::CopyIndexAcross { from, to, idx } => {
            if n < 2 {
                return false;
            }
            let a = pos(*from);
            let mut b = pos(*to);
            if a == b {
                b = (a + 1) % n;
            }
            let val = {
                let Some(ix) = indexes_mut(v, a) else { return false };
                if ix.is_empty() {
                    return false;
                }
                ix[pick_index(*idx, ix.len())].clone()
            };
            let Some(ix) = indexes_mut(v, b) else { return false };
            ix.push(val);
            true
        }
        Mut::InsertSpecial { sig, kind } => {
            let val = match kind {
                Special::MMinus1 => mm.saturating_sub(1),
                Special::M => mm,
                Special::MPlus1 => mm + 1,
                Special::Max => u64::MAX,
            };
            let Some(ix) = indexes_mut(v, pos(*sig)) else { return false };
            ix.push(Value::from(val));
            true
        }
        Mut::InsertNotWon { sig, raw } | Mut::ReplaceByNotWon { sig, raw, .. } => {
            let s = pos(*sig);
            let vk = bytes_of(&v["signatures"][s][1][0]).unwrap_or_default();
            let won = h.won_by_vk.get(&vk).cloned().unwrap_or_default();
            let not_won: Vec<u64> = (0..mm).filter(|i| !won.contains(i)).collect();
            if not_won.is_empty() {
                return false;
            }
            let val = not_won[pick_index(*raw, not_won.len())];
            let Some(ix) = indexes_mut(v, s) else { return false };
            if let Mut::ReplaceByNotWon { idx, .. } = m {
                if ix.is_empty() {
                    return false;
                }
                let p = pick_index(*idx, ix.len());
                ix[p] = Value::from(val);
            } else {
                ix.push(Value::from(val));
            }
            true
        }
        Mut::SwapSignerIndex { a, b } => {
            if n < 2 {
                return false;
            }
            let a = pos(*a);
            let mut b = pos(*b);
            if a == b {
                b = (a + 1) % n;
            }
            let va = v["signatures"][a][0]["signer_index"].clone();
            let vb = v["signatures"][b][0]["signer_index"].clone();
            v["signatures"][a][0]["signer_index"] = vb;
            v["signatures"][b][0]["signer_index"] = va;
            true
        }
        Mut::SetSignerIndex { sig, raw } => {
            let nparties = h.world.spec.parties.len() as u64;
            let val = match raw % 4 {
                0 => u64::MAX,
                1 => nparties,
                _ => (*raw as u64 / 4) % (nparties + 1),
            };
            v["signatures"][pos(*sig)][0]["signer_index"] = Value::from(val);
            true
        }
        Mut::DuplicateEntry { sig } => {
            let s = pos(*sig);
            let e = v["signatures"][s].clone();
            v["signatures"].as_array_mut().unwrap().insert(s, e);
            let bi = v["batch_proof"]["indices"].as_array_mut().unwrap();
            if let Some(x) = bi.get(s).cloned() {
                bi.insert(s, x);
            }
            true
        }
        Mut::SplitEntry { sig } => {
            let s = pos(*sig);
            let mut e2 = v["signatures"][s].clone();
            let ix = indexes_mut(v, s).unwrap();
            if ix.len() < 2 {
                return false;
            }
            let tail = ix.split_off(ix.len() / 2);
            e2[0]["indexes"] = Value::Array(tail);
            v["signatures"].as_array_mut().unwrap().insert(s + 1, e2);
            let bi = v["batch_proof"]["indices"].as_array_mut().unwrap();
            if let Some(x) = bi.get(s).cloned() {
                bi.insert(s, x);
            }
            true
        }
        Mut::ReplaceParty { sig, kind } => {
            let s = pos(*sig);
            match kind {
                PartyKind::OtherRegistered(raw) => {
                    let parties = &h.world.signers;
                    let other = &parties[pick_index(*raw, parties.len())];
                    let vk = other.get_bls_verification_key().to_bytes().to_vec();
                    if bytes_of(&v["signatures"][s][1][0]).as_deref() == Some(&vk[..]) {
                        return false;
                    }
                    v["signatures"][s][1] = json!([json_bytes(&vk), other.get_stake()]);
                }
                PartyKind::Unregistered(seed) => {
                    let (_, vk) = unregistered_key(*seed);
                    v["signatures"][s][1][0] = json_bytes(&vk);
                }
                PartyKind::InflateStake(d) => {
                    // +1, +small, up to 4x the total stake (claimed stakes far above the total only make the
                    // lottery evaluation slow — seconds per index — without adding a new class)
                    let cur = v["signatures"][s][1][1].as_u64().unwrap_or(0);
                    let cap = h.world.total_stake.saturating_mul(4);
                    v["signatures"][s][1][1] = Value::from(cur.saturating_add(1 + *d % cap.max(1)).min(cap.max(cur + 1)));
                }
            }
            true
        }
        Mut::Outsider { sig, seed, stake } => {
            let s = pos(*sig);
            let (sk, vk) = unregistered_key(*seed);
            let msgp = h.world.msgp(msg);
            let sigma = sk.sign(&msgp, &[], &[]).to_bytes();
            v["signatures"][s][0]["sigma"] = json_bytes(&sigma);
            let cap = h.world.total_stake.saturating_mul(4).max(1);
            v["signatures"][s][1] = json!([json_bytes(&vk), 1 + *stake % cap]);
            true
        }
        Mut::Sigma { sig, kind } => {
            let s = pos(*sig);
            match kind {
                SigmaKind::OtherParty(raw) => {
                    if n < 2 {
                        return false;
                    }
                    let mut o = pick_index(*raw, n);
                    if o == s {
                        o = (s + 1) % n;
                    }
                    let sg = v["signatures"][o][0]["sigma"].clone();
                    if sg == v["signatures"][s][0]["sigma"] {
                        return false;
                    }
                    v["signatures"][s][0]["sigma"] = sg;
                }
                SigmaKind::OtherMessage => {
                    let vk = bytes_of(&v["signatures"][s][1][0]).unwrap_or_default();
                    let Some(signer) = h.world.signers.iter().find(|x| x.get_bls_verification_key().to_bytes().to_vec() == vk) else {
                        return false;
                    };
                    let mut other = msg.to_vec();
                    other.push(0x5a);
                    // a signer that loses the lottery on the other message gives no sigma; try a few variants
                    let mut found = None;
                    for t in 0..8u8 {
                        other.push(t);
                        if let Ok(sg) = signer.create_single_signature(&other) {
                            found = Some(sg.get_concatenation_signature_sigma().to_bytes());
                            break;
                        }
                    }
                    let Some(sg) = found else { return false };
                    v["signatures"][s][0]["sigma"] = json_bytes(&sg);
                }
                SigmaKind::PlusDelta(seed) => {
                    let Some(cur) = bytes_of(&v["signatures"][s][0]["sigma"]) else { return false };
                    let Ok(cur) = <[u8; 48]>::try_from(cur) else { return false };
                    let Some(nw) = blsx::sigma_add(&cur, &blsx::delta_point(*seed), false) else { return false };
                    v["signatures"][s][0]["sigma"] = json_bytes(&nw);
                }
                SigmaKind::PlusTorsion(seed) => {
                    let Some(cur) = bytes_of(&v["signatures"][s][0]["sigma"]) else { return false };
                    let Ok(cur) = <[u8; 48]>::try_from(cur) else { return false };
                    let Some(t) = blsx::torsion_point(*seed) else { return false };
                    let Some(nw) = blsx::sigma_add(&cur, &t, false) else { return false };
                    v["signatures"][s][0]["sigma"] = json_bytes(&nw);
                }
            }
            true
        }
        Mut::CompensatePair { a, b, seed } => {
            if n < 2 {
                return false;
            }
            let a = pos(*a);
            let mut b = pos(*b);
            if a == b {
                b = (a + 1) % n;
            }
            let d = blsx::delta_point(*seed);
            for (p, neg) in [(a, false), (b, true)] {
                let Some(cur) = bytes_of(&v["signatures"][p][0]["sigma"]) else { return false };
                let Ok(cur) = <[u8; 48]>::try_from(cur) else { return false };
                let Some(nw) = blsx::sigma_add(&cur, &d, neg) else { return false };
                v["signatures"][p][0]["sigma"] = json_bytes(&nw);
            }
            true
        }
        Mut::WeightedCompensate { a, b, seed, derivation } => {
            if n < 2 {
                return false;
            }
            let a = pos(*a);
            let mut b = pos(*b);
            if a == b {
                b = (a + 1) % n;
            }
            use blake2::digest::consts::U16;
            use blake2::{Blake2b, Digest};
            let mut hs = Blake2b::<U16>::new();
            match derivation % 3 {
                0 => {
                    for e in v["signatures"].as_array().unwrap() {
                        hs.update(bytes_of(&e[1][0]).unwrap_or_default());
                    }
                }
                1 => hs.update(h.world.msgp(msg)),
                _ => {}
            }
            let coeff = |i: usize| -> Vec<u8> {
                let mut hi = hs.clone();
                hi.update(i.to_be_bytes());
                hi.finalize().to_vec()
            };
            let (ea, eb) = (coeff(a), coeff(b));
            let p = blsx::delta_point(*seed);
            let (Some(pa), Some(pb)) = (blsx::p1_mult(&p, &eb, 128), blsx::p1_mult(&p, &ea, 128)) else { return false };
            for (posn, d, neg) in [(a, pa, false), (b, pb, true)] {
                let Some(cur) = bytes_of(&v["signatures"][posn][0]["sigma"]) else { return false };
                let Ok(cur) = <[u8; 48]>::try_from(cur) else { return false };
                let Some(nw) = blsx::sigma_add(&cur, &d, neg) else { return false };
                v["signatures"][posn][0]["sigma"] = json_bytes(&nw);
            }
            true
        }
        Mut::ShadowOutsider { sig, seed, stake, nidx } => {
            let s = pos(*sig);
            let (sk, vk) = unregistered_key(*seed);
            let msgp = h.world.msgp(msg);
            let sigma = sk.sign(&msgp, &[], &[]).to_bytes();
            let used: BTreeSet<u64> = v["signatures"].as_array().unwrap().iter().flat_map(|e| e[0]["indexes"].as_array().cloned().unwrap_or_default()).filter_map(|x| x.as_u64()).collect();
            let free: Vec<u64> = (0..mm).filter(|i| !used.contains(i)).collect();
            let take = (*nidx as usize % 4).min(free.len());
            let cap = h.world.total_stake.saturating_mul(4).max(1);
            let mut e = v["signatures"][s].clone();
            e[0]["sigma"] = json_bytes(&sigma);
            e[0]["indexes"] = Value::Array(free[..take].iter().map(|i| Value::from(*i)).collect());
            e[1] = json!([json_bytes(&vk), 1 + *stake % cap]);
            v["signatures"].as_array_mut().unwrap().insert(s, e);
            true
        }
        Mut::DoubledPath { sig, stake } => {
            let s = pos(*sig);
            let used: BTreeSet<u64> = v["signatures"].as_array().unwrap().iter().flat_map(|e| e[0]["indexes"].as_array().cloned().unwrap_or_default()).filter_map(|x| x.as_u64()).collect();
            let free: Vec<u64> = (0..mm).filter(|i| !used.contains(i)).collect();
            let mut copy = v["signatures"][s].clone();
            let cur = copy[1][1].as_u64().unwrap_or(0);
            let cap = h.world.total_stake.saturating_mul(4).max(cur + 1);
            copy[1][1] = Value::from((cur + 1 + *stake % cap).min(cap));
            copy[0]["indexes"] = Value::Array(free.iter().take(3).map(|i| Value::from(*i)).collect());
            v["signatures"].as_array_mut().unwrap().insert(s + 1, copy);
            let bi = v["batch_proof"]["indices"].as_array_mut().unwrap();
            if s < bi.len() {
                let x = bi[s].clone();
                bi.insert(s + 1, x);
            }
            let vals = v["batch_proof"]["values"].as_array_mut().unwrap();
            let doubled: Vec<Value> = vals.iter().flat_map(|x| [x.clone(), x.clone()]).collect();
            *vals = doubled;
            true
        }
        Mut::FlipNode { i, byte, bit } => {
            let vals = v["batch_proof"]["values"].as_array_mut().unwrap();
            if vals.is_empty() {
                return false;
            }
            let p = pick_index(*i, vals.len());
            let Some(mut b) = bytes_of(&vals[p]) else { return false };
            if b.is_empty() {
                return false;
            }
            let bl = b.len();
            b[*byte as usize % bl] ^= 1 << (bit % 8);
            vals[p] = json_bytes(&b);
            true
        }
        Mut::DropNode { i } => {
            let vals = v["batch_proof"]["values"].as_array_mut().unwrap();
            if vals.is_empty() {
                return false;
            }
            let p = pick_index(*i, vals.len());
            vals.remove(p);
            true
        }
        Mut::DupNode { i } => {
            let vals = v["batch_proof"]["values"].as_array_mut().unwrap();
            if vals.is_empty() {
                return false;
            }
            let p = pick_index(*i, vals.len());
            let x = vals[p].clone();
            vals.insert(p, x);
            true
        }
        Mut::AddNode { byte } => {
            v["batch_proof"]["values"].as_array_mut().unwrap().push(json_bytes(&[*byte; 32]));
            true
        }
        Mut::ReverseIndices => {
            let bi = v["batch_proof"]["indices"].as_array_mut().unwrap();
            if bi.len() < 2 {
                return false;
            }
            bi.reverse();
            true
        }
        Mut::SetPathIndex { i, kind } => {
            let nparties = h.world.spec.parties.len() as u64;
            let bi = v["batch_proof"]["indices"].as_array_mut().unwrap();
            if bi.is_empty() {
                return false;
            }
            let p = pick_index(*i, bi.len());
            let val = match kind {
                PathIdx::OutOfRange(r) => nparties + *r as u64,
                PathIdx::UsizeMax => u64::MAX,
                PathIdx::Other(r) => *r as u64 % nparties.max(1),
            };
            if bi[p].as_u64() == Some(val) {
                return false;
            }
            bi[p] = Value::from(val);
            true
        }
        Mut::DropPathIndex { i } => {
            let bi = v["batch_proof"]["indices"].as_array_mut().unwrap();
            if bi.is_empty() {
                return false;
            }
            let p = pick_index(*i, bi.len());
            bi.remove(p);
            true
        }
        Mut::DropEntry { sig } => {
            let s = pos(*sig);
            v["signatures"].as_array_mut().unwrap().remove(s);
            let bi = v["batch_proof"]["indices"].as_array_mut().unwrap();
            if s < bi.len() {
                bi.remove(s);
            }
            true
        }
    }
}

/// The independent acceptance rule. Returns the definite failures (clause key, detail) of the object `view` for
/// (msg, root, total stake, registered set, params).
pub fn acceptance_failures(
    view: &Value,
    msgp: &[u8],
    params: &Parameters,
    total_stake: u64,
    registered: &BTreeSet<(Vec<u8>, u64)>,
) -> Vec<(String, String)> {
    let mut out = vec![];
    let Some(sigs) = view["signatures"].as_array() else {
        return vec![("malformed".into(), "no signatures array".into())];
    };
    let mut seen = BTreeSet::new();
    let mut total = 0u64;
    for (si, e) in sigs.iter().enumerate() {
        let sig = &e[0];
        let vk = bytes_of(&e[1][0]).unwrap_or_default();
        let stake = e[1][1].as_u64().unwrap_or(0);
        let sigma = bytes_of(&sig["sigma"]).unwrap_or_default();
        let idx: Vec<u64> = sig["indexes"].as_array().map(|a| a.iter().filter_map(|x| x.as_u64()).collect()).unwrap_or_default();
        // (d) committed pair
        if !registered.contains(&(vk.clone(), stake)) {
            out.push(("d-uncommitted-party".into(), format!("entry {si}: (vk, stake={stake}) is not a registered pair")));
        }
        // (e) signature validity
        match blsx::sigma_valid(&sigma, &vk, msgp) {
            Some(true) => {}
            Some(false) => out.push(("e-invalid-signature".into(), format!("entry {si}: sigma is not a valid signature of msg‖root under its key"))),
            None => out.push(("e-invalid-signature".into(), format!("entry {si}: sigma/vk are not valid group elements"))),
        }
        let enc = if params.phi_f < 1.0 && stake > 0 && stake <= total_stake { Some(enclosure(params.phi_f, stake, total_stake)) } else { None };
        for i in idx {
            total += 1;
            if !seen.insert(i) {
                out.push(("a-duplicate-index".into(), format!("index {i} appears twice")));
            }
            if i >= params.m {
                out.push(("b-index-out-of-range".into(), format!("index {i} >= m={}", params.m)));
            }
            // (c) genuinely won
            if params.phi_f < 1.0 {
                let lost = if stake == 0 {
                    true
                } else if let (Some(enc), Ok(sg)) = (&enc, <[u8; 48]>::try_from(sigma.clone())) {
                    enc.decide(&ev_to_int(&draw(msgp, i, &sg))) == Ref::Lost
                } else {
                    false
                };
                if lost {
                    out.push(("c-index-not-won".into(), format!("entry {si}: index {i} is lost for stake {stake}/{total_stake}")));
                }
            }
        }
    }
    if total < params.k {
        out.push(("a-below-k".into(), format!("{total} indices < k={}", params.k)));
    }
    out
}

pub fn registered_set(world: &World) -> BTreeSet<(Vec<u8>, u64)> {
    world.signers.iter().map(|s| (s.get_bls_verification_key().to_bytes().to_vec(), s.get_stake())).collect()
}

struct VerifySide {
    msg: Vec<u8>,
    params: Parameters,
    avk: AggregateVerificationKey<D>,
    msgp: Vec<u8>,
    total: u64,
    registered: BTreeSet<(Vec<u8>, u64)>,
}

fn verify_side(h: &Honest, msg: &[u8], ctx: &Ctx) -> Option<VerifySide> {
    let mut params = h.params;
    let mut vmsg = msg.to_vec();
    let mut world_other = None;
    match ctx {
        Ctx::Same => {}
        Ctx::KPlus(d) => params.k += 1 + d % 3,
        Ctx::MMinus(d) => params.m = params.m.saturating_sub(1 + d % 3).max(1),
        Ctx::OtherPhi(p) => {
            if (*p - params.phi_f).abs() < 1e-9 {
                return None;
            }
            params.phi_f = *p
        }
        Ctx::OtherMsg => vmsg.push(1),
        Ctx::OtherAvk => {
            let mut spec = h.world.spec.clone();
            spec.parties[0].1 = spec.parties[0].1.checked_add(1)?;
            world_other = Some(World::build(&spec)?);
        }
    }
    let w = world_other.as_ref().unwrap_or(&h.world);
    Some(VerifySide {
        msgp: w.msgp(&vmsg),
        msg: vmsg,
        params,
        avk: w.avk.clone(),
        total: w.total_stake,
        registered: registered_set(w),
    })
}

fn case_fn(c: &Case) -> Report {
    let mut rep = Report::new();
    let Some(h) = honest_cached(&c.world, &c.msg, c.kraw) else {
        rep.discard("honest signatures do not reach any index");
        return rep;
    };
    let h = &*h;
    let mut view = h.view.clone();
    let mut applied = vec![];
    for m in &c.muts {
        if apply(&mut view, m, h, &c.msg) {
            applied.push(mut_name(m));
        }
    }
    let Some(vs) = verify_side(h, &c.msg, &c.ctx) else {
        rep.discard("verify context not applicable");
        return rep;
    };
    let ctx_name = format!("{:?}", c.ctx).split('(').next().unwrap_or("").to_string();
    rep.label(format!("enc:{:?}", c.enc)).label(format!("ctx:{ctx_name}"));
    for a in &applied {
        rep.label(format!("mut:{a}"));
    }
    if applied.is_empty() && matches!(c.ctx, Ctx::Same) {
        rep.label("unmutated");
    }
    if c.world.params.phi >= 1.0 {
        rep.label("phi=1");
    }
    let decoded = match catch(|| decode_via(&view, c.enc)) {
        Ok(Ok(a)) => a,
        Ok(Err(_)) => {
            rep.label("rejected-at-decode");
            return rep;
        }
        Err(p) => {
            // decoder crashes are C05's subject; here they are only "not accepted"
            rep.label("decoder-panicked");
            let _ = p;
            return rep;
        }
    };
    let verdict = catch(|| decoded.verify(&vs.msg, &vs.avk, &vs.params, None, None));
    let accepted = match verdict {
        Ok(Ok(())) => true,
        Ok(Err(_)) => false,
        Err(_) => {
            rep.label("verify-panicked");
            false
        }
    };
    let n = c.world.parties.len();
    let shape = format!(
        "muts:{applied:?} enc:{:?} ctx:{ctx_name} n:{} phi1:{} acc:{accepted}",
        c.enc,
        n.min(6),
        c.world.params.phi >= 1.0
    );
    if !applied.is_empty() || !matches!(c.ctx, Ctx::Same) {
        rep.nontrivial(shape);
    }
    if accepted {
        rep.label("accepted");
        let obj = serde_json::to_value(&decoded).unwrap_or(Value::Null);
        let fails = acceptance_failures(&obj, &vs.msgp, &vs.params, vs.total, &vs.registered);
        if let Some((key, detail)) = fails.first() {
            rep.violation(
                key.clone(),
                format!("verify accepted although {detail}; mutations {applied:?}, enc {:?}, ctx {:?}; all failures: {:?}", c.enc, c.ctx, fails.iter().map(|f| &f.0).collect::<Vec<_>>()),
            );
        } else if !applied.is_empty() {
            rep.label("accepted-and-rule-holds");
        }
    } else {
        rep.label("rejected");
        if applied.is_empty() && matches!(c.ctx, Ctx::Same) {
            // honest aggregate rejected after a wire round trip: completeness is C02/C05's claim, recorded here
            rep.label("honest-rejected-after-reencoding");
        }
    }
    rep
}

// ---------------------------------------------------------------------------------------------- batch

#[derive(Clone, Debug, Serialize, Deserialize)]
pub enum BatchKind {
    /// one member mutated by the grammar
    OneMutated { member: u16, muts: Vec<Mut> },
    /// member a: sigma+Δ, member b: sigma−Δ (single-signature groups; phi = 1)
    CompensatingPair { seed: u64 },
    Honest,
}

#[derive(Clone, Debug, Serialize, Deserialize)]
pub struct BatchCase {
    pub members: Vec<(WorldSpec, Vec<u8>, u16)>,
    pub kind: BatchKind,
}

fn batch_case(c: &BatchCase) -> Report {
    let mut rep = Report::new();
    let mut hs = vec![];
    for (spec, msg, kraw) in &c.members {
        let Some(h) = honest_cached(spec, msg, *kraw) else {
            rep.discard("member world cannot reach an index");
            return rep;
        };
        hs.push(h);
    }
    let mut aggs: Vec<AggregateSignature<D>> = hs.iter().map(|h| h.agg.clone()).collect();
    let kind_name;
    match &c.kind {
        BatchKind::Honest => kind_name = "honest".to_string(),
        BatchKind::OneMutated { member, muts } => {
            let mi = pick_index(*member, hs.len());
            let mut view = hs[mi].view.clone();
            let mut names = vec![];
            for m in muts {
                if apply(&mut view, m, &*hs[mi], &c.members[mi].1) {
                    names.push(mut_name(m));
                }
            }
            if names.is_empty() {
                rep.discard("no mutation applicable");
                return rep;
            }
            match serde_json::from_value::<AggregateSignature<D>>(view) {
                Ok(a) => aggs[mi] = a,
                Err(_) => {
                    rep.label("rejected-at-decode");
                    return rep;
                }
            }
            kind_name = format!("one-mutated:{names:?}");
            for nme in names {
                rep.label(format!("mut:{nme}"));
            }
        }
        BatchKind::CompensatingPair { seed } => {
            if hs.len() < 2 {
                rep.discard("needs two members");
                return rep;
            }
            let d = blsx::delta_point(*seed);
            for (mi, neg) in [(0usize, false), (1usize, true)] {
                let mut view = hs[mi].view.clone();
                let n = sig_count(&view);
                if n == 0 {
                    rep.discard("empty member");
                    return rep;
                }
                // shift the first signature of the member
                let Some(cur) = bytes_of(&view["signatures"][0][0]["sigma"]) else { return rep };
                let Ok(cur) = <[u8; 48]>::try_from(cur) else { return rep };
                let Some(nw) = blsx::sigma_add(&cur, &d, neg) else { return rep };
                view["signatures"][0][0]["sigma"] = json_bytes(&nw);
                match serde_json::from_value::<AggregateSignature<D>>(view) {
                    Ok(a) => aggs[mi] = a,
                    Err(_) => {
                        rep.label("rejected-at-decode");
                        return rep;
                    }
                }
            }
            let single = hs.iter().take(2).all(|h| sig_count(&h.view) == 1);
            kind_name = format!("compensating-pair single-groups:{single}");
            rep.label(if single { "compensating-pair:single-groups" } else { "compensating-pair:multi-groups" });
        }
    }
    let msgs: Vec<Vec<u8>> = c.members.iter().map(|m| m.1.clone()).collect();
    let avks: Vec<_> = hs.iter().map(|h| h.world.avk.clone()).collect();
    let params: Vec<_> = hs.iter().map(|h| h.params).collect();
    let nones_a = vec![None; aggs.len()];
    let nones_b = vec![None; aggs.len()];
    let batch = catch(|| AggregateSignature::<D>::batch_verify(&aggs, &msgs, &avks, &params, &nones_a, &nones_b));
    let batch_ok = matches!(batch, Ok(Ok(())));
    if batch.is_err() {
        rep.label("batch-panicked");
    }
    let alone: Vec<bool> = (0..aggs.len())
        .map(|i| matches!(catch(|| aggs[i].verify(&msgs[i], &avks[i], &params[i], None, None)), Ok(Ok(()))))
        .collect();
    rep.label(format!("batch:{}", if batch_ok { "accepted" } else { "rejected" }));
    rep.label(format!("batch-size:{}", aggs.len()));
    if !matches!(c.kind, BatchKind::Honest) {
        rep.nontrivial(format!("batch {kind_name} size:{} ok:{batch_ok} alone:{alone:?}", aggs.len()));
    }
    if batch_ok && alone.iter().any(|x| !x) {
        let key = match &c.kind {
            BatchKind::CompensatingPair { .. } => "f-batch-compensating-pair",
            _ => "f-batch-accepts-invalid-member",
        };
        rep.violation(key, format!("batch_verify accepted although members verify alone as {alone:?}; kind {kind_name}"));
    }
    if matches!(c.kind, BatchKind::Honest) && !batch_ok && alone.iter().all(|x| *x) {
        rep.label("honest-batch-rejected");
    }
    rep
}

// ------------------------------------------------------------------------------------------ strategies

fn mut_strategy() -> impl Strategy<Value = Mut> {
    let r = any::<u16>();
    prop_oneof![
        2 => Just(Mut::BelowK),
        1 => (r, r).prop_map(|(sig, idx)| Mut::DropOneIndex { sig, idx }),
        2 => (r, r).prop_map(|(sig, idx)| Mut::DupWithin { sig, idx }),
        2 => (r, r, r).prop_map(|(from, to, idx)| Mut::CopyIndexAcross { from, to, idx }),
        3 => (r, prop_oneof![Just(Special::MMinus1), Just(Special::M), Just(Special::MPlus1), Just(Special::Max)])
            .prop_map(|(sig, kind)| Mut::InsertSpecial { sig, kind }),
        2 => (r, r).prop_map(|(sig, raw)| Mut::InsertNotWon { sig, raw }),
        2 => (r, r, r).prop_map(|(sig, idx, raw)| Mut::ReplaceByNotWon { sig, idx, raw }),
        1 => (r, r).prop_map(|(a, b)| Mut::SwapSignerIndex { a, b }),
        1 => (r, r).prop_map(|(sig, raw)| Mut::SetSignerIndex { sig, raw }),
        1 => r.prop_map(|sig| Mut::DuplicateEntry { sig }),
        1 => r.prop_map(|sig| Mut::SplitEntry { sig }),
        3 => (r, prop_oneof![
                r.prop_map(PartyKind::OtherRegistered),
                (0u64..1000).prop_map(PartyKind::Unregistered),
                prop_oneof![Just(0u64), 0u64..1_000_000, any::<u64>()].prop_map(PartyKind::InflateStake)
            ]).prop_map(|(sig, kind)| Mut::ReplaceParty { sig, kind }),
        2 => (r, 0u64..1000, prop_oneof![any::<u64>(), 1u64..1_000_000]).prop_map(|(sig, seed, stake)| Mut::Outsider { sig, seed, stake }),
        3 => (r, prop_oneof![r.prop_map(SigmaKind::OtherParty), Just(SigmaKind::OtherMessage), (0u64..1000).prop_map(SigmaKind::PlusDelta), (0u64..1000).prop_map(SigmaKind::PlusTorsion), (0u64..1000).prop_map(SigmaKind::PlusTorsion)])
            .prop_map(|(sig, kind)| Mut::Sigma { sig, kind }),
        2 => (r, r, 0u64..1000).prop_map(|(a, b, seed)| Mut::CompensatePair { a, b, seed }),
        2 => (r, r, 0u64..1000, 0u8..3).prop_map(|(a, b, seed, derivation)| Mut::WeightedCompensate { a, b, seed, derivation }),
        3 => (r, 0u64..1000, any::<u64>(), any::<u8>()).prop_map(|(sig, seed, stake, nidx)| Mut::ShadowOutsider { sig, seed, stake, nidx }),
        2 => (r, any::<u64>()).prop_map(|(sig, stake)| Mut::DoubledPath { sig, stake }),
        2 => (r, any::<u8>(), any::<u8>()).prop_map(|(i, byte, bit)| Mut::FlipNode { i, byte, bit }),
        1 => r.prop_map(|i| Mut::DropNode { i }),
        1 => r.prop_map(|i| Mut::DupNode { i }),
        1 => any::<u8>().prop_map(|byte| Mut::AddNode { byte }),
        1 => Just(Mut::ReverseIndices),
        2 => (r, prop_oneof![r.prop_map(PathIdx::OutOfRange), Just(PathIdx::UsizeMax), r.prop_map(PathIdx::Other)])
            .prop_map(|(i, kind)| Mut::SetPathIndex { i, kind }),
        1 => r.prop_map(|i| Mut::DropPathIndex { i }),
        1 => r.prop_map(|sig| Mut::DropEntry { sig }),
    ]
}

/// worlds for soundness: phi = 1 with decent probability so that signature-level mutations get past the lottery
pub fn sound_world(max_n: usize, max_m: u64) -> impl Strategy<Value = WorldSpec> {
    (world_strategy(max_n, max_m), prop_oneof![2 => Just(None), 1 => Just(Some(1.0f64)), 1 => (0.5f64..1.0).prop_map(Some)], 0u8..6).prop_map(
        |(mut w, phi, skew)| {
            if let Some(p) = phi {
                w.params.phi = p;
            }
            // extreme stake splits
            match skew {
                0 => {
                    for p in w.parties.iter_mut() {
                        p.1 = 1000;
                    }
                }
                1 if w.parties.len() > 1 => {
                    w.parties[0].1 = 1u64 << 60;
                    for p in w.parties.iter_mut().skip(1) {
                        p.1 = 1;
                    }
                }
                _ => {}
            }
            w
        },
    )
}

fn enc_strategy() -> impl Strategy<Value = Enc> {
    prop::sample::select(ALL_ENC.to_vec())
}

fn ctx_strategy() -> impl Strategy<Value = Ctx> {
    prop_oneof![
        8 => Just(Ctx::Same),
        1 => (0u64..3).prop_map(Ctx::KPlus),
        1 => (0u64..3).prop_map(Ctx::MMinus),
        1 => (0.01f64..1.0).prop_map(Ctx::OtherPhi),
        1 => Just(Ctx::OtherMsg),
        1 => Just(Ctx::OtherAvk),
    ]
}

fn case_strategy(pool: Vec<Member>) -> impl Strategy<Value = Case> {
    (
        prop::sample::select(pool),
        prop_oneof![1 => Just(vec![]), 8 => prop::collection::vec(mut_strategy(), 1..=1), 3 => prop::collection::vec(mut_strategy(), 2..=3)],
        enc_strategy(),
        ctx_strategy(),
    )
        .prop_map(|((world, msg, kraw), muts, enc, ctx)| Case { world, msg, kraw, muts, enc, ctx })
}

fn batch_strategy(pool: Vec<Member>) -> impl Strategy<Value = BatchCase> {
    let phi1: Vec<Member> = pool.iter().filter(|m| m.0.params.phi >= 1.0).cloned().collect();
    let phi1 = if phi1.is_empty() { pool.clone() } else { phi1 };
    let member = move || prop::sample::select(pool.clone());
    let member_phi1 = move || prop::sample::select(phi1.clone());
    let single_phi1 = (0u64..5000, 1u64..1000, 1u64..12, prop::collection::vec(any::<u8>(), 1..24)).prop_map(|(seed, stake, m, msg)| {
        (
            WorldSpec { params: crate::fixtures::Params { m, k: 1, phi: 1.0 }, parties: vec![(seed, stake)] },
            msg,
            u16::MAX,
        )
    });
    prop_oneof![
        1 => prop::collection::vec(member(), 1..=4).prop_map(|members| BatchCase { members, kind: BatchKind::Honest }),
        5 => (prop::collection::vec(member(), 1..=4), any::<u16>(), prop::collection::vec(mut_strategy(), 1..=2))
            .prop_map(|(members, m, muts)| BatchCase { members, kind: BatchKind::OneMutated { member: m, muts } }),
        2 => (prop::collection::vec(single_phi1, 2..=3), 0u64..1000)
            .prop_map(|(members, seed)| BatchCase { members, kind: BatchKind::CompensatingPair { seed } }),
        1 => (prop::collection::vec(member_phi1(), 2..=3), 0u64..1000)
            .prop_map(|(members, seed)| BatchCase { members, kind: BatchKind::CompensatingPair { seed } }),
    ]
}

pub fn run(args: &Args) -> i32 {
    let mut check = Check::new("C01", "exploration", args);
    check
        .rule("registrations (1..8 parties, equal / random / 2^60-vs-1 stakes, m<=30, phi incl. 1) × honest aggregate × 1..3 grammar mutations of its JSON view (index sets, m-boundary values, not-won indices, signer slots, claimed key/stake, outsider keys with genuine signatures, sigma surgery incl. compensating pairs, batch-path nodes/indices) × wire path (JSON, JSON-hex key, CBOR, bytes-hex key, legacy bytes) × verification context (same, k+, m-, other phi/msg/avk); batches of 1..4 with one mutated member or a compensating pair. Non-trivial = at least one mutation applied (or a foreign verification context) and the object reached decode; distinct by (mutation kinds, wire path, context, n, phi=1?, verdict)")
        .assume("BLS12-381 (blst), Blake2b and the C08 reference lottery are the trusted base; structural adversaries only (no forgeries)")
        .assume("a panic inside verify is counted as 'not accepted' (the statement constrains acceptance only); decoder crashes are C05's subject")
        .require_label("accepted")
        .require_label("rejected")
        .require_label("unmutated")
        .require_label("mut:InsertSpecial:M")
        .require_label("mut:Outsider")
        .require_label("mut:CompensatePair")
        .require_label("mut:WeightedCompensate")
        .require_label("mut:ShadowOutsider")
        .require_label("enc:Legacy")
        .require_label("batch:accepted")
        .require_label("batch:rejected");
    let t = check.tier;
    check.shrink_iters(300);
    let scale = if check.is_replay() { 0 } else { 1 };
    let pool = build_pool(check.seed, scale * t.pick(64, 3000) as usize, 6, 10, check.threads);
    let small_pool = build_pool(vcore::mix(check.seed, 77), scale * t.pick(32, 600) as usize, 3, 6, check.threads);
    check.note_section("pool", json!({"worlds": pool.len(), "batch_worlds": small_pool.len()}));
    if !check.is_replay() && (pool.len() < 8 || small_pool.len() < 4) {
        check.inconclusive("world pool too small".into());
        return check.finish();
    }
    // systematic part: coefficient-cancelling sigma surgery needs phi = 1 (every index stays won) and >= 2 entries;
    // dedicated worlds make sure every derivation is tried on every run
    let mut sys = vec![];
    for n in 2..=4usize {
        for wseed in 0..2u64 {
            let world = WorldSpec {
                params: crate::fixtures::Params { m: 2 * n as u64, k: 1, phi: 1.0 },
                parties: (0..n).map(|i| (9000 + wseed * 10 + i as u64, 5 + i as u64)).collect(),
            };
            for derivation in 0..3u8 {
                for (a, b) in [(0u16, u16::MAX), (u16::MAX, 0u16)] {
                    sys.push(Case {
                        world: world.clone(),
                        msg: vec![n as u8, wseed as u8],
                        kraw: u16::MAX,
                        muts: vec![Mut::WeightedCompensate { a, b, seed: wseed + derivation as u64, derivation }],
                        enc: Enc::Json,
                        ctx: Ctx::Same,
                    });
                }
            }
            sys.push(Case { world: world.clone(), msg: vec![n as u8, wseed as u8], kraw: u16::MAX, muts: vec![Mut::CompensatePair { a: 0, b: u16::MAX, seed: wseed }], enc: Enc::Cbor, ctx: Ctx::Same });
        }
    }
    check.enumerate("systematic-sigma-surgery", sys.into_iter(), false, case_fn);
    check.section("mutations", || case_strategy(pool.clone()), t.pick(24_000, 400_000), case_fn);
    check.section("batch", || batch_strategy(small_pool.clone()), t.pick(4000, 60_000), batch_case);
    check.finish()
}
