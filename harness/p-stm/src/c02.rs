//! C02 — aggregation completeness and monotonicity under extra or repeated signatures.
//!
//! Reference coverage model: U(S) = union of the index sets of the *valid* members of S. |U(S)| >= k ⇒ aggregation
//! succeeds and its result verifies; adding material (copies, index-restricted copies, junk, other messages) in any
//! order never turns success into failure.

use std::collections::BTreeSet;

use mithril_stm::{AggregateSignatureType, AncillaryGenesisData, AncillaryProofInput, Clerk, Parameters, SingleSignature};
use proptest::prelude::*;
use serde::{Deserialize, Serialize};
use vcore::{Args, Check, Report, catch, pick_index};

use crate::blsx;
use crate::c01::{Member, sound_world};
use crate::fixtures::{D, World, WorldSpec};

#[derive(Clone, Debug, Serialize, Deserialize)]
enum Extra {
    /// exact copy of honest signature i
    Copy(u16),
    /// copy of honest signature i restricted to a subset of its indices (bit mask, at least one index kept)
    SubCopy(u16, u32),
    /// signer i's signature on another message
    OtherMsg(u16),
    /// copy of signature i filed under another registered slot
    WrongSlot(u16, u16),
    /// copy of signature i with a signer slot outside the registration (n, n+1, u64::MAX)
    Unregistered(u16, u8),
    /// copy of signature i with one index it did not win
    NotWonIndex(u16, u16),
    /// copy of signature i whose sigma was shifted by a group element
    SigmaDelta(u16, u64),
}

#[derive(Clone, Debug, Serialize, Deserialize)]
struct Case {
    world: WorldSpec,
    msg: Vec<u8>,
    kraw: u16,
    /// which honest signatures form the base set S (bit mask; empty mask = all)
    base_mask: u32,
    /// index-subset restriction applied to base members (per member mask; 0 = keep all)
    base_restrict: Vec<u32>,
    extras: Vec<Extra>,
    /// insertion positions of the extras into S (raw, mapped monotonically)
    positions: Vec<u16>,
    /// a permutation seed for the second ordering
    perm: Vec<u16>,
}

fn extra_name(e: &Extra) -> &'static str {
    match e {
        Extra::Copy(_) => "copy",
        Extra::SubCopy(..) => "subcopy",
        Extra::OtherMsg(_) => "other-msg",
        Extra::WrongSlot(..) => "wrong-slot",
        Extra::Unregistered(..) => "unregistered-slot",
        Extra::NotWonIndex(..) => "not-won-index",
        Extra::SigmaDelta(..) => "sigma-delta",
    }
}

fn restrict(sig: &SingleSignature, mask: u32) -> SingleSignature {
    let idx = sig.get_concatenation_signature_indices();
    if mask == 0 || idx.is_empty() {
        return sig.clone();
    }
    let mut keep: Vec<u64> = idx.iter().enumerate().filter(|(i, _)| mask >> (i % 32) & 1 == 1).map(|(_, v)| *v).collect();
    if keep.is_empty() {
        keep.push(idx[(mask as usize) % idx.len()]);
    }
    let mut s = sig.clone();
    s.set_concatenation_signature_indices(&keep);
    s
}

fn with_sigma(sig: &SingleSignature, sigma: &[u8; 48]) -> Option<SingleSignature> {
    let mut v = serde_json::to_value(sig).ok()?;
    v["sigma"] = crate::wire::json_bytes(sigma);
    serde_json::from_value(v).ok()
}

fn aggregate(clerk: &Clerk<D>, sigs: &[SingleSignature], msg: &[u8]) -> Result<Result<mithril_stm::AggregateSignature<D>, String>, String> {
    catch(|| {
        clerk
            .aggregate_signatures_with_type(sigs, msg, AggregateSignatureType::Concatenation, AncillaryProofInput::new(None, AncillaryGenesisData::new()))
            .map(|(a, _)| a)
            .map_err(|e| format!("{e:#}"))
    })
}

fn case_fn(c: &Case) -> Report {
    let mut rep = Report::new();
    let Some(world) = World::build(&c.world) else {
        rep.discard("invalid world");
        return rep;
    };
    let honest = world.sign_all(&c.msg);
    if honest.is_empty() {
        rep.discard("no honest signature wins an index");
        return rep;
    }
    let vk_stake = |slot: u64| world.signers.iter().find(|s| s.signer_index == slot).map(|s| (s.get_bls_verification_key(), s.get_stake()));
    let base_params = Parameters { m: c.world.params.m, k: 1, phi_f: c.world.params.phi };
    let valid = |s: &SingleSignature, p: &Parameters| -> bool {
        match vk_stake(s.signer_index) {
            Some((vk, stake)) => s.verify(p, &vk, &stake, &world.avk, &c.msg).is_ok(),
            None => false,
        }
    };
    // (i) every honest signature verifies
    for s in &honest {
        if !valid(s, &base_params) {
            rep.violation("honest-signature-rejected", format!("signature of slot {} does not verify; {:?}", s.signer_index, c.world));
            return rep;
        }
    }
    // base set S
    let mut base: Vec<SingleSignature> = honest
        .iter()
        .enumerate()
        .filter(|(i, _)| c.base_mask == 0 || c.base_mask >> (i % 32) & 1 == 1)
        .map(|(i, s)| restrict(s, c.base_restrict.get(i).copied().unwrap_or(0)))
        .collect();
    if base.is_empty() {
        base.push(honest[0].clone());
    }
    let cover = |set: &[SingleSignature], p: &Parameters| -> BTreeSet<u64> {
        set.iter().filter(|s| valid(s, p)).flat_map(|s| s.get_concatenation_signature_indices()).collect()
    };
    let u_base = cover(&base, &base_params);
    // k relative to the base coverage: mostly reachable (k <= |U|), sometimes just above
    let k = match c.kraw % 8 {
        0 => u_base.len() as u64 + 1,
        _ => 1 + pick_index(c.kraw, u_base.len().max(1)) as u64,
    };
    let params = Parameters { m: c.world.params.m, k, phi_f: c.world.params.phi };
    let clerk: Clerk<D> = Clerk::new_clerk_from_closed_key_registration(&params, &world.closed);

    // extras
    let n = world.signers.len() as u64;
    let mut extras = vec![];
    for e in &c.extras {
        let pick = |raw: u16| &honest[pick_index(raw, honest.len())];
        let made: Option<SingleSignature> = match e {
            Extra::Copy(i) => Some(pick(*i).clone()),
            Extra::SubCopy(i, mask) => Some(restrict(pick(*i), *mask | 0x8000_0000)),
            Extra::OtherMsg(i) => {
                let slot = pick(*i).signer_index;
                let signer = world.signers.iter().find(|s| s.signer_index == slot).unwrap();
                let mut other = c.msg.clone();
                other.push(0xa5);
                (0..6u8).find_map(|t| {
                    other.push(t);
                    signer.create_single_signature(&other).ok()
                })
            }
            Extra::WrongSlot(i, j) => {
                if n < 2 {
                    None
                } else {
                    let mut s = pick(*i).clone();
                    let mut slot = pick_index(*j, n as usize) as u64;
                    if slot == s.signer_index {
                        slot = (slot + 1) % n;
                    }
                    s.signer_index = slot;
                    Some(s)
                }
            }
            Extra::Unregistered(i, kind) => {
                let mut s = pick(*i).clone();
                s.signer_index = match kind % 3 {
                    0 => n,
                    1 => n + 1,
                    _ => u64::MAX,
                };
                Some(s)
            }
            Extra::NotWonIndex(i, raw) => {
                let s0 = pick(*i);
                let won: BTreeSet<u64> = s0.get_concatenation_signature_indices().into_iter().collect();
                let not: Vec<u64> = (0..c.world.params.m).filter(|x| !won.contains(x)).collect();
                if not.is_empty() {
                    None
                } else {
                    let mut idx: Vec<u64> = won.iter().copied().collect();
                    idx.push(not[pick_index(*raw, not.len())]);
                    let mut s = s0.clone();
                    s.set_concatenation_signature_indices(&idx);
                    Some(s)
                }
            }
            Extra::SigmaDelta(i, seed) => {
                let s0 = pick(*i);
                let cur = s0.get_concatenation_signature_sigma().to_bytes();
                blsx::sigma_add(&cur, &blsx::delta_point(*seed), false).and_then(|b| with_sigma(s0, &b))
            }
        };
        if let Some(s) = made {
            extras.push((extra_name(e), s));
        }
    }
    // S' = S with the extras inserted at generated positions
    let mut s_prime = base.clone();
    let mut kinds = BTreeSet::new();
    let mut dup_before_original = false;
    for (ei, (name, s)) in extras.iter().enumerate() {
        let raw = c.positions.get(ei).copied().unwrap_or(u16::MAX);
        let pos = pick_index(raw, s_prime.len() + 1);
        if (*name == "copy" || *name == "subcopy") && s_prime.iter().skip(pos).any(|x| x.get_concatenation_signature_sigma() == s.get_concatenation_signature_sigma()) {
            dup_before_original = true;
        }
        s_prime.insert(pos, s.clone());
        kinds.insert(*name);
    }
    // a second ordering of S'
    let mut s_perm = s_prime.clone();
    for (i, r) in c.perm.iter().enumerate() {
        if s_perm.len() > 1 {
            let a = i % s_perm.len();
            let b = pick_index(*r, s_perm.len());
            s_perm.swap(a, b);
        }
    }

    let u_prime = cover(&s_prime, &params);
    let u_s = cover(&base, &params);
    for kname in &kinds {
        rep.label(format!("extra:{kname}"));
    }
    rep.label(if u_s.len() as u64 >= k { "base:reaches-k" } else { "base:below-k" });

    let mut outcomes = vec![];
    for (name, set, u) in [("S", &base, &u_s), ("S'", &s_prime, &u_prime), ("perm(S')", &s_perm, &u_prime)] {
        let res = aggregate(&clerk, set, &c.msg);
        let ok = match &res {
            Err(p) => {
                rep.violation("aggregation-panicked", format!("aggregating {name} panicked: {p}; extras {kinds:?}; {:?}", c.world));
                return rep;
            }
            Ok(Ok(agg)) => {
                // the result must verify
                if u.len() as u64 >= k {
                    if let Err(e) = agg.verify(&c.msg, &world.avk, &params, None, None) {
                        rep.violation("aggregate-does-not-verify", format!("aggregate of {name} does not verify: {e:#}; extras {kinds:?}; {:?}", c.world));
                        return rep;
                    }
                }
                true
            }
            Ok(Err(e)) => {
                if u.len() as u64 >= k {
                    let kind = if e.contains("not registered") || e.contains("Unregistered") || e.contains("unregistered") {
                        "unregistered-index-aborts"
                    } else if kinds.contains("copy") || kinds.contains("subcopy") {
                        "repeated-signature-loses-indices"
                    } else {
                        "other"
                    };
                    rep.violation(
                        format!("complete-but-failed:{kind}"),
                        format!("valid signatures in {name} cover {} >= k={k} distinct indices but aggregation failed: {e}; extras {kinds:?}; {:?}", u.len(), c.world),
                    );
                    return rep;
                }
                if !e.contains("NotEnoughSignatures") && !e.contains("Not enough signatures") {
                    rep.label("failure-other-than-not-enough");
                }
                false
            }
        };
        outcomes.push(ok);
    }
    // metamorphic clauses, stated on the implementation's own outcomes
    if outcomes[0] && !outcomes[1] {
        rep.violation("extra-material-breaks-aggregation", format!("S aggregates but S' = S + {kinds:?} does not; {:?}", c.world));
    }
    if outcomes[1] != outcomes[2] {
        rep.violation("order-dependent", format!("S' aggregates: {} but a permutation of it: {}; extras {kinds:?}; {:?}", outcomes[1], outcomes[2], c.world));
    }
    rep.label(if outcomes[1] { "S':aggregated" } else { "S':not-enough" });
    if !extras.is_empty() && u_s.len() as u64 >= k {
        rep.nontrivial(format!(
            "kinds:{kinds:?} dup-first:{dup_before_original} n:{} base:{} extras:{}",
            world.signers.len().min(6),
            base.len().min(6),
            extras.len().min(5)
        ));
        if dup_before_original {
            rep.label("duplicate-precedes-original");
        }
    }
    rep
}

fn extra_strategy() -> impl Strategy<Value = Extra> {
    let r = any::<u16>();
    prop_oneof![
        3 => r.prop_map(Extra::Copy),
        3 => (r, any::<u32>()).prop_map(|(i, m)| Extra::SubCopy(i, m)),
        2 => r.prop_map(Extra::OtherMsg),
        2 => (r, r).prop_map(|(i, j)| Extra::WrongSlot(i, j)),
        2 => (r, any::<u8>()).prop_map(|(i, k)| Extra::Unregistered(i, k)),
        2 => (r, r).prop_map(|(i, x)| Extra::NotWonIndex(i, x)),
        1 => (r, 0u64..1000).prop_map(|(i, s)| Extra::SigmaDelta(i, s)),
    ]
}

fn case_strategy(pool: Vec<Member>) -> impl Strategy<Value = Case> {
    (
        prop::sample::select(pool),
        any::<u16>(),
        prop_oneof![3 => Just(0u32), 1 => any::<u32>()],
        prop::collection::vec(prop_oneof![3 => Just(0u32), 1 => any::<u32>()], 0..6),
        prop::collection::vec(extra_strategy(), 0..6),
        prop::collection::vec(any::<u16>(), 6),
        prop::collection::vec(any::<u16>(), 0..6),
    )
        .prop_map(|((world, msg, _), kraw, base_mask, base_restrict, extras, positions, perm)| Case {
            world,
            msg,
            kraw,
            base_mask,
            base_restrict,
            extras,
            positions,
            perm,
        })
}

/// per-run pool of (world, message) in which at least one honest signer wins an index — built without calling the
/// aggregation under test
fn build_pool(seed: u64, size: usize, max_n: usize, max_m: u64, threads: usize) -> Vec<Member> {
    let specs: Vec<Member> = (0..size)
        .map(|i| {
            vcore::sample_one(
                &(sound_world(max_n, max_m), prop::collection::vec(any::<u8>(), 0..40), any::<u16>()),
                vcore::mix(seed, 0xC02 + i as u64),
            )
        })
        .collect();
    let keep: Vec<std::sync::Mutex<bool>> = specs.iter().map(|_| std::sync::Mutex::new(false)).collect();
    let next = std::sync::atomic::AtomicUsize::new(0);
    std::thread::scope(|sc| {
        for _ in 0..threads.max(1) {
            sc.spawn(|| loop {
                let i = next.fetch_add(1, std::sync::atomic::Ordering::Relaxed);
                if i >= specs.len() {
                    break;
                }
                let ok = World::build(&specs[i].0).map(|w| !w.sign_all(&specs[i].1).is_empty()).unwrap_or(false);
                *keep[i].lock().unwrap() = ok;
            });
        }
    });
    specs.into_iter().zip(keep).filter(|(_, k)| *k.lock().unwrap()).map(|(s, _)| s).collect()
}

// ----------------------------------------------------------------------- through mithril-common's MultiSigner

mod node_path {
    use std::collections::{BTreeMap, BTreeSet};
    use std::sync::{Mutex, OnceLock};

    use mithril_common::entities::{ProtocolMessage, ProtocolMessagePartKey, ProtocolParameters, SingleSignature};
    use mithril_common::protocol::{SignerBuilder, ToMessage};
    use mithril_common::test::builder::{MithrilFixture, MithrilFixtureBuilder};
    use mithril_stm::{AggregateSignatureType, AncillaryGenesisData, AncillaryProofInput};
    use proptest::prelude::*;
    use serde::{Deserialize, Serialize};
    use vcore::{Report, catch, pick_index};

    const M: u64 = 24;
    const PHI: f64 = 0.8;

    #[derive(Clone, Debug, Serialize, Deserialize)]
    pub enum Extra {
        Copy(u16),
        /// party i's signature for another message, sent under its own name
        OtherMsg(u16),
        /// signature i filed under the name of party j
        Relabel(u16, u16),
        /// copy restricted to a subset of its indices
        SubCopy(u16, u32),
    }

    #[derive(Clone, Debug, Serialize, Deserialize)]
    pub struct Case {
        msg_id: u8,
        kraw: u16,
        base_mask: u16,
        extras: Vec<Extra>,
        positions: Vec<u16>,
        perm: Vec<u16>,
    }

    pub fn fixture() -> &'static MithrilFixture {
        static F: OnceLock<MithrilFixture> = OnceLock::new();
        F.get_or_init(|| MithrilFixtureBuilder::default().with_signers(6).with_protocol_parameters(ProtocolParameters::new(1, M, PHI)).build())
    }

    fn message(id: u8) -> ProtocolMessage {
        let mut m = ProtocolMessage::new();
        m.set_message_part(ProtocolMessagePartKey::SnapshotDigest, format!("{:064x}", id as u64 + 1));
        m
    }

    fn honest(id: u8) -> Vec<SingleSignature> {
        static CACHE: OnceLock<Mutex<BTreeMap<u8, Vec<SingleSignature>>>> = OnceLock::new();
        let c = CACHE.get_or_init(Default::default);
        if let Some(v) = c.lock().unwrap().get(&id) {
            return v.clone();
        }
        let v = fixture().sign_all(&message(id));
        c.lock().unwrap().insert(id, v.clone());
        v
    }

    fn indices(s: &SingleSignature) -> Vec<u64> {
        s.to_protocol_signature().get_concatenation_signature_indices()
    }

    pub fn case_fn(c: &Case) -> Report {
        let mut rep = Report::new();
        let id = c.msg_id % 8;
        let msg = message(id);
        let all = honest(id);
        if all.is_empty() {
            rep.discard("nobody wins");
            return rep;
        }
        let mut base: Vec<SingleSignature> = all.iter().enumerate().filter(|(i, _)| c.base_mask == 0 || c.base_mask >> (i % 16) & 1 == 1).map(|(_, s)| s.clone()).collect();
        if base.is_empty() {
            base.push(all[0].clone());
        }
        let u_base: BTreeSet<u64> = base.iter().flat_map(indices).collect();
        let k = match c.kraw % 8 {
            0 => u_base.len() as u64 + 1,
            _ => 1 + pick_index(c.kraw, u_base.len().max(1)) as u64,
        };
        let pp = ProtocolParameters::new(k, M, PHI);
        let Ok(sb) = SignerBuilder::new(&fixture().signers_with_stake(), &pp) else {
            rep.violation("node:signer-builder", "SignerBuilder::new failed on the fixture".to_string());
            return rep;
        };
        let ms = sb.build_multi_signer();
        let avk = ms.compute_aggregate_verification_key();
        let pick = |raw: u16| &all[pick_index(raw, all.len())];
        let mut extras: Vec<(&'static str, SingleSignature)> = vec![];
        for e in &c.extras {
            match e {
                Extra::Copy(i) => extras.push(("copy", pick(*i).clone())),
                Extra::OtherMsg(i) => {
                    let party = &pick(*i).party_id;
                    let other = honest((id + 1) % 8);
                    if let Some(s) = other.iter().find(|s| &s.party_id == party) {
                        extras.push(("other-msg", s.clone()));
                    }
                }
                Extra::Relabel(i, j) => {
                    let mut s = pick(*i).clone();
                    let other = &fixture().signers_with_stake()[pick_index(*j, 6)].party_id;
                    if &s.party_id != other {
                        s.party_id = other.clone();
                        extras.push(("relabel", s));
                    }
                }
                Extra::SubCopy(i, mask) => {
                    let s0 = pick(*i);
                    let idx = indices(s0);
                    let mut keep: Vec<u64> = idx.iter().enumerate().filter(|(p, _)| mask >> (p % 32) & 1 == 1).map(|(_, v)| *v).collect();
                    if keep.is_empty() {
                        keep.push(idx[0]);
                    }
                    let mut inner = s0.to_protocol_signature();
                    inner.set_concatenation_signature_indices(&keep);
                    let mut s = s0.clone();
                    s.signature = inner.into();
                    s.won_indexes = keep;
                    extras.push(("subcopy", s));
                }
            }
        }
        let mut s_prime = base.clone();
        let mut kinds = BTreeSet::new();
        for (ei, (name, s)) in extras.iter().enumerate() {
            let pos = pick_index(c.positions.get(ei).copied().unwrap_or(u16::MAX), s_prime.len() + 1);
            s_prime.insert(pos, s.clone());
            kinds.insert(*name);
        }
        let mut s_perm = s_prime.clone();
        for (i, r) in c.perm.iter().enumerate() {
            if s_perm.len() > 1 {
                let a = i % s_perm.len();
                let b = pick_index(*r, s_perm.len());
                s_perm.swap(a, b);
            }
        }
        let cover = |set: &[SingleSignature]| -> BTreeSet<u64> { set.iter().filter(|s| ms.verify_single_signature(&msg, s).is_ok()).flat_map(indices).collect() };
        let mut outcomes = vec![];
        for (name, set) in [("S", &base), ("S'", &s_prime), ("perm(S')", &s_perm)] {
            let u = cover(set);
            let res = catch(|| {
                ms.aggregate_single_signatures(set, &msg, AggregateSignatureType::Concatenation, AncillaryProofInput::new(None, AncillaryGenesisData::new()))
                    .map_err(|e| format!("{e:#}"))
            });
            match res {
                Err(p) => {
                    rep.violation("node:aggregation-panicked", format!("{name}: {p}"));
                    return rep;
                }
                Ok(Ok(m)) => {
                    if u.len() as u64 >= k {
                        if let Err(e) = m.multi_signature.verify(msg.to_message().as_bytes(), &avk, &pp.clone().into(), None, None) {
                            rep.violation("node:aggregate-does-not-verify", format!("MultiSigner aggregate of {name} does not verify: {e:#}; extras {kinds:?}"));
                            return rep;
                        }
                    }
                    outcomes.push(true);
                }
                Ok(Err(e)) => {
                    if u.len() as u64 >= k {
                        rep.violation(
                            "node:complete-but-failed",
                            format!("MultiSigner: valid signatures in {name} cover {} >= k={k} indices but aggregation failed: {e}; extras {kinds:?}; msg {id} base {:#x}", u.len(), c.base_mask),
                        );
                        return rep;
                    }
                    outcomes.push(false);
                }
            }
        }
        if outcomes[0] && !outcomes[1] {
            rep.violation("node:extra-material-breaks-aggregation", format!("S aggregates but S' = S + {kinds:?} does not"));
        }
        if outcomes[1] != outcomes[2] {
            rep.violation("node:order-dependent", format!("S' aggregates: {} but a permutation: {}; extras {kinds:?}", outcomes[1], outcomes[2]));
        }
        for kname in &kinds {
            rep.label(format!("node-extra:{kname}"));
        }
        rep.label("node-path");
        if !extras.is_empty() && outcomes[0] {
            rep.nontrivial(format!("node kinds:{kinds:?} base:{} extras:{} msg:{id}", base.len(), extras.len()));
        }
        rep
    }

    pub fn strategy() -> impl Strategy<Value = Case> {
        let r = any::<u16>();
        let extra = prop_oneof![
            3 => r.prop_map(Extra::Copy),
            3 => r.prop_map(Extra::OtherMsg),
            2 => (r, r).prop_map(|(i, j)| Extra::Relabel(i, j)),
            2 => (r, any::<u32>()).prop_map(|(i, m)| Extra::SubCopy(i, m)),
        ];
        (any::<u8>(), r, prop_oneof![2 => Just(0u16), 1 => r], prop::collection::vec(extra, 0..5), prop::collection::vec(r, 5), prop::collection::vec(r, 0..5))
            .prop_map(|(msg_id, kraw, base_mask, extras, positions, perm)| Case { msg_id, kraw, base_mask, extras, positions, perm })
    }
}

pub fn run(args: &Args) -> i32 {
    let mut check = Check::new("C02", "exploration", args);
    check
        .rule("worlds from a per-run pool (1..6 parties, m<=10, phi incl. 1, skewed stakes) × base set S (subset of the honest signatures, optionally index-restricted) × 0..5 extras (exact copies, index-restricted copies, other-message signatures, wrong/unregistered slots, not-won indices, shifted sigma) inserted at generated positions × a second ordering; k chosen relative to the base coverage. Non-trivial = S' contains at least one extra and the valid members of S cover >= k indices; distinct by (kinds of extras, duplicate-before-original, n, |S|, #extras)")
        .assume("validity of a single signature = SingleSignature::verify under the party registered at its slot (its soundness is C01/C08's subject)")
        .require_label("extra:copy")
        .require_label("extra:subcopy")
        .require_label("extra:unregistered-slot")
        .require_label("extra:other-msg")
        .require_label("duplicate-precedes-original")
        .require_label("base:below-k")
        .require_label("S':aggregated")
        .require_label("node-path")
        .require_label("node-extra:other-msg")
        .require_label("node-extra:relabel");
    let t = check.tier;
    check.shrink_iters(300);
    let scale = if check.is_replay() { 0 } else { 1 };
    let pool = build_pool(vcore::mix(check.seed, 0xC02), scale * t.pick(48, 1500) as usize, 6, 10, check.threads);
    if !check.is_replay() && pool.len() < 8 {
        check.inconclusive("world pool too small".into());
        return check.finish();
    }
    check.section("multisets", || case_strategy(pool.clone()), t.pick(8000, 200_000), case_fn);
    // the same laws through mithril-common's MultiSigner (what the aggregator calls), on KES-certified fixture signers
    if !check.is_replay() {
        let _ = node_path::fixture();
    }
    check.section("multi-signer", node_path::strategy, t.pick(1500, 40_000), node_path::case_fn);
    check.finish()
}
