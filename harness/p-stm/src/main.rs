// The working tree's eligibility.rs is compiled into this binary (crate-private pure function, see DESIGN.md C08).
pub type PhiFValue = f64;
pub type Stake = u64;

macro_rules! cfg_num_integer {
    ($($item:item)*) => { $( $item )* };
}
macro_rules! cfg_rug {
    ($($item:item)*) => {};
}

#[allow(dead_code, unused_imports, clippy::all)]
#[path = "/repo/mithril-stm/src/proof_system/concatenation/eligibility.rs"]
mod elig;

mod alloc_track;
mod blsx;
mod c01;
mod c02;
mod c05;
mod c06;
mod c08;
mod c09;
mod mkproof_oracle;
mod entry;
mod wire;
mod fixtures;
mod lottery_ref;

#[global_allocator]
static GLOBAL: alloc_track::Tracking = alloc_track::Tracking;

fn main() {
    let args = vcore::parse_args();
    let which = args.rest.first().cloned().unwrap_or_default();
    let code = match which.as_str() {
        "C01" => c01::run(&args),
        "C02" => c02::run(&args),
        "C05" => c05::run(&args),
        "C06" => c06::run(&args),
        "C08" => c08::run(&args),
        "C09" => c09::run(&args),
        "C05-corpus" => c05::dump_corpus(args.rest.get(1).map(|s| s.as_str()).unwrap_or("/verif/harness/fuzz/corpus")),
        "C05-raw" => c05::raw_one(args.rest.get(1).map(|s| s.as_str()).unwrap_or(""), args.rest.get(2).map(|s| s.as_str()).unwrap_or("")),
        "C09-corpus" => {
            // development aid / thorough tier helper: write the seed corpus of the fuzz_mkproof target
            let dir = std::path::PathBuf::from(args.rest.get(1).map(|s| s.as_str()).unwrap_or("/verif/harness/fuzz/corpus/fuzz_mkproof"));
            let _ = std::fs::create_dir_all(&dir);
            mkproof_oracle::write_corpus(&dir);
            0
        }
        "C08-timing" => {
            c08::timing();
            0
        }
        other => {
            eprintln!("p-stm: unknown property '{other}'");
            2
        }
    };
    std::process::exit(code);
}
