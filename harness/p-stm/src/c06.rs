//! C06 — all parties derive the same aggregate key from the same registrations.
//!
//! Differential between computation paths and registration orders:
//!  (a) mithril_stm::KeyRegistration → Clerk                          (the library)
//!  (b) mithril_common::protocol::SignerBuilder                       (signer / aggregator nodes)
//!  (c) mithril_client::MessageBuilder::compute_mithril_stake_distribution_message on the JSON round-tripped
//!      stake-distribution message                                      (client re-computation)
//! plus encode/decode round trips of the inputs and of the resulting key, and metamorphic distinctness.

use std::collections::BTreeMap;
use std::sync::OnceLock;

use mithril_client::MessageBuilder;
use mithril_common::crypto_helper::{ProtocolInitializer, ProtocolKey};
use mithril_common::entities::{ProtocolMessage, ProtocolMessagePartKey, ProtocolParameters, SignerWithStake};
use mithril_common::messages::{CertificateMessage, MithrilStakeDistributionMessage, SignerWithStakeMessagePart};
use mithril_common::protocol::SignerBuilder;
use mithril_common::test::builder::{MithrilFixture, MithrilFixtureBuilder};
use mithril_common::test::double::Dummy;
use mithril_stm::{AggregateVerificationKeyForConcatenation, Clerk, KeyRegistration, Parameters};
use proptest::prelude::*;
use serde::{Deserialize, Serialize};
use serde_json::Value;
use vcore::{Args, Check, Report, catch, pick_index};

use crate::fixtures::D;

const POOL: usize = 12;

#[derive(Clone, Debug, Serialize, Deserialize)]
enum Meta {
    None,
    Remove(u16),
    StakePlus(u16),
    StakeMinus(u16),
    SwapStakes(u16, u16),
}

#[derive(Clone, Debug, Serialize, Deserialize)]
struct Case {
    mask: u16,
    stakes: Vec<u64>,
    perm_a: Vec<u16>,
    perm_b: Vec<u16>,
    perm_c: Vec<u16>,
    m: u64,
    k: u64,
    phi: f64,
    meta: Meta,
    signer_pick: u16,
    /// rejected registration attempts (an already registered key offered again, with the same or another stake)
    /// interleaved with the arrivals of path (a): (after how many arrivals, which registered party, stake delta)
    #[serde(default)]
    dup_attempts: Vec<(u16, u16, u8)>,
    /// one more claimant: the party picked by .1 (not in the set) certifies the KEY of the set member picked by .0 with
    /// its own KES key and operational certificate, with the stake .2 - a second pool claiming a registered key
    #[serde(default)]
    claimant: Option<(u16, u16, u64)>,
    /// one more registered party (library path) whose key is RELATED to the key of the set member picked by .0: the
    /// opposite point (secret key r - sk, with its own valid proof of possession), i.e. a different key whose
    /// compressed encoding differs from the member's in one flag bit only; .1: same stake as the member, or another
    #[serde(default)]
    opposite: Option<(u16, bool)>,
}

/// order of the BLS12-381 scalar field, big endian
const SCALAR_FIELD_ORDER: [u8; 32] = [
    0x73, 0xed, 0xa7, 0x53, 0x29, 0x9d, 0x7d, 0x48, 0x33, 0x39, 0xd8, 0x08, 0x09, 0xa1, 0xd8, 0x05, 0x53, 0xbd, 0xa4, 0x02, 0xff, 0xfe, 0x5b, 0xfe, 0xff, 0xff, 0xff, 0xff, 0x00, 0x00,
    0x00, 0x01,
];

/// the verification key (with proof of possession) of the secret key r - sk, sk being the fixture party's secret key
fn opposite_key(party_id: &str) -> Option<mithril_stm::VerificationKeyProofOfPossessionForConcatenation> {
    let fx = fixture();
    let sf = fx.signers_fixture().into_iter().find(|s| s.signer_with_stake.party_id == party_id)?;
    let mut json = serde_json::to_value(&sf.protocol_initializer).ok()?;
    let inner = json.get_mut("stm_initializer")?;
    let init: mithril_stm::Initializer = serde_json::from_value(inner.clone()).ok()?;
    let bytes = init.bls_signing_key.to_bytes();
    let mut negated = [0u8; 32];
    let mut borrow = 0i16;
    for i in (0..32).rev() {
        let mut diff = SCALAR_FIELD_ORDER[i] as i16 - bytes[i] as i16 - borrow;
        if diff < 0 {
            diff += 256;
            borrow = 1;
        } else {
            borrow = 0;
        }
        negated[i] = diff as u8;
    }
    inner["sk"] = serde_json::to_value(negated.to_vec()).ok()?;
    let opposite: mithril_stm::Initializer = serde_json::from_value(inner.clone()).ok()?;
    Some(mithril_stm::VerificationKeyProofOfPossessionForConcatenation::from(&opposite.bls_signing_key))
}

/// library path over raw (key, stake) entries: (avk view, total stake, number of signer slots)
fn path_a_raw(entries: &[(mithril_stm::VerificationKeyProofOfPossessionForConcatenation, u64)], params: &Parameters) -> Result<(Value, u64, usize), String> {
    let mut reg = KeyRegistration::initialize();
    for (vk, stake) in entries {
        reg.register(*stake, vk).map_err(|e| format!("register: {e:#}"))?;
    }
    let closed = reg.close_registration(params).map_err(|e| format!("close: {e:#}"))?;
    let slots = closed.closed_registration_entries.len();
    let clerk: Clerk<D> = Clerk::new_clerk_from_closed_key_registration(params, &closed);
    let avk = clerk.compute_aggregate_verification_key();
    let concat = avk.to_concatenation_aggregate_verification_key();
    Ok((avk_view(concat), concat.get_total_stake(), slots))
}

fn fixture() -> &'static MithrilFixture {
    static F: OnceLock<MithrilFixture> = OnceLock::new();
    F.get_or_init(|| MithrilFixtureBuilder::default().with_signers(POOL).build())
}

fn permute<T: Clone>(v: &[T], perm: &[u16]) -> Vec<T> {
    let mut out = v.to_vec();
    for (i, r) in perm.iter().enumerate() {
        if out.len() > 1 {
            let a = i % out.len();
            let b = pick_index(*r, out.len());
            out.swap(a, b);
        }
    }
    out
}

fn avk_view(avk: &AggregateVerificationKeyForConcatenation<D>) -> Value {
    serde_json::to_value(avk).unwrap()
}

/// path (a): the library, registrations arriving in the given order. Returns (avk view, slot per party id)
fn path_a(signers: &[SignerWithStake], params: &Parameters) -> Result<(Value, BTreeMap<String, u64>, u64), String> {
    let mut reg = KeyRegistration::initialize();
    for s in signers {
        let vk_pop = *s.verification_key_for_concatenation;
        reg.register(s.stake, &vk_pop).map_err(|e| format!("register: {e:#}"))?;
    }
    let closed = reg.close_registration(params).map_err(|e| format!("close: {e:#}"))?;
    let clerk: Clerk<D> = Clerk::new_clerk_from_closed_key_registration(params, &closed);
    let avk = clerk.compute_aggregate_verification_key();
    let concat = avk.to_concatenation_aggregate_verification_key();
    let mut slots = BTreeMap::new();
    for s in signers {
        let vk = s.verification_key_for_concatenation.vk;
        let slot = closed
            .closed_registration_entries
            .iter()
            .position(|e| e.get_verification_key_for_concatenation() == vk && e.get_stake() == s.stake)
            .ok_or("party not in closed registration")?;
        slots.insert(s.party_id.clone(), slot as u64);
    }
    Ok((avk_view(concat), slots, concat.get_total_stake()))
}

/// path (a) with rejected attempts in the arrival history: the set of registered pairs is the same
fn path_a_with_attempts(signers: &[SignerWithStake], attempts: &[(u16, u16, u8)], params: &Parameters) -> Result<(Value, u64, usize), String> {
    let mut reg = KeyRegistration::initialize();
    let mut rejected = 0;
    for (i, s) in signers.iter().enumerate() {
        reg.register(s.stake, &s.verification_key_for_concatenation).map_err(|e| format!("register: {e:#}"))?;
        for (after, who, delta) in attempts {
            if pick_index(*after, signers.len()) == i {
                let again = &signers[pick_index(*who, i + 1)];
                match reg.register(again.stake.saturating_add(*delta as u64), &again.verification_key_for_concatenation) {
                    Err(_) => rejected += 1,
                    Ok(_) => return Err(format!("a key that is already registered was registered again (stake +{delta})")),
                }
            }
        }
    }
    let closed = reg.close_registration(params).map_err(|e| format!("close: {e:#}"))?;
    let clerk: Clerk<D> = Clerk::new_clerk_from_closed_key_registration(params, &closed);
    let avk = clerk.compute_aggregate_verification_key();
    let concat = avk.to_concatenation_aggregate_verification_key();
    Ok((avk_view(concat), concat.get_total_stake(), rejected))
}

/// a second pool claiming the key of `owner`: `claimer`'s identity (party id, operational certificate, KES key) with a
/// KES signature of its own over the owner's verification key + proof of possession
fn claim_key(owner: &SignerWithStake, claimer_party: &str, stake: u64) -> Option<SignerWithStake> {
    use mithril_common::crypto_helper::{KesPeriod, KesSigner, KesSignerStandard};
    let fx = fixture();
    let cf = fx.signers_fixture().into_iter().find(|s| s.signer_with_stake.party_id == claimer_party)?;
    let kes_sk = cf.kes_secret_key_path.clone()?;
    let opcert_path = cf.operational_certificate_path.clone()?;
    let signer = KesSignerStandard::new(kes_sk, opcert_path);
    let (sig, _) = signer.sign(&owner.verification_key_for_concatenation.to_bytes(), KesPeriod(0)).ok()?;
    let mut s = cf.signer_with_stake.clone();
    s.verification_key_for_concatenation = owner.verification_key_for_concatenation;
    s.verification_key_signature_for_concatenation = Some(sig.into());
    s.stake = stake;
    Some(s)
}

fn roundtrip_signers(signers: &[SignerWithStake]) -> Result<Vec<SignerWithStake>, String> {
    let parts = SignerWithStakeMessagePart::from_signers(signers.to_vec());
    let txt = serde_json::to_string(&parts).map_err(|e| e.to_string())?;
    let back: Vec<SignerWithStakeMessagePart> = serde_json::from_str(&txt).map_err(|e| e.to_string())?;
    SignerWithStakeMessagePart::try_into_signers(back).map_err(|e| format!("{e:#}"))
}

fn path_b(signers: &[SignerWithStake], pp: &ProtocolParameters) -> Result<(Value, SignerBuilder), String> {
    let sb = SignerBuilder::new(signers, pp).map_err(|e| format!("SignerBuilder: {e:#}"))?;
    let avk = sb.compute_aggregate_verification_key();
    Ok((avk_view(avk.to_concatenation_aggregate_verification_key()), sb))
}

fn path_c(signers: &[SignerWithStake], pp: &ProtocolParameters) -> Result<Value, String> {
    let msg = MithrilStakeDistributionMessage {
        signers_with_stake: SignerWithStakeMessagePart::from_signers(signers.to_vec()),
        protocol_parameters: pp.clone(),
        ..MithrilStakeDistributionMessage::dummy()
    };
    // through the wire
    let txt = serde_json::to_string(&msg).map_err(|e| e.to_string())?;
    let msg: MithrilStakeDistributionMessage = serde_json::from_str(&txt).map_err(|e| e.to_string())?;
    let cert = CertificateMessage { protocol_message: ProtocolMessage::new(), ..CertificateMessage::dummy() };
    // one long-lived builder per worker thread (as a client application would keep it), and all messages carry the
    // same announced `hash` field: the recomputation must depend on the signers actually listed, not on any memo
    thread_local! {
        static BUILDER: MessageBuilder = MessageBuilder::new();
    }
    let pm = BUILDER.with(|b| b.compute_mithril_stake_distribution_message(&cert, &msg)).map_err(|e| format!("client: {e:#}"))?;
    let enc = pm.get_message_part(&ProtocolMessagePartKey::NextAggregateVerificationKey).ok_or("no avk part")?;
    let key = ProtocolKey::<AggregateVerificationKeyForConcatenation<D>>::try_from(enc.as_str()).map_err(|e| format!("avk decode: {e:#}"))?;
    Ok(avk_view(&key))
}

thread_local! {
    static CLAIM_SEEN: std::cell::Cell<bool> = const { std::cell::Cell::new(false) };
}
fn return_label_claim() {
    CLAIM_SEEN.with(|c| c.set(true));
}

fn case_fn(c: &Case) -> Report {
    CLAIM_SEEN.with(|c| c.set(false));
    let mut rep = Report::new();
    let fx = fixture();
    let all = fx.signers_with_stake();
    let mut base: Vec<SignerWithStake> = vec![];
    for (i, s) in all.iter().enumerate() {
        if c.mask >> i & 1 == 1 {
            let mut s = s.clone();
            s.stake = c.stakes.get(i).copied().unwrap_or(1);
            base.push(s);
        }
    }
    if base.is_empty() {
        base.push(all[0].clone());
    }
    // (the protocol cannot run with a total stake of zero: documented precondition of close_registration)
    if base.iter().all(|s| s.stake == 0) {
        base[0].stake = 1;
    }
    let n = base.len();
    let params = Parameters { m: c.m, k: c.k.min(c.m).max(1), phi_f: c.phi };
    let pp = ProtocolParameters::new(params.k, params.m, params.phi_f);
    let sum: Option<u64> = base.iter().try_fold(0u64, |a, s| a.checked_add(s.stake));
    let Some(sum) = sum else {
        rep.discard("total stake overflows");
        return rep;
    };
    let equal_pairs = {
        let mut st: Vec<u64> = base.iter().map(|s| s.stake).collect();
        st.sort();
        st.windows(2).filter(|w| w[0] == w[1]).count()
    };
    rep.label(format!("n={n}"));
    if equal_pairs > 0 {
        rep.label("equal-stakes");
    }

    let run = catch(|| -> Result<(), (String, String)> {
        let fail = |k: &str, w: String| (k.to_string(), w);
        let order_a = permute(&base, &c.perm_a);
        let order_b = permute(&base, &c.perm_b);
        let order_c = permute(&base, &c.perm_c);
        let (avk_ref, slots_ref, total) = path_a(&base, &params).map_err(|e| fail("path-failed", format!("(a) identity order: {e}")))?;
        if total != sum {
            return Err(fail("total-stake", format!("total stake {total} != sum of stakes {sum}")));
        }
        // (a) under another arrival order
        let (avk_a, slots_a, _) = path_a(&order_a, &params).map_err(|e| fail("path-failed", format!("(a): {e}")))?;
        if avk_a != avk_ref {
            return Err(fail("order-dependent:stm", format!("library AVK differs between two registration orders: {avk_ref} vs {avk_a}")));
        }
        if slots_a != slots_ref {
            return Err(fail("order-dependent:slots", format!("signer slots differ between two registration orders: {slots_ref:?} vs {slots_a:?}")));
        }
        // (a) with rejected attempts interleaved: same set of registered pairs, same key and total
        if !c.dup_attempts.is_empty() {
            let (avk_d, total_d, rejected) = path_a_with_attempts(&order_a, &c.dup_attempts, &params).map_err(|e| fail("duplicate-key-registered", format!("(a) with attempts: {e}")))?;
            if rejected > 0 && (avk_d != avk_ref || total_d != sum) {
                return Err(fail("history-dependent:rejected-attempts", format!("{rejected} rejected registration attempt(s) changed the result: total stake {total_d} (sum of registered stakes {sum}), key {avk_d} vs {avk_ref}")));
            }
        }
        // a registered party whose key is the opposite point of a set member's key: n + 1 distinct keys, n + 1 slots, the
        // sum of the n + 1 stakes, and one aggregate key whatever the arrival order
        if let Some((who, same_stake)) = &c.opposite {
            let member = &base[pick_index(*who, n)];
            if let Some(opp) = opposite_key(&member.party_id) {
                let stake = if *same_stake { member.stake } else { member.stake / 2 + 1 };
                if let Some(want_total) = sum.checked_add(stake) {
                    let mut entries: Vec<(mithril_stm::VerificationKeyProofOfPossessionForConcatenation, u64)> = base.iter().map(|s| (*s.verification_key_for_concatenation, s.stake)).collect();
                    entries.push((opp, stake));
                    let mut front = vec![(opp, stake)];
                    front.extend(entries[..n].iter().cloned());
                    let mut seen: Option<(Value, u64, usize)> = None;
                    for order in [entries.clone(), front, permute(&entries, &c.perm_a), permute(&entries, &c.perm_b)] {
                        let got = path_a_raw(&order, &params).map_err(|e| fail("path-failed", format!("(a) with an opposite key: {e}")))?;
                        if got.1 != want_total || got.2 != n + 1 {
                            return Err(fail("related-key:party-lost", format!("{} distinct keys registered (one is the opposite point of another, stake {stake}): {} signer slots, total stake {} (expected {} and {want_total})", n + 1, got.2, got.1, n + 1)));
                        }
                        match &seen {
                            None => seen = Some(got),
                            Some(first) if *first != got => return Err(fail("order-dependent:related-key", format!("the same {} registrations (one key is the opposite point of another) give different aggregate keys in different arrival orders", n + 1))),
                            _ => {}
                        }
                    }
                }
            }
        }
        // a second pool claiming a registered key: whatever the node path does with it (the unchanged code refuses the
        // whole list), it does the same in every order
        if let Some((owner, claimer, stake)) = &c.claimant {
            let owner = &base[pick_index(*owner, n)];
            let outsiders: Vec<&SignerWithStake> = all.iter().filter(|s| !base.iter().any(|b| b.party_id == s.party_id)).collect();
            if !outsiders.is_empty() {
                let claimer = outsiders[pick_index(*claimer, outsiders.len())];
                if let Some(second) = claim_key(owner, &claimer.party_id, *stake) {
                    let mut first = base.clone();
                    first.push(second.clone());
                    let mut outcomes = vec![];
                    for order in [first.clone(), { let mut v = vec![second.clone()]; v.extend(base.clone()); v }, permute(&first, &c.perm_a), permute(&first, &c.perm_b)] {
                        outcomes.push(match path_b(&order, &pp) {
                            Ok((avk, _)) => format!("{avk}"),
                            Err(_) => "refused".to_string(),
                        });
                    }
                    if outcomes.iter().any(|o| o != &outcomes[0]) {
                        let kinds: Vec<&str> = outcomes.iter().map(|o| if o == "refused" { "refused" } else { "key" }).collect();
                        return Err(fail("order-dependent:key-claimed-twice", format!("a list in which {} also claims the key of {} gives different results in different orders: {kinds:?} ({} distinct)", second.party_id, owner.party_id, outcomes.iter().collect::<std::collections::BTreeSet<_>>().len())));
                    }
                    return_label_claim();
                }
            }
        }
        // (b) node path on JSON round-tripped signers
        let rt = roundtrip_signers(&order_b).map_err(|e| fail("path-failed", format!("signer list round trip: {e}")))?;
        let (avk_b, sb) = path_b(&rt, &pp).map_err(|e| fail("path-failed", format!("(b): {e}")))?;
        if avk_b != avk_ref {
            return Err(fail("path-dependent:signer-builder", format!("SignerBuilder AVK {avk_b} != library AVK {avk_ref}")));
        }
        // (c) client re-computation
        let avk_c = path_c(&order_c, &pp).map_err(|e| fail("path-failed", format!("(c): {e}")))?;
        if avk_c != avk_ref {
            return Err(fail("path-dependent:client", format!("client AVK {avk_c} != library AVK {avk_ref}")));
        }
        // encodings of the resulting key
        let key: AggregateVerificationKeyForConcatenation<D> = serde_json::from_value(avk_ref.clone()).map_err(|e| fail("avk-roundtrip", e.to_string()))?;
        let hex = ProtocolKey::new(key.clone()).to_json_hex().map_err(|e| fail("avk-roundtrip", format!("{e:#}")))?;
        let back = ProtocolKey::<AggregateVerificationKeyForConcatenation<D>>::from_json_hex(&hex).map_err(|e| fail("avk-roundtrip", format!("{e:#}")))?;
        if avk_view(&back) != avk_ref {
            return Err(fail("avk-roundtrip", "json-hex round trip changes the key".into()));
        }
        let bytes = key.to_bytes().map_err(|e| fail("avk-roundtrip", format!("{e:#}")))?;
        let back = AggregateVerificationKeyForConcatenation::<D>::from_bytes(&bytes).map_err(|e| fail("avk-roundtrip", format!("{e:#}")))?;
        if avk_view(&back) != avk_ref {
            return Err(fail("avk-roundtrip", "bytes round trip changes the key".into()));
        }
        // a signature made by the node-path signer of one party carries the slot of the library path and verifies
        // under the library key
        let p = &base[pick_index(c.signer_pick, n)];
        let sf = fx.signers_fixture().into_iter().find(|s| s.signer_with_stake.party_id == p.party_id).ok_or_else(|| fail("harness", "fixture".into()))?;
        let mut iv = serde_json::to_value(&sf.protocol_initializer).map_err(|e| fail("harness", e.to_string()))?;
        iv["stm_initializer"]["stake"] = Value::from(p.stake);
        iv["stm_initializer"]["params"] = serde_json::to_value(params).unwrap();
        let init: ProtocolInitializer = serde_json::from_value(iv).map_err(|e| fail("harness", format!("initializer: {e}")))?;
        let single = sb.restore_signer_from_initializer(p.party_id.clone(), init).map_err(|e| fail("path-failed", format!("restore signer: {e:#}")))?;
        let message = ProtocolMessage::new();
        if let Some(sig) = single.sign(&message).map_err(|e| fail("path-failed", format!("sign: {e:#}")))? {
            let stm_sig: mithril_stm::SingleSignature = sig.signature.clone().into();
            if Some(&stm_sig.signer_index) != slots_ref.get(&p.party_id) {
                return Err(fail("path-dependent:slots", format!("node-path signer of {} signs with slot {} but the library path gives {:?}", p.party_id, stm_sig.signer_index, slots_ref.get(&p.party_id))));
            }
            let clerk_avk = {
                let mut reg = KeyRegistration::initialize();
                for s in &order_a {
                    reg.register(s.stake, &s.verification_key_for_concatenation).unwrap();
                }
                let closed = reg.close_registration(&params).unwrap();
                Clerk::<D>::new_clerk_from_closed_key_registration(&params, &closed).compute_aggregate_verification_key()
            };
            use mithril_common::protocol::ToMessage;
            let vk = p.verification_key_for_concatenation.vk;
            if let Err(e) = stm_sig.verify(&params, &vk, &p.stake, &clerk_avk, message.to_message().as_bytes()) {
                return Err(fail("path-dependent:signature", format!("signature of the node-path signer does not verify under the library key: {e:#}")));
            }
        }
        // metamorphic distinctness
        let mut other = base.clone();
        let applicable = match &c.meta {
            Meta::None => false,
            Meta::Remove(i) => {
                if other.len() < 2 {
                    false
                } else {
                    other.remove(pick_index(*i, n));
                    true
                }
            }
            Meta::StakePlus(i) => {
                let j = pick_index(*i, n);
                match other[j].stake.checked_add(1) {
                    Some(v) if sum.checked_add(1).is_some() => {
                        other[j].stake = v;
                        true
                    }
                    _ => false,
                }
            }
            Meta::StakeMinus(i) => {
                let j = pick_index(*i, n);
                if other[j].stake > 1 {
                    other[j].stake -= 1;
                    true
                } else {
                    false
                }
            }
            Meta::SwapStakes(i, j) => {
                let a = pick_index(*i, n);
                let b = pick_index(*j, n);
                if other[a].stake != other[b].stake {
                    let t = other[a].stake;
                    other[a].stake = other[b].stake;
                    other[b].stake = t;
                    true
                } else {
                    false
                }
            }
        };
        if applicable && other.iter().any(|s| s.stake > 0) {
            let (avk_o, _, _) = path_a(&other, &params).map_err(|e| fail("path-failed", format!("(a) distinct set: {e}")))?;
            if avk_o == avk_ref {
                return Err(fail("distinct-sets-same-key", format!("registration sets differing by {:?} yield the same aggregate key", c.meta)));
            }
            let (avk_ob, _) = path_b(&other, &pp).map_err(|e| fail("path-failed", format!("(b) distinct set: {e}")))?;
            if avk_ob == avk_ref {
                return Err(fail("distinct-sets-same-key", format!("registration sets differing by {:?} yield the same aggregate key (node path)", c.meta)));
            }
        }
        Ok(())
    });
    match run {
        Err(p) => {
            rep.violation("panic", format!("panic: {p}; {c:?}"));
        }
        Ok(Err((k, w))) => {
            rep.violation(k, format!("{w}; n={n} mask={:#x}", c.mask));
        }
        Ok(Ok(())) => {}
    }
    if CLAIM_SEEN.with(|c| c.get()) {
        rep.label("key-claimed-twice");
    }
    if !c.dup_attempts.is_empty() {
        rep.label("rejected-attempts");
    }
    if let Some((_, same)) = &c.opposite {
        rep.label(if *same { "opposite-key:same-stake" } else { "opposite-key:other-stake" });
    }
    if base.iter().any(|s| s.stake == 0) {
        rep.label("zero-stake-party");
    }
    let identity = c.perm_a.is_empty() && c.perm_b.is_empty() && c.perm_c.is_empty();
    rep.label(format!("meta:{}", format!("{:?}", c.meta).split('(').next().unwrap_or("")));
    if n >= 2 && !identity {
        rep.label("permuted");
        rep.nontrivial(format!("n:{n} eq:{} meta:{} perms:{}/{}/{} mask:{:x}", equal_pairs.min(3), format!("{:?}", c.meta).split('(').next().unwrap_or(""), c.perm_a.len().min(3), c.perm_b.len().min(3), c.perm_c.len().min(3), c.mask));
    }
    rep
}

fn strategy() -> impl Strategy<Value = Case> {
    let stake = prop_oneof![
        1 => Just(0u64),
        3 => 1u64..1000,
        2 => prop::sample::select(vec![1u64, 2, 7, 7, 100, 100, 1_000_000]),
        1 => 1u64..(1u64 << 50),
    ];
    let r = any::<u16>();
    (
        1u16..(1 << POOL),
        prop::collection::vec(stake, POOL),
        prop::collection::vec(r, 0..8),
        prop::collection::vec(r, 0..8),
        prop::collection::vec(r, 0..8),
        1u64..200,
        1u64..50,
        prop_oneof![Just(0.2f64), Just(1.0f64), 0.01f64..1.0],
        prop_oneof![Just(Meta::None), r.prop_map(Meta::Remove), r.prop_map(Meta::StakePlus), r.prop_map(Meta::StakeMinus), (r, r).prop_map(|(a, b)| Meta::SwapStakes(a, b))],
        r,
        (prop::collection::vec((r, r, 0u8..=3), 0..4), prop::option::weighted(0.4, (r, r, 1u64..2000)), prop::option::weighted(0.4, (r, prop::bool::weighted(0.7)))),
    )
        .prop_map(|(mask, stakes, perm_a, perm_b, perm_c, m, k, phi, meta, signer_pick, (dup_attempts, claimant, opposite))| Case { mask, stakes, perm_a, perm_b, perm_c, m, k, phi, meta, signer_pick, dup_attempts, claimant, opposite })
}

pub fn run(args: &Args) -> i32 {
    let mut check = Check::new("C06", "exploration", args);
    check
        .rule("party sets = non-empty subsets of 12 KES-certified fixture signers with generated stakes (incl. equal stakes), protocol parameters, three independent permutations of the registration order; the aggregate key is computed by the library (two orders), by SignerBuilder on the JSON round-tripped signer list, and by the client's MessageBuilder on the JSON round-tripped stake-distribution message; the key goes through json-hex and bytes round trips; one party's node-path signer signs and its slot / signature are checked against the library path; a distinct set (party removed, stake ±1, two stakes swapped) must give a distinct key. Non-trivial = n >= 2 and at least one non-identity permutation; distinct by (n, equal-stake pattern, metamorphic kind, permutation lengths, subset)")
        .assume("key material comes from the repository's deterministic fixture builder (12 certified signers); one more key can be the opposite point of a member's key (secret key r - sk: same coordinate bytes, one flag bit apart); other shared-prefix BLS keys cannot be manufactured and are not covered")
        .assume("paths compared: library, SignerBuilder (used by signer and aggregator), client MessageBuilder; the aggregator/signer services themselves are exercised end-to-end by C14/C20")
        .require_label("permuted")
        .require_label("equal-stakes")
        .require_label("meta:Remove")
        .require_label("meta:SwapStakes")
        .require_label("rejected-attempts")
        .require_label("key-claimed-twice")
        .require_label("opposite-key:same-stake")
        .require_label("zero-stake-party");
    let t = check.tier;
    check.shrink_iters(200);
    // build the fixture before the workers start (it writes KES material under TMPDIR)
    let _ = fixture();
    check.section("paths", strategy, t.pick(1200, 40_000), case_fn);
    check.finish()
}
