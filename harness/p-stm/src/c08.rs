//! C08 — the signing lottery is exact, deterministic and monotone in stake.
//!
//! Under test: (1) the working tree's `eligibility.rs`, compiled into this binary by path inclusion
//! (`crate::elig`), for threshold-concentrated draws; (2) the public path Signer::create_single_signature ↔
//! SingleSignature::verify for signer/verifier agreement on real draws.

use num_bigint::BigUint;
use num_traits::{One, Zero};
use proptest::prelude::*;
use serde::{Deserialize, Serialize};
use vcore::{Args, Check, Report, catch};

use crate::elig::is_lottery_won;
use crate::fixtures::{Params, World, WorldSpec, draw};
use crate::lottery_ref::{self, Enclosure, Ref, enclosure, ev_to_int, int_to_ev};

#[derive(Clone, Debug, Serialize, Deserialize)]
enum EvKind {
    /// uniform 64 bytes
    Uniform(Vec<u8>),
    /// threshold ± 2^shift (+1): sign true = above the threshold (towards "lost")
    Near { above: bool, shift: u16, plus_one: bool },
    Zero,
    Max,
}

#[derive(Clone, Debug, Serialize, Deserialize)]
struct Decision {
    phi: f64,
    stake: u64,
    total: u64,
    ev: EvKind,
}

#[derive(Clone, Debug, Serialize, Deserialize)]
struct Pair {
    phi: f64,
    total: u64,
    stake_a: u64,
    stake_b: u64,
    ev_a: EvKind,
    /// second draw = first draw minus 2^shift (floored at 0); `None` = same draw, compare the stakes
    ev_shift: Option<u16>,
    /// which stake the threshold-concentrated draw is anchored on
    anchor_b: bool,
}

fn phi_class(phi: f64) -> &'static str {
    if phi >= 1.0 {
        "1"
    } else if phi > 0.999 {
        ">0.999"
    } else if phi > 0.93 {
        "0.93-0.999"
    } else if phi > 0.5 {
        "0.5-0.93"
    } else if phi > 0.01 {
        "0.01-0.5"
    } else if phi > 1e-12 {
        "tiny"
    } else {
        "sub-epsilon"
    }
}

fn w_class(stake: u64, total: u64) -> &'static str {
    if stake == 0 {
        "0"
    } else if stake == total {
        "all"
    } else {
        let w = stake as f64 / total as f64;
        if w < 1e-6 {
            "dust"
        } else if w < 0.1 {
            "small"
        } else if w < 0.9 {
            "mid"
        } else {
            "near-all"
        }
    }
}

fn materialise(ev: &EvKind, enc: &Enclosure) -> ([u8; 64], &'static str, u32) {
    let max = (BigUint::one() << 512u32) - BigUint::one();
    match ev {
        EvKind::Uniform(b) => {
            let mut out = [0u8; 64];
            for (i, x) in b.iter().take(64).enumerate() {
                out[i] = *x;
            }
            (out, "uniform", 512)
        }
        EvKind::Zero => ([0u8; 64], "zero", 512),
        EvKind::Max => ([0xffu8; 64], "max", 512),
        EvKind::Near { above, shift, plus_one } => {
            let t = enc.threshold_ev();
            let shift = (*shift as u32) % 505;
            let mut delta = BigUint::one() << shift;
            if *plus_one {
                delta += BigUint::one();
            }
            let v = if *above {
                let s = &t + &delta;
                if s > max { max.clone() } else { s }
            } else if delta > t {
                BigUint::zero()
            } else {
                &t - &delta
            };
            (int_to_ev(&v), "near", shift)
        }
    }
}

fn impl_decide(phi: f64, ev: [u8; 64], stake: u64, total: u64) -> Result<bool, String> {
    catch(|| is_lottery_won(phi, ev, stake, total))
}

fn reference_with(enc: &Enclosure, phi: f64, ev: &[u8; 64], stake: u64) -> Ref {
    if phi >= 1.0 {
        return Ref::Won;
    }
    if stake == 0 {
        return Ref::Lost;
    }
    enc.decide(&ev_to_int(ev))
}

fn in_domain(phi: f64, stake: u64, total: u64) -> bool {
    // phi in (0,1]; the single f64 strictly between 1-EPSILON and 1 is treated by the code as 1 and is not claimed either way
    phi > 0.0 && phi <= 1.0 && phi != 1.0 - f64::EPSILON / 2.0 && total >= 1 && stake <= total
}

fn decision_case(c: &Decision) -> Report {
    let mut rep = Report::new();
    if !in_domain(c.phi, c.stake, c.total) {
        rep.discard("outside domain");
        return rep;
    }
    if c.phi >= 1.0 && c.stake == 0 {
        // the two boundary clauses of the statement contradict each other here; not judged
        rep.discard("phi=1 and stake=0");
        return rep;
    }
    let enc = enclosure(c.phi, c.stake, c.total);
    let (ev, kind, shift) = materialise(&c.ev, &enc);
    let r = reference_with(&enc, c.phi, &ev, c.stake);
    rep.label(format!("phi:{}", phi_class(c.phi))).label(format!("w:{}", w_class(c.stake, c.total))).label(format!("ev:{kind}"));
    let got = match impl_decide(c.phi, ev, c.stake, c.total) {
        Ok(b) => b,
        Err(p) => {
            rep.violation("panic", format!("is_lottery_won panicked: {p} on {c:?}"));
            return rep;
        }
    };
    // determinism
    match impl_decide(c.phi, ev, c.stake, c.total) {
        Ok(b2) if b2 == got => {}
        other => {
            rep.violation("nondeterministic", format!("second call gave {other:?}, first {got} on {c:?}"));
        }
    }
    match r {
        Ref::Band => {
            rep.label("band");
        }
        Ref::Won if !got => {
            let key = if enc.x_f64 > 2.6 { "lost-instead-of-won:x>2.6" } else { "lost-instead-of-won" };
            rep.violation(key, format!("reference: won, implementation: lost; x={:.4} ev={} {c:?}", enc.x_f64, hex::encode(ev)));
        }
        Ref::Lost if got => {
            rep.violation("won-instead-of-lost", format!("reference: lost, implementation: won; x={:.4} ev={} {c:?}", enc.x_f64, hex::encode(ev)));
        }
        _ => {}
    }
    if c.stake == 0 && got {
        rep.violation("zero-stake-won", format!("{c:?}"));
    }
    if c.phi >= 1.0 && !got {
        rep.violation("phi1-lost", format!("{c:?}"));
    }
    // the draw sits at threshold ± 2^shift; the reference can judge it once it is outside the 2^-50 band on ln(1-phi)
    let near = kind == "near" && r != Ref::Band;
    if near {
        rep.label("near-threshold");
        rep.label(format!("near-judged:2^{}", shift / 10 * 10));
    }
    if near || c.stake == 0 || c.stake == c.total || c.phi >= 1.0 || c.phi < 1e-12 || c.phi > 0.999 {
        rep.nontrivial(format!(
            "d phi:{} w:{} ev:{kind} dist:{} side:{:?}",
            phi_class(c.phi),
            w_class(c.stake, c.total),
            shift / 50,
            r
        ));
    }
    rep
}

fn pair_case(c: &Pair) -> Report {
    let mut rep = Report::new();
    let (sa, sb) = if c.stake_a <= c.stake_b { (c.stake_a, c.stake_b) } else { (c.stake_b, c.stake_a) };
    if !in_domain(c.phi, sb, c.total) || c.phi >= 1.0 {
        rep.discard("outside domain");
        return rep;
    }
    let anchor = if c.anchor_b { sb } else { sa };
    let enc = enclosure(c.phi, anchor, c.total);
    let (ev1, kind, shift) = materialise(&c.ev_a, &enc);
    rep.label(format!("phi:{}", phi_class(c.phi))).label(format!("ev:{kind}"));
    match c.ev_shift {
        None => {
            // same draw, stake grows: won(sa) => won(sb)
            rep.label("pair:stake-grows");
            let a = impl_decide(c.phi, ev1, sa, c.total);
            let b = impl_decide(c.phi, ev1, sb, c.total);
            match (a, b) {
                (Ok(true), Ok(false)) => {
                    let x = enclosure(c.phi, sb, c.total).x_f64;
                    let key = if x > 2.6 { "stake-monotonicity:x>2.6" } else { "stake-monotonicity" };
                    rep.violation(key, format!("won with stake {sa} but lost with stake {sb}; ev={} {c:?}", hex::encode(ev1)));
                }
                (Err(p), _) | (_, Err(p)) => {
                    rep.violation("panic", format!("{p} on {c:?}"));
                }
                (Ok(a), Ok(b)) => {
                    if a != b {
                        rep.label("pair:decision-differs");
                    }
                }
            }
            if sa != sb && kind == "near" {
                rep.nontrivial(format!("p stake phi:{} dist:{} anchor_b:{}", phi_class(c.phi), shift / 50, c.anchor_b));
            }
        }
        Some(s) => {
            rep.label("pair:draw-shrinks");
            let v1 = ev_to_int(&ev1);
            let d = BigUint::one() << ((s as u32) % 511);
            let v2 = if d > v1 { BigUint::zero() } else { &v1 - &d };
            let ev2 = int_to_ev(&v2);
            let a = impl_decide(c.phi, ev1, anchor, c.total);
            let b = impl_decide(c.phi, ev2, anchor, c.total);
            match (a, b) {
                (Ok(true), Ok(false)) => {
                    let key = if enc.x_f64 > 2.6 { "draw-monotonicity:x>2.6" } else { "draw-monotonicity" };
                    rep.violation(key, format!("won with draw {} but lost with the smaller draw {}; {c:?}", hex::encode(ev1), hex::encode(ev2)));
                }
                (Err(p), _) | (_, Err(p)) => {
                    rep.violation("panic", format!("{p} on {c:?}"));
                }
                (Ok(a), Ok(b)) => {
                    if a != b {
                        rep.label("pair:decision-differs");
                    }
                }
            }
            if kind == "near" {
                rep.nontrivial(format!("p draw phi:{} dist:{} s:{}", phi_class(c.phi), shift / 50, s / 64));
            }
        }
    }
    rep
}

/// public path: the signer's claimed index set against the reference on the real draws, and the verifier's verdict on
/// the claimed set, on supersets and on subsets.
fn public_case(spec: &(WorldSpec, Vec<u8>)) -> Report {
    let mut rep = Report::new();
    let (spec, msg) = spec;
    let Some(world) = World::build(spec) else {
        rep.discard("invalid world");
        return rep;
    };
    let msgp = world.msgp(msg);
    let avk = &world.avk;
    let mut any_partial = false;
    for (pi, signer) in world.signers.iter().enumerate() {
        let stake = spec.parties[pi].1;
        let sig = match catch(|| signer.create_single_signature(msg)) {
            Ok(Ok(s)) => s,
            Ok(Err(_)) => {
                rep.label("signer-lost-all");
                continue;
            }
            Err(p) => {
                rep.violation("panic", format!("create_single_signature: {p}"));
                return rep;
            }
        };
        let sigma = sig.get_concatenation_signature_sigma().to_bytes();
        let claimed: std::collections::BTreeSet<u64> = sig.get_concatenation_signature_indices().into_iter().collect();
        let vk = signer.get_bls_verification_key();
        let enc = enclosure(spec.params.phi, stake, world.total_stake);
        let mut not_won = vec![];
        for i in 0..spec.params.m {
            let ev = draw(&msgp, i, &sigma);
            let r = reference_with(&enc, spec.params.phi, &ev, stake);
            let has = claimed.contains(&i);
            match r {
                Ref::Won if !has => {
                    let key = if enc.x_f64 > 2.6 { "lost-instead-of-won:x>2.6" } else { "lost-instead-of-won" };
                    rep.violation(key, format!("signer does not claim index {i} although the exact lottery is won; party {pi} {spec:?}"));
                }
                Ref::Lost if has => {
                    rep.violation("won-instead-of-lost", format!("signer claims index {i} although the exact lottery is lost; party {pi} {spec:?}"));
                }
                _ => {}
            }
            if !has {
                not_won.push(i);
            }
        }
        // verifier agrees on the claimed set
        if let Err(e) = sig.verify(&world.params, &vk, &stake, avk, msg) {
            rep.violation("signer-verifier-disagree", format!("honest signature of party {pi} rejected: {e:#}; {spec:?}"));
        }
        // every index the signer did not claim is rejected by the verifier
        for j in not_won.iter().take(3) {
            any_partial = true;
            let mut s2 = sig.clone();
            let mut idx: Vec<u64> = claimed.iter().copied().collect();
            idx.push(*j);
            s2.set_concatenation_signature_indices(&idx);
            if s2.verify(&world.params, &vk, &stake, avk, msg).is_ok() {
                rep.violation("signer-verifier-disagree", format!("verifier accepts index {j} that the signer did not win; party {pi} {spec:?}"));
            }
        }
        // any single claimed index alone is accepted
        if let Some(first) = claimed.iter().next() {
            let mut s3 = sig.clone();
            s3.set_concatenation_signature_indices(&[*first]);
            if s3.verify(&world.params, &vk, &stake, avk, msg).is_err() {
                rep.violation("signer-verifier-disagree", format!("verifier rejects the claimed index {first} alone; party {pi} {spec:?}"));
            }
        }
        rep.label("signer-checked");
    }
    rep.label(format!("phi:{}", phi_class(spec.params.phi)));
    if any_partial {
        rep.nontrivial(format!("pub n:{} m:{} phi:{} seed:{}", spec.parties.len(), spec.params.m, phi_class(spec.params.phi), spec.parties[0].0));
    }
    rep
}

pub fn phi_strategy() -> impl Strategy<Value = f64> {
    prop_oneof![
        4 => 0.0001f64..1.0,
        2 => prop::sample::select(vec![1.0f64, 0.2, 0.05, 0.5, 0.65, 0.9, 0.93, 0.95, 0.99, 0.999]),
        1 => prop::sample::select(vec![
            1.0 - f64::EPSILON,
            1.0 - 1e-9,
            0.999999,
            2f64.powi(-30),
            1e-15,
            1e-17,
            1e-300,
            f64::MIN_POSITIVE,
        ]),
        1 => (1u32..60).prop_map(|e| 2f64.powi(-(e as i32))),
    ]
}

fn stake_total() -> impl Strategy<Value = (u64, u64)> {
    prop_oneof![
        3 => (1u64..1_000_000_000_000).prop_flat_map(|t| (0..=t, Just(t))),
        1 => (1u64..=u64::MAX).prop_map(|t| (t, t)),
        1 => (2u64..=u64::MAX).prop_map(|t| (t - 1, t)),
        1 => (1u64..=u64::MAX).prop_map(|t| (1.min(t), t)),
        1 => (1u64..=u64::MAX).prop_map(|t| (0, t)),
        1 => (1u64..=u64::MAX).prop_map(|t| (t / 2, t)),
        2 => any::<u64>().prop_flat_map(|t| { let t = t.max(1); (0..=t, Just(t)) }),
        1 => Just((u64::MAX - 1, u64::MAX)),
    ]
}

fn ev_strategy() -> impl Strategy<Value = EvKind> {
    prop_oneof![
        3 => prop::collection::vec(any::<u8>(), 64).prop_map(EvKind::Uniform),
        8 => (any::<bool>(), prop_oneof![1 => 0u16..12, 1 => 0u16..455, 4 => 455u16..505], any::<bool>())
            .prop_map(|(above, shift, plus_one)| EvKind::Near { above, shift, plus_one }),
        1 => Just(EvKind::Zero),
        1 => Just(EvKind::Max),
    ]
}

fn decision_strategy() -> impl Strategy<Value = Decision> {
    (phi_strategy(), stake_total(), ev_strategy()).prop_map(|(phi, (stake, total), ev)| Decision { phi, stake, total, ev })
}

fn pair_strategy() -> impl Strategy<Value = Pair> {
    (
        phi_strategy(),
        stake_total(),
        prop_oneof![Just(1u64), 1u64..1000, any::<u64>()],
        ev_strategy(),
        prop::option::of(0u16..511),
        any::<bool>(),
    )
        .prop_map(|(phi, (stake, total), d, ev_a, ev_shift, anchor_b)| {
            let stake_b = stake.saturating_add(d).min(total);
            Pair { phi, total, stake_a: stake, stake_b, ev_a, ev_shift, anchor_b }
        })
}

pub fn world_strategy(max_n: usize, max_m: u64) -> impl Strategy<Value = WorldSpec> {
    let stakes = prop_oneof![
        3 => 1u64..1_000_000,
        1 => Just(1u64),
        1 => 1u64..(1u64 << 58),
    ];
    (
        1u64..=max_m,
        phi_strategy(),
        prop::collection::vec((0u64..5000, stakes), 1..=max_n),
        any::<u16>(),
    )
        .prop_map(|(m, phi, mut parties, kraw)| {
            // distinct key seeds by construction
            let mut seen = std::collections::BTreeSet::new();
            for p in parties.iter_mut() {
                while !seen.insert(p.0) {
                    p.0 += 5000;
                }
            }
            let k = 1 + vcore::pick_index(kraw, m as usize) as u64;
            WorldSpec { params: Params { m, k, phi }, parties }
        })
}

pub fn timing() {
    for (phi, stake, total) in [(0.2, 1u64, 3u64), (0.95, 1, 1), (0.999999, 1, 1), (1.0 - f64::EPSILON, 1, 1), (1.0 - f64::EPSILON, u64::MAX - 1, u64::MAX), (0.5, u64::MAX / 3, u64::MAX), (1e-300, 1, 1), (0.3, 0, 5)] {
        for ev in [EvKind::Near { above: true, shift: 0, plus_one: false }, EvKind::Near { above: true, shift: 400, plus_one: false }, EvKind::Zero, EvKind::Max] {
            let t0 = std::time::Instant::now();
            let enc = enclosure(phi, stake, total);
            let (e, _, _) = materialise(&ev, &enc);
            let r = reference_with(&enc, phi, &e, stake);
            let t1 = t0.elapsed();
            let got = impl_decide(phi, e, stake, total);
            println!("phi={phi} stake={stake} total={total} ev={ev:?} ref={r:?} ({t1:?}) impl={got:?} ({:?})", t0.elapsed() - t1);
        }
    }
}

pub fn run(args: &Args) -> i32 {
    let mut check = Check::new("C08", "exploration", args);
    check
        .rule("decisions: (phi, stake, total, draw) with the draw placed at threshold ± 2^s (s up to 504), uniform, 0 or 2^512-1, compared with an exact interval-arithmetic evaluation of the comparison; pairs: same draw with a larger stake / same stake with a smaller draw (monotonicity); public: signer's claimed index set and verifier verdict against the reference on the real Blake2b draws. Non-trivial = a threshold-concentrated draw that the reference can judge (outside the ln band, i.e. roughly threshold ± 2^460..2^504 of 2^512), or a boundary phi (1, <1e-12, >0.999) or stake (0, total); distinct by (phi class, stake-share class, distance bucket, side)")
        .assume("ln(1-phi) is taken from the platform f64 `ln` (as the implementation does) and enclosed by ±2^-50 relative; draws inside the resulting enclosure of e^x are the negligible band and are not judged")
        .assume("phi = 1-2^-53 (the single f64 that the code treats as 1) and the contradictory corner (phi=1, stake=0) are outside the domain")
        .require_label("near-threshold")
        .require_label("pair:stake-grows")
        .require_label("pair:draw-shrinks")
        .require_label("signer-checked")
        .require_label("phi:0.93-0.999");
    let t = check.tier;
    check.section("decision", decision_strategy, t.pick(20_000, 1_500_000), decision_case);
    check.section("pairs", pair_strategy, t.pick(8000, 600_000), pair_case);
    check.section(
        "public",
        || (world_strategy(5, 24), prop::collection::vec(any::<u8>(), 0..48)),
        t.pick(1000, 40_000),
        public_case,
    );
    // regression witnesses of the repaired defect F8 (kept as ordinary cases: a fixed entry suppresses nothing)
    check.enumerate(
        "regression",
        vec![
            Decision { phi: 0.95, stake: 1, total: 1, ev: EvKind::Near { above: false, shift: 500, plus_one: false } },
            Decision { phi: 0.999, stake: 1, total: 1, ev: EvKind::Near { above: false, shift: 503, plus_one: false } },
            Decision { phi: 0.99, stake: 7, total: 8, ev: EvKind::Near { above: false, shift: 10, plus_one: true } },
        ]
        .into_iter(),
        false,
        decision_case,
    );
    let _ = lottery_ref::P;
    check.finish()
}
