//! Registrations, signers and clerks built from generated seeds through the public mithril-stm API only.

use blake2::{Blake2b512, Digest};
use mithril_stm::{
    AggregateSignature, AggregateSignatureType, AggregateVerificationKey, AncillaryProofInput, Clerk,
    ClosedKeyRegistration, Initializer, KeyRegistration, MithrilMembershipDigest, Parameters, Signer, SingleSignature,
};
use rand_chacha::ChaCha20Rng;
use rand_core::SeedableRng;
use serde::{Deserialize, Serialize};

pub type D = MithrilMembershipDigest;

#[derive(Clone, Debug, Serialize, Deserialize, PartialEq)]
pub struct Params {
    pub m: u64,
    pub k: u64,
    pub phi: f64,
}

impl Params {
    pub fn stm(&self) -> Parameters {
        Parameters { m: self.m, k: self.k, phi_f: self.phi }
    }
}

/// A generated world: parties identified by key seeds, with stakes.
#[derive(Clone, Debug, Serialize, Deserialize)]
pub struct WorldSpec {
    pub params: Params,
    pub parties: Vec<(u64, u64)>, // (key seed, stake)
}

pub struct World {
    pub spec: WorldSpec,
    pub params: Parameters,
    pub initializers: Vec<Initializer>,
    pub closed: ClosedKeyRegistration,
    /// signers in the order of `spec.parties`
    pub signers: Vec<Signer<D>>,
    pub clerk: Clerk<D>,
    pub avk: AggregateVerificationKey<D>,
    pub root: Vec<u8>,
    pub total_stake: u64,
}

pub fn seed_bytes(seed: u64) -> [u8; 32] {
    let mut s = [0u8; 32];
    s[..8].copy_from_slice(&seed.to_le_bytes());
    s[8..16].copy_from_slice(&seed.wrapping_mul(0x9E3779B97F4A7C15).to_le_bytes());
    s
}

pub fn initializer(params: Parameters, seed: u64, stake: u64) -> Initializer {
    let mut rng = ChaCha20Rng::from_seed(seed_bytes(seed));
    Initializer::new(params, stake, &mut rng)
}

impl World {
    /// None when the spec is outside the domain (duplicate seeds, zero total stake, total overflow)
    pub fn build(spec: &WorldSpec) -> Option<World> {
        let params = spec.params.stm();
        let mut seen = std::collections::BTreeSet::new();
        let mut total: u64 = 0;
        for (s, st) in &spec.parties {
            if !seen.insert(*s) {
                return None;
            }
            total = total.checked_add(*st)?;
        }
        if total == 0 || spec.parties.is_empty() {
            return None;
        }
        let initializers: Vec<Initializer> = spec.parties.iter().map(|(s, st)| initializer(params, *s, *st)).collect();
        let mut reg = KeyRegistration::initialize();
        for i in &initializers {
            reg.register_by_entry(&i.clone().try_into().ok()?).ok()?;
        }
        let closed = reg.close_registration(&params).ok()?;
        let signers: Vec<Signer<D>> =
            initializers.iter().map(|i| i.clone().try_create_signer::<D>(&closed).expect("signer")).collect();
        let clerk = Clerk::new_clerk_from_closed_key_registration(&params, &closed);
        let avk = clerk.compute_aggregate_verification_key();
        let root = avk_root(&avk);
        Some(World { spec: spec.clone(), params, initializers, closed, signers, clerk, avk, root, total_stake: total })
    }

    pub fn msgp(&self, msg: &[u8]) -> Vec<u8> {
        let mut v = msg.to_vec();
        v.extend_from_slice(&self.root);
        v
    }

    /// honest signatures (signers that lost every index are skipped)
    pub fn sign_all(&self, msg: &[u8]) -> Vec<SingleSignature> {
        self.signers.iter().filter_map(|s| s.create_single_signature(msg).ok()).collect()
    }

    pub fn aggregate(&self, sigs: &[SingleSignature], msg: &[u8]) -> anyhow::Result<AggregateSignature<D>> {
        self.clerk
            .aggregate_signatures_with_type(sigs, msg, AggregateSignatureType::Concatenation, AncillaryProofInput::new(None, mithril_stm::AncillaryGenesisData::new()))
            .map(|(a, _)| a)
    }

    pub fn verify(&self, agg: &AggregateSignature<D>, msg: &[u8]) -> anyhow::Result<()> {
        agg.verify(msg, &self.avk, &self.params, None, None)
    }
}

/// Merkle root committed by the aggregate key (read from its JSON form: the accessor is crate-private)
pub fn avk_root(avk: &AggregateVerificationKey<D>) -> Vec<u8> {
    let v = serde_json::to_value(avk.to_concatenation_aggregate_verification_key()).expect("avk json");
    v["mt_commitment"]["root"]
        .as_array()
        .expect("root array")
        .iter()
        .map(|b| b.as_u64().expect("byte") as u8)
        .collect()
}

/// the lottery draw of (msg‖root, index, sigma): Blake2b-512("map" ‖ msgp ‖ index_le ‖ sigma)
pub fn draw(msgp: &[u8], index: u64, sigma: &[u8; 48]) -> [u8; 64] {
    let h = Blake2b512::new()
        .chain_update(b"map")
        .chain_update(msgp)
        .chain_update(index.to_le_bytes())
        .chain_update(sigma)
        .finalize();
    let mut out = [0u8; 64];
    out.copy_from_slice(&h);
    out
}
