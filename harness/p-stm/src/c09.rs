//! C09 — Merkle membership proofs cannot vouch for anything outside the committed set.
//!
//! (A) the signer-registration batch tree, through AggregateSignature::verify only;
//! (B) the generic MKTree / MKProof;  (C) the block-range Merkle map MKMap / MKMapProof.
//! Completeness: every generated proof verifies and contains the selection. Soundness: whatever object verifies
//! against the committed root vouches (`contains`) only for committed leaves, at the positions / keys it states.

use std::collections::{BTreeMap, BTreeSet};

use mithril_common::entities::{BlockNumber, BlockRange};
use mithril_merkle_tree::{MKMap, MKMapNode, MKMapProof, MKProof, MKTree, MKTreeNode, MKTreeStoreInMemory};
use mithril_stm::{AggregateSignature, AggregateSignatureType, AncillaryGenesisData, AncillaryProofInput, Clerk, Parameters};
use proptest::prelude::*;
use serde::{Deserialize, Serialize};
use serde_json::{Value, json};
use vcore::{Args, Check, Report, Tier, catch, pick_index};

use crate::fixtures::{D, Params, World, WorldSpec};
use crate::wire::{bytes_of, json_bytes};

// =============================================================================================== (A) STM batch tree

#[derive(Clone, Debug, Serialize, Deserialize)]
enum AMut {
    None,
    /// entry i gets the (vk, stake) of registered party j
    PartyTo { i: u16, j: u16 },
    /// entry i gets an unregistered key
    Outsider { i: u16, seed: u64 },
    /// entry i gets stake+1
    StakePlus { i: u16 },
    /// batch index i := value
    IndexTo { i: u16, val: u64 },
    SwapIndices { i: u16, j: u16 },
    DupIndex { i: u16 },
    FlipNode { i: u16, bit: u16 },
    DropNode { i: u16 },
    DupNode { i: u16 },
    SwapNodes { i: u16, j: u16 },
    /// verify under the key of another registration (root altered)
    OtherRoot,
    /// entry i twice (second copy: same key and sigma, stake+1, an unused lottery index), its stated position twice,
    /// every path value doubled in place — each copy climbs to the root on its own
    DoubledPath { i: u16 },
}

#[derive(Clone, Debug, Serialize, Deserialize)]
struct ACase {
    n: usize,
    seed: u64,
    /// selected party slots (bit mask over slot order)
    subset: u64,
    muts: Vec<AMut>,
}

fn a_world(n: usize, seed: u64) -> Option<World> {
    // distinct stakes incl. equal pairs; phi = 1 so that every index is won by everybody
    let parties: Vec<(u64, u64)> = (0..n).map(|i| (seed.wrapping_mul(1000) + i as u64, 1 + ((seed + i as u64) % 3))).collect();
    World::build(&WorldSpec { params: Params { m: n as u64 + 2, k: 1, phi: 1.0 }, parties })
}

static A_CACHE: std::sync::OnceLock<std::sync::Mutex<BTreeMap<(usize, u64), Option<std::sync::Arc<World>>>>> = std::sync::OnceLock::new();

fn a_world_cached(n: usize, seed: u64) -> Option<std::sync::Arc<World>> {
    let cache = A_CACHE.get_or_init(Default::default);
    if let Some(w) = cache.lock().unwrap().get(&(n, seed)) {
        return w.clone();
    }
    let w = a_world(n, seed).map(std::sync::Arc::new);
    cache.lock().unwrap().insert((n, seed), w.clone());
    w
}

fn a_case(c: &ACase) -> Report {
    let mut rep = Report::new();
    let Some(world) = a_world_cached(c.n, c.seed) else {
        rep.discard("world");
        return rep;
    };
    let msg = b"c09-batch-tree".to_vec();
    // slot order
    let mut by_slot: Vec<&mithril_stm::Signer<D>> = world.signers.iter().collect();
    by_slot.sort_by_key(|s| s.signer_index);
    let selected: Vec<usize> = (0..c.n).filter(|i| c.subset >> i & 1 == 1).collect();
    if selected.is_empty() {
        rep.discard("empty subset");
        return rep;
    }
    let mut sigs = vec![];
    for (j, slot) in selected.iter().enumerate() {
        let Ok(mut s) = by_slot[*slot].create_single_signature(&msg) else {
            rep.discard("no signature");
            return rep;
        };
        s.set_concatenation_signature_indices(&[j as u64]);
        sigs.push(s);
    }
    let params = Parameters { m: c.n as u64 + 2, k: selected.len() as u64, phi_f: 1.0 };
    let clerk: Clerk<D> = Clerk::new_clerk_from_closed_key_registration(&params, &world.closed);
    let agg = match catch(|| {
        clerk.aggregate_signatures_with_type(&sigs, &msg, AggregateSignatureType::Concatenation, AncillaryProofInput::new(None, AncillaryGenesisData::new()))
    }) {
        Ok(Ok((a, _))) => a,
        other => {
            rep.violation("A:completeness", format!("aggregation for subset {selected:?} of {} parties failed: {:?}", c.n, other.map(|r| r.map(|_| ()).map_err(|e| format!("{e:#}")))));
            return rep;
        }
    };
    // completeness
    if let Err(e) = agg.verify(&msg, &world.avk, &params, None, None) {
        rep.violation("A:completeness", format!("generated batch proof for subset {selected:?} of {} leaves does not verify: {e:#}", c.n));
        return rep;
    }
    let mut view = serde_json::to_value(&agg).unwrap();
    let entries = view["signatures"].as_array().map(|a| a.len()).unwrap_or(0);
    if entries != selected.len() {
        rep.violation("A:completeness", format!("aggregate carries {entries} entries for a selection of {}", selected.len()));
        return rep;
    }
    let mut applied = vec![];
    let mut other_root = false;
    for m in &c.muts {
        let e = pick_index;
        let ok = match m {
            AMut::None => false,
            AMut::PartyTo { i, j } => {
                let j = e(*j, c.n);
                let p = by_slot[j];
                view["signatures"][e(*i, entries)][1] = json!([json_bytes(&p.get_bls_verification_key().to_bytes()), p.get_stake()]);
                true
            }
            AMut::Outsider { i, seed } => {
                let mut ikm = [9u8; 32];
                ikm[..8].copy_from_slice(&seed.to_le_bytes());
                let sk = blst::min_sig::SecretKey::key_gen(&ikm, &[]).unwrap();
                view["signatures"][e(*i, entries)][1][0] = json_bytes(&sk.sk_to_pk().to_bytes());
                true
            }
            AMut::StakePlus { i } => {
                let p = e(*i, entries);
                let cur = view["signatures"][p][1][1].as_u64().unwrap_or(0);
                view["signatures"][p][1][1] = Value::from(cur + 1);
                true
            }
            AMut::IndexTo { i, val } => {
                let bi = view["batch_proof"]["indices"].as_array_mut().unwrap();
                let p = e(*i, bi.len());
                bi[p] = Value::from(*val);
                true
            }
            AMut::SwapIndices { i, j } => {
                let bi = view["batch_proof"]["indices"].as_array_mut().unwrap();
                if bi.len() < 2 {
                    false
                } else {
                    let a = e(*i, bi.len());
                    let mut b = e(*j, bi.len());
                    if a == b {
                        b = (a + 1) % bi.len();
                    }
                    bi.swap(a, b);
                    true
                }
            }
            AMut::DupIndex { i } => {
                let bi = view["batch_proof"]["indices"].as_array_mut().unwrap();
                let p = e(*i, bi.len());
                let x = bi[p].clone();
                bi.insert(p, x);
                true
            }
            AMut::FlipNode { i, bit } => {
                let vals = view["batch_proof"]["values"].as_array_mut().unwrap();
                if vals.is_empty() {
                    false
                } else {
                    let p = e(*i, vals.len());
                    let mut b = bytes_of(&vals[p]).unwrap();
                    let l = b.len();
                    b[(*bit as usize / 8) % l] ^= 1 << (bit % 8);
                    vals[p] = json_bytes(&b);
                    true
                }
            }
            AMut::DropNode { i } => {
                let vals = view["batch_proof"]["values"].as_array_mut().unwrap();
                if vals.is_empty() {
                    false
                } else {
                    let p = e(*i, vals.len());
                    vals.remove(p);
                    true
                }
            }
            AMut::DupNode { i } => {
                let vals = view["batch_proof"]["values"].as_array_mut().unwrap();
                if vals.is_empty() {
                    false
                } else {
                    let p = e(*i, vals.len());
                    let x = vals[p].clone();
                    vals.insert(p, x);
                    true
                }
            }
            AMut::SwapNodes { i, j } => {
                let vals = view["batch_proof"]["values"].as_array_mut().unwrap();
                if vals.len() < 2 {
                    false
                } else {
                    let a = e(*i, vals.len());
                    let mut b = e(*j, vals.len());
                    if a == b {
                        b = (a + 1) % vals.len();
                    }
                    if vals[a] == vals[b] {
                        false
                    } else {
                        vals.swap(a, b);
                        true
                    }
                }
            }
            AMut::OtherRoot => {
                other_root = true;
                true
            }
            AMut::DoubledPath { i } => {
                let p = e(*i, entries);
                let mut copy = view["signatures"][p].clone();
                let cur = copy[1][1].as_u64().unwrap_or(0);
                copy[1][1] = Value::from(cur + 1);
                // an index nobody uses (m = n + 2, the selection uses 0..|S|)
                copy[0]["indexes"] = json!([c.n as u64 + 1]);
                view["signatures"].as_array_mut().unwrap().insert(p + 1, copy);
                let bi = view["batch_proof"]["indices"].as_array_mut().unwrap();
                if p < bi.len() {
                    let x = bi[p].clone();
                    bi.insert(p + 1, x);
                }
                let vals = view["batch_proof"]["values"].as_array_mut().unwrap();
                let doubled: Vec<Value> = vals.iter().flat_map(|v| [v.clone(), v.clone()]).collect();
                *vals = doubled;
                true
            }
        };
        if ok {
            applied.push(format!("{m:?}").split([' ', '{']).next().unwrap_or("").to_string());
        }
    }
    rep.label(format!("A:n={}", c.n.min(12)));
    for a in &applied {
        rep.label(format!("A:mut:{a}"));
    }
    if applied.is_empty() {
        rep.label("A:honest-verified");
        return rep;
    }
    let Ok(mutated) = serde_json::from_value::<AggregateSignature<D>>(view.clone()) else {
        rep.label("A:rejected-at-decode");
        return rep;
    };
    let (avk, committed_world) = if other_root {
        match a_world_cached(c.n, c.seed + 1) {
            Some(w) => (w.avk.clone(), w),
            None => {
                rep.discard("other world");
                return rep;
            }
        }
    } else {
        (world.avk.clone(), world.clone())
    };
    let accepted = matches!(catch(|| mutated.verify(&msg, &avk, &params, None, None)), Ok(Ok(())));
    rep.nontrivial(format!("A n:{} |S|:{} muts:{applied:?} acc:{accepted} pos:{}", c.n, selected.len(), selected.first().map(|x| x % 2).unwrap_or(0)));
    if accepted {
        rep.label("A:mutated-accepted");
        // every vouched leaf must be a committed leaf at the stated position
        let slots: BTreeMap<(Vec<u8>, u64), u64> =
            committed_world.signers.iter().map(|s| ((s.get_bls_verification_key().to_bytes().to_vec(), s.get_stake()), s.signer_index)).collect();
        let obj = serde_json::to_value(&mutated).unwrap();
        let idx: Vec<u64> = obj["batch_proof"]["indices"].as_array().map(|a| a.iter().filter_map(|x| x.as_u64()).collect()).unwrap_or_default();
        for (i, e) in obj["signatures"].as_array().unwrap().iter().enumerate() {
            let key = (bytes_of(&e[1][0]).unwrap_or_default(), e[1][1].as_u64().unwrap_or(0));
            match slots.get(&key) {
                None => {
                    rep.violation("A:non-member-vouched", format!("accepted although entry {i} is not a committed (key, stake) leaf; muts {applied:?}; n={} subset={selected:?}", c.n));
                }
                Some(slot) => {
                    if idx.get(i) != Some(slot) {
                        rep.violation("A:wrong-position", format!("accepted although entry {i} (slot {slot}) is stated at position {:?}; muts {applied:?}; n={} subset={selected:?}", idx.get(i), c.n));
                    }
                }
            }
        }
    } else {
        rep.label("A:mutated-rejected");
    }
    rep
}

fn a_systematic(n: usize, seed: u64, subset: u64) -> Vec<ACase> {
    let mut out = vec![ACase { n, seed, subset, muts: vec![AMut::None] }];
    let sel = (0..n).filter(|i| subset >> i & 1 == 1).count();
    let step = |len: usize, i: usize| -> u16 { (((i as u64) << 16) / len.max(1) as u64 + 1).min(65535) as u16 };
    for i in 0..sel {
        let ri = step(sel, i);
        for j in 0..n {
            out.push(ACase { n, seed, subset, muts: vec![AMut::PartyTo { i: ri, j: step(n, j) }] });
            out.push(ACase { n, seed, subset, muts: vec![AMut::IndexTo { i: ri, val: j as u64 }] });
        }
        out.push(ACase { n, seed, subset, muts: vec![AMut::IndexTo { i: ri, val: n as u64 }] });
        out.push(ACase { n, seed, subset, muts: vec![AMut::IndexTo { i: ri, val: u64::MAX }] });
        out.push(ACase { n, seed, subset, muts: vec![AMut::Outsider { i: ri, seed: 5 }] });
        out.push(ACase { n, seed, subset, muts: vec![AMut::StakePlus { i: ri }] });
        out.push(ACase { n, seed, subset, muts: vec![AMut::DupIndex { i: ri }] });
        out.push(ACase { n, seed, subset, muts: vec![AMut::DoubledPath { i: ri }] });
        if i + 1 < sel {
            out.push(ACase { n, seed, subset, muts: vec![AMut::SwapIndices { i: ri, j: step(sel, i + 1) }] });
        }
    }
    // path nodes (at most ceil(log2 n) * |S| of them)
    for i in 0..(sel * 4).min(12) {
        let ri = step((sel * 4).min(12), i);
        out.push(ACase { n, seed, subset, muts: vec![AMut::FlipNode { i: ri, bit: (i * 37) as u16 }] });
        out.push(ACase { n, seed, subset, muts: vec![AMut::DropNode { i: ri }] });
        out.push(ACase { n, seed, subset, muts: vec![AMut::DupNode { i: ri }] });
        out.push(ACase { n, seed, subset, muts: vec![AMut::SwapNodes { i: ri, j: step((sel * 4).min(12), i + 1) }] });
    }
    out.push(ACase { n, seed, subset, muts: vec![AMut::OtherRoot] });
    out
}

fn a_mut_strategy() -> impl Strategy<Value = AMut> {
    let r = any::<u16>();
    prop_oneof![
        (r, r).prop_map(|(i, j)| AMut::PartyTo { i, j }),
        (r, 0u64..100).prop_map(|(i, seed)| AMut::Outsider { i, seed }),
        r.prop_map(|i| AMut::StakePlus { i }),
        (r, prop_oneof![0u64..70, Just(u64::MAX), Just(u64::MAX - 1), Just(1u64 << 63)]).prop_map(|(i, val)| AMut::IndexTo { i, val }),
        (r, r).prop_map(|(i, j)| AMut::SwapIndices { i, j }),
        r.prop_map(|i| AMut::DupIndex { i }),
        (r, r).prop_map(|(i, bit)| AMut::FlipNode { i, bit }),
        r.prop_map(|i| AMut::DropNode { i }),
        r.prop_map(|i| AMut::DupNode { i }),
        (r, r).prop_map(|(i, j)| AMut::SwapNodes { i, j }),
        Just(AMut::OtherRoot),
        r.prop_map(|i| AMut::DoubledPath { i }),
    ]
}

fn a_random_strategy(max_n: usize) -> impl Strategy<Value = ACase> {
    (8usize..=max_n, 0u64..3, any::<u64>(), prop::collection::vec(a_mut_strategy(), 1..=2)).prop_map(|(n, seed, subset, muts)| {
        let mask = if n >= 64 { u64::MAX } else { (1u64 << n) - 1 };
        let mut subset = subset & mask;
        // keep selections small enough that m = n + 2 indices suffice
        if subset == 0 {
            subset = 1;
        }
        ACase { n, seed, subset, muts }
    })
}

// ================================================================================================= (B) MKTree / MKProof

fn leaf_value(tag: u64, i: usize) -> MKTreeNode {
    // application-like leaves: ASCII strings (as transaction hashes / file digests are)
    // tags >= 100 give lists with repeated leaf values (period tag-99), e.g. equal file digests
    let i = if tag >= 100 { i % (tag as usize - 99) } else { i };
    MKTreeNode::from(format!("leaf-{tag}-{i:04}"))
}

#[derive(Clone, Debug, Serialize, Deserialize)]
enum LeafWith {
    NonMember(u64),
    OtherMember(u16),
    Internal(u16),
}

#[derive(Clone, Debug, Serialize, Deserialize)]
enum PMut {
    ReplaceLeaf { i: u16, with: LeafWith },
    MoveLeaf { i: u16, to: u16, delta: i8 },
    SwapLeafPositions { i: u16, j: u16 },
    SwapLeafValues { i: u16, j: u16 },
    DupLeaf { i: u16 },
    DropLeaf { i: u16 },
    ReverseLeaves,
    FlipItem { i: u16, bit: u16 },
    DropItem { i: u16 },
    DupItem { i: u16 },
    SwapItems { i: u16, j: u16 },
    AddItem { byte: u8 },
    AlterRoot { bit: u16 },
    SetSize { raw: u16 },
}

fn pmut_name(m: &PMut) -> String {
    let s = format!("{m:?}");
    let head = s.split([' ', '{', '(']).next().unwrap_or("").to_string();
    match m {
        PMut::ReplaceLeaf { with, .. } => format!("{head}:{}", format!("{with:?}").split('(').next().unwrap_or("")),
        _ => head,
    }
}

fn node_json(n: &MKTreeNode) -> Value {
    serde_json::to_value(n).unwrap()
}

fn node_of(v: &Value) -> Option<MKTreeNode> {
    serde_json::from_value(v.clone()).ok()
}

/// all internal node values of the MMR over `leaves` (aligned complete sub-trees of height >= 1)
fn internal_nodes(leaves: &[MKTreeNode]) -> Vec<MKTreeNode> {
    let mut out = vec![];
    let mut level: Vec<MKTreeNode> = leaves.to_vec();
    while level.len() >= 2 {
        let next: Vec<MKTreeNode> = level.chunks(2).filter(|c| c.len() == 2).map(|c| &c[0] + &c[1]).collect();
        out.extend(next.iter().cloned());
        level = next;
    }
    out
}

/// apply a mutation to the JSON view of an MKProof; `leaves` = committed leaves (for member/internal replacement)
fn apply_pmut(v: &mut Value, m: &PMut, leaves: &[MKTreeNode], internals: &[MKTreeNode], all_positions: &[u64]) -> bool {
    let nl = v["inner_leaves"].as_array().map(|a| a.len()).unwrap_or(0);
    let ni = v["inner_proof_items"].as_array().map(|a| a.len()).unwrap_or(0);
    match m {
        PMut::ReplaceLeaf { i, with } => {
            if nl == 0 {
                return false;
            }
            let p = pick_index(*i, nl);
            let newv = match with {
                LeafWith::NonMember(t) => MKTreeNode::from(format!("foreign-{t}")),
                LeafWith::OtherMember(j) => leaves[pick_index(*j, leaves.len())].clone(),
                LeafWith::Internal(j) => {
                    if internals.is_empty() {
                        return false;
                    }
                    internals[pick_index(*j, internals.len())].clone()
                }
            };
            if node_of(&v["inner_leaves"][p][1]).as_ref() == Some(&newv) {
                return false;
            }
            v["inner_leaves"][p][1] = node_json(&newv);
            true
        }
        PMut::MoveLeaf { i, to, delta } => {
            if nl == 0 || all_positions.is_empty() {
                return false;
            }
            let p = pick_index(*i, nl);
            let base = all_positions[pick_index(*to, all_positions.len())] as i128 + *delta as i128;
            let newpos = base.max(0) as u64;
            if v["inner_leaves"][p][0].as_u64() == Some(newpos) {
                return false;
            }
            v["inner_leaves"][p][0] = Value::from(newpos);
            true
        }
        PMut::SwapLeafPositions { i, j } | PMut::SwapLeafValues { i, j } => {
            if nl < 2 {
                return false;
            }
            let a = pick_index(*i, nl);
            let mut b = pick_index(*j, nl);
            if a == b {
                b = (a + 1) % nl;
            }
            let slot = if matches!(m, PMut::SwapLeafPositions { .. }) { 0 } else { 1 };
            let x = v["inner_leaves"][a][slot].clone();
            let y = v["inner_leaves"][b][slot].clone();
            v["inner_leaves"][a][slot] = y;
            v["inner_leaves"][b][slot] = x;
            true
        }
        PMut::DupLeaf { i } => {
            if nl == 0 {
                return false;
            }
            let arr = v["inner_leaves"].as_array_mut().unwrap();
            let p = pick_index(*i, nl);
            let x = arr[p].clone();
            arr.insert(p, x);
            true
        }
        PMut::DropLeaf { i } => {
            if nl == 0 {
                return false;
            }
            let arr = v["inner_leaves"].as_array_mut().unwrap();
            arr.remove(pick_index(*i, nl));
            true
        }
        PMut::ReverseLeaves => {
            if nl < 2 {
                return false;
            }
            v["inner_leaves"].as_array_mut().unwrap().reverse();
            true
        }
        PMut::FlipItem { i, bit } => {
            if ni == 0 {
                return false;
            }
            let p = pick_index(*i, ni);
            let Some(mut b) = bytes_of(&v["inner_proof_items"][p]["hash"]) else { return false };
            if b.is_empty() {
                return false;
            }
            let l = b.len();
            b[(*bit as usize / 8) % l] ^= 1 << (bit % 8);
            v["inner_proof_items"][p]["hash"] = json_bytes(&b);
            true
        }
        PMut::DropItem { i } => {
            if ni == 0 {
                return false;
            }
            v["inner_proof_items"].as_array_mut().unwrap().remove(pick_index(*i, ni));
            true
        }
        PMut::DupItem { i } => {
            if ni == 0 {
                return false;
            }
            let arr = v["inner_proof_items"].as_array_mut().unwrap();
            let p = pick_index(*i, ni);
            let x = arr[p].clone();
            arr.insert(p, x);
            true
        }
        PMut::SwapItems { i, j } => {
            if ni < 2 {
                return false;
            }
            let arr = v["inner_proof_items"].as_array_mut().unwrap();
            let a = pick_index(*i, ni);
            let mut b = pick_index(*j, ni);
            if a == b {
                b = (a + 1) % ni;
            }
            if arr[a] == arr[b] {
                return false;
            }
            arr.swap(a, b);
            true
        }
        PMut::AddItem { byte } => {
            v["inner_proof_items"].as_array_mut().unwrap().push(json!({"hash": json_bytes(&[*byte; 32])}));
            true
        }
        PMut::AlterRoot { bit } => {
            let Some(mut b) = bytes_of(&v["inner_root"]["hash"]) else { return false };
            if b.is_empty() {
                return false;
            }
            let l = b.len();
            b[(*bit as usize / 8) % l] ^= 1 << (bit % 8);
            v["inner_root"]["hash"] = json_bytes(&b);
            true
        }
        PMut::SetSize { raw } => {
            let cur = v["inner_proof_size"].as_u64().unwrap_or(0);
            let new = match raw % 5 {
                0 => cur.saturating_sub(1),
                1 => cur.saturating_add(1),
                2 => cur / 2,
                3 => u64::MAX,
                _ => (*raw as u64 / 5) % cur.saturating_mul(2).saturating_add(2),
            };
            if new == cur {
                return false;
            }
            v["inner_proof_size"] = Value::from(new);
            true
        }
    }
}

fn pmut_strategy() -> impl Strategy<Value = PMut> {
    let r = any::<u16>();
    prop_oneof![
        3 => (r, prop_oneof![(0u64..50).prop_map(LeafWith::NonMember), r.prop_map(LeafWith::OtherMember), r.prop_map(LeafWith::Internal)])
            .prop_map(|(i, with)| PMut::ReplaceLeaf { i, with }),
        2 => (r, r, -2i8..=2).prop_map(|(i, to, delta)| PMut::MoveLeaf { i, to, delta }),
        1 => (r, r).prop_map(|(i, j)| PMut::SwapLeafPositions { i, j }),
        1 => (r, r).prop_map(|(i, j)| PMut::SwapLeafValues { i, j }),
        1 => r.prop_map(|i| PMut::DupLeaf { i }),
        1 => r.prop_map(|i| PMut::DropLeaf { i }),
        1 => Just(PMut::ReverseLeaves),
        2 => (r, r).prop_map(|(i, bit)| PMut::FlipItem { i, bit }),
        1 => r.prop_map(|i| PMut::DropItem { i }),
        1 => r.prop_map(|i| PMut::DupItem { i }),
        1 => (r, r).prop_map(|(i, j)| PMut::SwapItems { i, j }),
        1 => any::<u8>().prop_map(|byte| PMut::AddItem { byte }),
        1 => r.prop_map(|bit| PMut::AlterRoot { bit }),
        2 => r.prop_map(|raw| PMut::SetSize { raw }),
    ]
}

#[derive(Clone, Debug, Serialize, Deserialize)]
enum BKind {
    /// honest proof for the selection, then the mutations
    Mutate(Vec<PMut>),
    /// an honest proof of the tree built over the level-h nodes of the committed tree (same root, other leaf list)
    LevelUp { h: u8 },
}

#[derive(Clone, Debug, Serialize, Deserialize)]
struct BCase {
    n: usize,
    tag: u64,
    /// selection of leaves (bit mask for n <= 64, otherwise raw picks)
    subset: Vec<u16>,
    mask: Option<u64>,
    kind: BKind,
}

fn selection(n: usize, subset: &[u16], mask: Option<u64>) -> Vec<usize> {
    let mut s: BTreeSet<usize> = BTreeSet::new();
    if let Some(m) = mask {
        for i in 0..n.min(64) {
            if m >> i & 1 == 1 {
                s.insert(i);
            }
        }
    }
    for r in subset {
        s.insert(pick_index(*r, n));
    }
    s.into_iter().collect()
}

/// soundness oracle shared by (B) and the sub-proofs of (C): `p` verifies against `root` ⇒ it vouches only for
/// committed leaves at their positions
fn judge_mkproof(rep: &mut Report, p: &MKProof, root: &MKTreeNode, leaves: &[MKTreeNode], pos_of: &BTreeMap<u64, MKTreeNode>, probes: &[MKTreeNode], internals: &BTreeSet<MKTreeNode>, ctx: &str) -> bool {
    let verdict = catch(|| p.verify());
    let ok = matches!(verdict, Ok(Ok(())));
    if verdict.is_err() {
        rep.label("B:verify-panicked");
    }
    if !ok || p.root() != root {
        return false;
    }
    let committed: BTreeSet<&MKTreeNode> = leaves.iter().collect();
    // unknown classes first (the first violation of a case is the one reported)
    for x in probes {
        if p.contains(std::slice::from_ref(x)).is_ok() && !committed.contains(x) && !internals.contains(x) {
            rep.violation("B:non-member-vouched", format!("{ctx}: a proof verifying against the committed root vouches for the non-member {}", x.to_hex()));
        }
    }
    // positions
    let v = serde_json::to_value(p).unwrap();
    for l in v["inner_leaves"].as_array().unwrap() {
        let pos = l[0].as_u64().unwrap_or(u64::MAX);
        let val = node_of(&l[1]);
        if let Some(val) = val {
            if committed.contains(&val) && pos_of.get(&pos) != Some(&val) {
                rep.violation("wrong-position:mktree", format!("{ctx}: verifying proof states committed leaf {} at position {pos}", val.to_hex()));
            }
        }
    }
    for x in probes {
        if p.contains(std::slice::from_ref(x)).is_ok() && !committed.contains(x) && internals.contains(x) {
            rep.violation("internal-node-as-leaf:mktree", format!("{ctx}: a proof verifying against the committed root vouches for an internal node value {}", x.to_hex()));
        }
    }
    true
}

struct BTree {
    leaves: Vec<MKTreeNode>,
    tree: MKTree<MKTreeStoreInMemory>,
    root: MKTreeNode,
    pos_of: BTreeMap<u64, MKTreeNode>,
    positions: Vec<u64>,
    internals: Vec<MKTreeNode>,
}

fn b_tree(n: usize, tag: u64) -> Option<BTree> {
    let leaves: Vec<MKTreeNode> = (0..n).map(|i| leaf_value(tag, i)).collect();
    let tree = MKTree::<MKTreeStoreInMemory>::new(&leaves).ok()?;
    let root = tree.compute_root().ok()?;
    let all = tree.compute_proof(&leaves).ok()?;
    let v = serde_json::to_value(&all).ok()?;
    let mut pos_of = BTreeMap::new();
    let mut positions = vec![];
    for l in v["inner_leaves"].as_array()? {
        let pos = l[0].as_u64()?;
        pos_of.insert(pos, node_of(&l[1])?);
        positions.push(pos);
    }
    let internals = internal_nodes(&leaves);
    Some(BTree { leaves, tree, root, pos_of, positions, internals })
}

fn b_case(c: &BCase) -> Report {
    let mut rep = Report::new();
    let Some(t) = b_tree(c.n, c.tag) else {
        rep.discard("tree");
        return rep;
    };
    let internals_set: BTreeSet<MKTreeNode> = t.internals.iter().cloned().collect();
    rep.label(format!("B:n={}", if c.n <= 16 { c.n.to_string() } else { "big".into() }));
    match &c.kind {
        BKind::LevelUp { h } => {
            // nodes of height h exist for the whole tree only if n is a multiple of 2^h
            let h = (*h as u32 % 5) + 1;
            if c.n % (1usize << h) != 0 {
                rep.discard("n not a multiple of 2^h");
                return rep;
            }
            let mut level = t.leaves.clone();
            for _ in 0..h {
                level = level.chunks(2).map(|c| &c[0] + &c[1]).collect();
            }
            let Ok(t2) = MKTree::<MKTreeStoreInMemory>::new(&level) else {
                rep.discard("level tree");
                return rep;
            };
            let Ok(p) = t2.compute_proof(&level[..1]) else {
                rep.discard("level proof");
                return rep;
            };
            rep.label("B:level-up");
            rep.nontrivial(format!("B level-up n:{} h:{h}", c.n));
            let mut probes = level.clone();
            probes.extend(t.leaves.iter().cloned());
            judge_mkproof(&mut rep, &p, &t.root, &t.leaves, &t.pos_of, &probes, &internals_set, &format!("level-up h={h} n={}", c.n));
        }
        BKind::Mutate(muts) => {
            let sel = selection(c.n, &c.subset, c.mask);
            if sel.is_empty() {
                rep.discard("empty selection");
                return rep;
            }
            let chosen: Vec<MKTreeNode> = sel.iter().map(|i| t.leaves[*i].clone()).collect();
            let honest = match catch(|| t.tree.compute_proof(&chosen)) {
                Ok(Ok(p)) => p,
                other => {
                    rep.violation("B:completeness", format!("compute_proof failed for selection {sel:?} of {}: {:?}", c.n, other.map(|r| r.map(|_| ()).map_err(|e| format!("{e:#}")))));
                    return rep;
                }
            };
            // completeness
            if honest.verify().is_err() || honest.root() != &t.root || honest.contains(&chosen).is_err() {
                rep.violation("B:completeness", format!("generated proof for selection {sel:?} of {} leaves does not verify / contain its leaves", c.n));
                return rep;
            }
            // wire round trip of the honest proof
            match honest.to_bytes().and_then(|b| MKProof::from_bytes(&b)) {
                Ok(p2) if p2 == honest => {}
                _ => {
                    rep.violation("B:completeness", "honest proof does not survive to_bytes/from_bytes".to_string());
                    return rep;
                }
            }
            if muts.is_empty() {
                rep.label("B:honest-verified");
                if c.tag >= 100 {
                    rep.label("B:honest-verified-repeated-leaves");
                }
                return rep;
            }
            let mut v = serde_json::to_value(&honest).unwrap();
            let mut applied = vec![];
            let mut injected = vec![];
            for m in muts {
                if apply_pmut(&mut v, m, &t.leaves, &t.internals, &t.positions) {
                    applied.push(pmut_name(m));
                    if let PMut::ReplaceLeaf { with: LeafWith::NonMember(x), .. } = m {
                        injected.push(MKTreeNode::from(format!("foreign-{x}")));
                    }
                }
            }
            if applied.is_empty() {
                rep.label("B:no-mutation-applicable");
                return rep;
            }
            for a in &applied {
                rep.label(format!("B:mut:{a}"));
            }
            let Ok(p) = serde_json::from_value::<MKProof>(v) else {
                rep.label("B:rejected-at-decode");
                return rep;
            };
            let mut probes: Vec<MKTreeNode> = t.leaves.clone();
            probes.extend(t.internals.iter().cloned());
            probes.extend(injected);
            let acc = judge_mkproof(&mut rep, &p, &t.root, &t.leaves, &t.pos_of, &probes, &internals_set, &format!("n={} sel={sel:?} muts={applied:?}", c.n));
            rep.label(if acc { "B:mutated-accepted" } else { "B:mutated-rejected" });
            rep.nontrivial(format!("B n:{} |S|:{} muts:{applied:?} acc:{acc} odd:{}", c.n.min(40), sel.len().min(8), sel[0] % 2));
        }
    }
    rep
}

fn b_random_strategy(max_n: usize) -> impl Strategy<Value = BCase> {
    (
        prop_oneof![3 => 1usize..=40, 1 => 1usize..=max_n],
        0u64..4,
        prop::collection::vec(any::<u16>(), 1..6),
        prop_oneof![
            6 => prop::collection::vec(pmut_strategy(), 1..=2).prop_map(BKind::Mutate),
            1 => any::<u8>().prop_map(|h| BKind::LevelUp { h }),
        ],
    )
        .prop_map(|(n, tag, subset, kind)| BCase { n, tag, subset, mask: None, kind })
}

// ====================================================================================== (E) deeply nested map proofs

#[derive(Clone, Debug, Serialize, Deserialize)]
struct ECase {
    /// nesting levels of the map proof (1 = a bare tree proof seen as a map proof)
    levels: u8,
    /// leaves of the innermost tree
    leaves: u8,
    /// which of them is proven
    pick: u8,
}

/// a map proof with `levels` nesting levels around the innermost tree proof (built level by level from real trees:
/// each level is a master tree over three foreign entries and the entry key + root of the level below)
fn nested_map_proof(levels: u8, innermost: MKProof) -> Option<MKMapProof<BlockRange>> {
    let mut proof: MKMapProof<BlockRange> = innermost.into();
    for level in 1..levels {
        let key = range_of(level as u64);
        let entry: MKTreeNode = MKTreeNode::from(key.clone()) + proof.compute_root();
        let mut map_leaves: Vec<MKTreeNode> = (0..3).map(|i| MKTreeNode::from(format!("other-entry-{level}-{i}"))).collect();
        map_leaves.insert(1, entry.clone());
        let master = MKTree::<MKTreeStoreInMemory>::new(&map_leaves).ok()?.compute_proof(&[entry]).ok()?;
        proof = MKMapProof::new(master, BTreeMap::from([(key, proof)]));
    }
    Some(proof)
}

fn e_case(c: &ECase) -> Report {
    let mut rep = Report::new();
    rep.label(format!("E:levels={}", c.levels));
    let leaves: Vec<MKTreeNode> = (0..c.leaves).map(|i| MKTreeNode::from(format!("deep-tx-{i:02}"))).collect();
    let proven = leaves[c.pick as usize % leaves.len()].clone();
    let forged_leaf = MKTreeNode::from(format!("deep-tx-X{}", c.pick % 10));
    let built = catch(|| -> Option<(MKMapProof<BlockRange>, MKMapProof<BlockRange>)> {
        let inner = MKTree::<MKTreeStoreInMemory>::new(&leaves).ok()?.compute_proof(&[proven.clone()]).ok()?;
        // the same innermost proof with the proven leaf's bytes replaced by a never committed leaf of the same length
        let bytes = inner.to_bytes().ok()?;
        let needle: &[u8] = &proven;
        let at = bytes.windows(needle.len()).position(|w| w == needle)?;
        let mut fb = bytes.clone();
        fb[at..at + needle.len()].copy_from_slice(&forged_leaf);
        let forged_inner = MKProof::from_bytes(&fb).ok()?;
        Some((nested_map_proof(c.levels, inner)?, nested_map_proof(c.levels, forged_inner)?))
    });
    let (honest, forged) = match built {
        Ok(Some(x)) => x,
        _ => {
            rep.discard("nested proof could not be built");
            return rep;
        }
    };
    rep.nontrivial(format!("E levels:{} leaves:{} pick:{}", c.levels, c.leaves, c.pick));
    // both travel over the wire
    let wire = |p: &MKMapProof<BlockRange>| catch(|| p.to_bytes().and_then(|b| MKMapProof::<BlockRange>::from_bytes(&b)));
    let honest_rx = match wire(&honest) {
        Ok(Ok(p)) => p,
        other => {
            rep.violation("E:completeness", format!("an honest map proof with {} nesting levels does not survive to_bytes/from_bytes: {:?}", c.levels, other.map(|r| r.map(|_| ()).map_err(|e| format!("{e:#}")))));
            return rep;
        }
    };
    match catch(|| (honest_rx.verify().is_ok(), honest_rx.contains(&proven).is_ok(), honest_rx.compute_root() == honest.compute_root())) {
        Ok((true, true, true)) => {
            rep.label("E:honest-verified");
        }
        other => {
            rep.violation("E:completeness", format!("an honest map proof with {} nesting levels is not accepted (verify, contains, same root) = {other:?}", c.levels));
            return rep;
        }
    }
    let Ok(Ok(forged_rx)) = wire(&forged) else {
        rep.label("E:forged-not-decodable");
        return rep;
    };
    match catch(|| (forged_rx.verify().is_ok(), forged_rx.contains(&forged_leaf).is_ok())) {
        Ok((true, _)) => {
            rep.violation(
                "E:nested-forged-leaf-accepted",
                format!("a map proof with {} nesting levels whose innermost proven leaf was replaced by a never committed one verifies (root {}); contains(forged leaf) = {:?}", c.levels, forged_rx.compute_root().to_hex(), forged_rx.contains(&forged_leaf).is_ok()),
            );
        }
        Ok((false, _)) => {
            rep.label("E:forged-rejected");
        }
        Err(p) => {
            rep.violation("E:panic", format!("verifying a forged nested map proof panics: {p}"));
        }
    }
    rep
}

// ====================================================================================== (C) MKMap / MKMapProof

#[derive(Clone, Debug, Serialize, Deserialize)]
enum CMut {
    /// mutate the MKProof of the master tree
    Master(PMut),
    /// mutate the MKProof inside sub-proof i
    Sub(u16, PMut),
    DetachSub(u16),
    SwapSubs(u16, u16),
    /// give sub-proof i the key of another range (committed or not)
    AlterKey(u16, u16),
    DupSub(u16),
    /// a second entry for the key of sub-proof i whose inner proof is mutated (same key, same claimed root unless the
    /// mutation touches it), placed before or after the genuine entry
    DupSubAltered { i: u16, before: bool, m: PMut },
    EmptySubs,
    /// replace sub-proof i by an honest proof of the same range in ANOTHER map (other root)
    ForeignSub(u16),
}

#[derive(Clone, Debug, Serialize, Deserialize)]
struct CCase {
    /// leaves per range (0 = range absent)
    ranges: Vec<u8>,
    /// ranges stored as bare root (not provable)
    compressed: u16,
    tag: u64,
    picks: Vec<(u16, u16)>,
    muts: Vec<CMut>,
}

type Map = MKMap<BlockRange, MKMapNode<BlockRange, MKTreeStoreInMemory>, MKTreeStoreInMemory>;

struct CWorld {
    map: Map,
    root: MKTreeNode,
    per_range: BTreeMap<u64, Vec<MKTreeNode>>,
    provable: Vec<u64>,
}

fn range_of(i: u64) -> BlockRange {
    BlockRange::from_block_number(BlockNumber(i * 15))
}

fn c_world(ranges: &[u8], compressed: u16, tag: u64) -> Option<CWorld> {
    let mut entries = vec![];
    let mut per_range = BTreeMap::new();
    let mut provable = vec![];
    for (ri, n) in ranges.iter().enumerate() {
        if *n == 0 {
            continue;
        }
        let leaves: Vec<MKTreeNode> = (0..*n as usize).map(|i| MKTreeNode::from(format!("tx-{tag}-{ri}-{i:03}"))).collect();
        let tree = MKTree::<MKTreeStoreInMemory>::new(&leaves).ok()?;
        let node: MKMapNode<BlockRange, MKTreeStoreInMemory> = if compressed >> ri & 1 == 1 {
            MKMapNode::TreeNode(tree.compute_root().ok()?)
        } else {
            provable.push(ri as u64);
            tree.into()
        };
        per_range.insert(ri as u64, leaves);
        entries.push((range_of(ri as u64), node));
    }
    if entries.is_empty() {
        return None;
    }
    let map = Map::new(&entries).ok()?;
    let root = map.compute_root().ok()?;
    Some(CWorld { map, root, per_range, provable })
}

fn c_case(c: &CCase) -> Report {
    let mut rep = Report::new();
    let Some(w) = c_world(&c.ranges, c.compressed, c.tag) else {
        rep.discard("empty map");
        return rep;
    };
    if w.provable.is_empty() {
        rep.discard("no provable range");
        return rep;
    }
    // selection: leaves from provable ranges
    let mut sel: BTreeSet<(u64, usize)> = BTreeSet::new();
    for (r, l) in &c.picks {
        let ri = w.provable[pick_index(*r, w.provable.len())];
        let leaves = &w.per_range[&ri];
        sel.insert((ri, pick_index(*l, leaves.len())));
    }
    let chosen: Vec<MKTreeNode> = sel.iter().map(|(r, l)| w.per_range[r][*l].clone()).collect();
    let ranges_spanned: BTreeSet<u64> = sel.iter().map(|x| x.0).collect();
    let honest = match catch(|| w.map.compute_proof(&chosen)) {
        Ok(Ok(p)) => p,
        other => {
            rep.violation("C:completeness", format!("map compute_proof failed for {sel:?}: {:?}", other.map(|r| r.map(|_| ()).map_err(|e| format!("{e:#}")))));
            return rep;
        }
    };
    if honest.verify().is_err() || honest.compute_root() != w.root || chosen.iter().any(|x| honest.contains(x).is_err()) {
        rep.violation("C:completeness", format!("generated map proof for {sel:?} does not verify / contain its leaves (ranges {:?})", c.ranges));
        return rep;
    }
    match honest.to_bytes().and_then(|b| MKMapProof::<BlockRange>::from_bytes(&b)) {
        Ok(p2) if p2 == honest => {}
        _ => {
            rep.violation("C:completeness", "honest map proof does not survive to_bytes/from_bytes".to_string());
            return rep;
        }
    }
    rep.label(format!("C:ranges-spanned={}", ranges_spanned.len().min(4)));
    if c.muts.is_empty() {
        rep.label("C:honest-verified");
        return rep;
    }
    let all_leaves: Vec<MKTreeNode> = w.per_range.values().flatten().cloned().collect();
    let mut internals: Vec<MKTreeNode> = w.per_range.values().flat_map(|l| internal_nodes(l)).collect();
    // master-level nodes: key + sub-root merged, and the master tree's internal nodes
    let master_leaves: Vec<MKTreeNode> = w
        .per_range
        .iter()
        .map(|(ri, leaves)| {
            let sub_root = MKTree::<MKTreeStoreInMemory>::new(leaves).unwrap().compute_root().unwrap();
            let key: MKTreeNode = range_of(*ri).into();
            &key + &sub_root
        })
        .collect();
    internals.extend(master_leaves.iter().cloned());
    internals.extend(internal_nodes(&master_leaves));
    let mut v = serde_json::to_value(&honest).unwrap();
    let mut applied = vec![];
    let mut injected: Vec<MKTreeNode> = vec![];
    let other_world = c_world(&c.ranges, c.compressed, c.tag + 1000);
    for m in &c.muts {
        let ns = v["sub_proofs"].as_array().map(|a| a.len()).unwrap_or(0);
        let ok = match m {
            CMut::Master(pm) => {
                if let PMut::ReplaceLeaf { with: LeafWith::NonMember(x), .. } = pm {
                    injected.push(MKTreeNode::from(format!("foreign-{x}")));
                }
                let pos: Vec<u64> = v["master_proof"]["inner_leaves"].as_array().map(|a| a.iter().filter_map(|l| l[0].as_u64()).collect()).unwrap_or_default();
                apply_pmut(&mut v["master_proof"], pm, &master_leaves, &internals, &pos)
            }
            CMut::Sub(i, pm) => {
                if ns == 0 {
                    false
                } else {
                    let p = pick_index(*i, ns);
                    if let PMut::ReplaceLeaf { with: LeafWith::NonMember(x), .. } = pm {
                        injected.push(MKTreeNode::from(format!("foreign-{x}")));
                    }
                    let pos: Vec<u64> = v["sub_proofs"][p][1]["master_proof"]["inner_leaves"].as_array().map(|a| a.iter().filter_map(|l| l[0].as_u64()).collect()).unwrap_or_default();
                    apply_pmut(&mut v["sub_proofs"][p][1]["master_proof"], pm, &all_leaves, &internals, &pos)
                }
            }
            CMut::DetachSub(i) => {
                if ns == 0 {
                    false
                } else {
                    v["sub_proofs"].as_array_mut().unwrap().remove(pick_index(*i, ns));
                    true
                }
            }
            CMut::SwapSubs(i, j) => {
                if ns < 2 {
                    false
                } else {
                    let a = pick_index(*i, ns);
                    let mut b = pick_index(*j, ns);
                    if a == b {
                        b = (a + 1) % ns;
                    }
                    let x = v["sub_proofs"][a][1].clone();
                    let y = v["sub_proofs"][b][1].clone();
                    v["sub_proofs"][a][1] = y;
                    v["sub_proofs"][b][1] = x;
                    true
                }
            }
            CMut::AlterKey(i, to) => {
                if ns == 0 {
                    false
                } else {
                    let p = pick_index(*i, ns);
                    let newk = serde_json::to_value(range_of(*to as u64 % (c.ranges.len() as u64 + 2))).unwrap();
                    if v["sub_proofs"][p][0] == newk {
                        false
                    } else {
                        v["sub_proofs"][p][0] = newk;
                        true
                    }
                }
            }
            CMut::DupSub(i) => {
                if ns == 0 {
                    false
                } else {
                    let arr = v["sub_proofs"].as_array_mut().unwrap();
                    let p = pick_index(*i, ns);
                    let x = arr[p].clone();
                    arr.insert(p, x);
                    true
                }
            }
            CMut::DupSubAltered { i, before, m } => {
                if ns == 0 {
                    false
                } else {
                    let p = pick_index(*i, ns);
                    if let PMut::ReplaceLeaf { with: LeafWith::NonMember(x), .. } = m {
                        injected.push(MKTreeNode::from(format!("foreign-{x}")));
                    }
                    let mut copy = v["sub_proofs"][p].clone();
                    let pos: Vec<u64> = copy[1]["master_proof"]["inner_leaves"].as_array().map(|a| a.iter().filter_map(|l| l[0].as_u64()).collect()).unwrap_or_default();
                    if apply_pmut(&mut copy[1]["master_proof"], m, &all_leaves, &internals, &pos) {
                        let at = if *before { p } else { p + 1 };
                        v["sub_proofs"].as_array_mut().unwrap().insert(at, copy);
                        true
                    } else {
                        false
                    }
                }
            }
            CMut::EmptySubs => {
                if ns == 0 {
                    false
                } else {
                    v["sub_proofs"] = json!([]);
                    true
                }
            }
            CMut::ForeignSub(i) => {
                if ns == 0 {
                    false
                } else if let Some(ow) = &other_world {
                    let p = pick_index(*i, ns);
                    // honest sub-proof of the same range taken from another map
                    let key: BlockRange = serde_json::from_value(v["sub_proofs"][p][0].clone()).unwrap();
                    let ri = *key.start / 15;
                    match ow.per_range.get(&ri).and_then(|l| ow.map.compute_proof(&l[..1]).ok()) {
                        Some(fp) => {
                            let fv = serde_json::to_value(&fp).unwrap();
                            injected.extend(ow.per_range[&ri].iter().cloned());
                            match fv["sub_proofs"].as_array().and_then(|a| a.first()) {
                                Some(sp) => {
                                    v["sub_proofs"][p][1] = sp[1].clone();
                                    true
                                }
                                None => false,
                            }
                        }
                        None => false,
                    }
                } else {
                    false
                }
            }
        };
        if ok {
            let s = format!("{m:?}");
            let head = s.split([' ', '{', '(']).next().unwrap_or("").to_string();
            let name = match m {
                CMut::Master(pm) => format!("Master:{}", pmut_name(pm)),
                CMut::Sub(_, pm) => format!("Sub:{}", pmut_name(pm)),
                _ => head,
            };
            applied.push(name);
        }
    }
    if applied.is_empty() {
        rep.label("C:no-mutation-applicable");
        return rep;
    }
    for a in &applied {
        rep.label(format!("C:mut:{a}"));
    }
    let Ok(p) = serde_json::from_value::<MKMapProof<BlockRange>>(v) else {
        rep.label("C:rejected-at-decode");
        return rep;
    };
    let verdict = catch(|| p.verify());
    let acc = matches!(verdict, Ok(Ok(()))) && p.compute_root() == w.root;
    if verdict.is_err() {
        rep.label("C:verify-panicked");
    }
    rep.label(if acc { "C:mutated-accepted" } else { "C:mutated-rejected" });
    rep.nontrivial(format!("C ranges:{} spanned:{} muts:{applied:?} acc:{acc}", w.per_range.len(), ranges_spanned.len()));
    if acc {
        let committed: BTreeSet<&MKTreeNode> = all_leaves.iter().collect();
        let internal_set: BTreeSet<&MKTreeNode> = internals.iter().collect();
        let mut probes: Vec<MKTreeNode> = all_leaves.clone();
        probes.extend(internals.iter().cloned());
        probes.extend(injected.iter().cloned());
        for x in &probes {
            if p.contains(x).is_ok() && !committed.contains(x) && !internal_set.contains(x) {
                rep.violation("C:non-member-vouched", format!("a map proof verifying against the committed root vouches for the non-member {}; muts {applied:?}; ranges {:?}", x.to_hex(), c.ranges));
            }
        }
        // key binding: the leaves of the sub-proof filed under key K are committed leaves of range K
        let pv = serde_json::to_value(&p).unwrap();
        for sp in pv["sub_proofs"].as_array().unwrap() {
            let key: BlockRange = serde_json::from_value(sp[0].clone()).unwrap();
            let ri = *key.start / 15;
            let of_range: BTreeSet<&MKTreeNode> = w.per_range.get(&ri).map(|l| l.iter().collect()).unwrap_or_default();
            for l in sp[1]["master_proof"]["inner_leaves"].as_array().unwrap() {
                if let Some(x) = node_of(&l[1]) {
                    if committed.contains(&x) && !of_range.contains(&x) {
                        rep.violation("C:wrong-key", format!("a verifying map proof files committed leaf {} under the key of range {ri}; muts {applied:?}", x.to_hex()));
                    }
                }
            }
        }
        for x in &probes {
            if p.contains(x).is_ok() && !committed.contains(x) && internal_set.contains(x) {
                rep.violation("internal-node-as-leaf:mkmap", format!("a map proof verifying against the committed root vouches for the internal/master-level node {}; muts {applied:?}", x.to_hex()));
            }
        }
    }
    rep
}

fn c_strategy() -> impl Strategy<Value = CCase> {
    let r = any::<u16>();
    let cm = prop_oneof![
        2 => pmut_strategy().prop_map(CMut::Master),
        3 => (r, pmut_strategy()).prop_map(|(i, m)| CMut::Sub(i, m)),
        1 => r.prop_map(CMut::DetachSub),
        2 => (r, r).prop_map(|(i, j)| CMut::SwapSubs(i, j)),
        2 => (r, r).prop_map(|(i, j)| CMut::AlterKey(i, j)),
        1 => r.prop_map(CMut::DupSub),
        4 => (r, any::<bool>(), pmut_strategy()).prop_map(|(i, before, m)| CMut::DupSubAltered { i, before, m }),
        1 => Just(CMut::EmptySubs),
        2 => r.prop_map(CMut::ForeignSub),
    ];
    (
        prop::collection::vec(prop_oneof![1 => Just(0u8), 5 => 1u8..=12], 1..=8),
        prop_oneof![2 => Just(0u16), 1 => any::<u16>()],
        0u64..4,
        prop::collection::vec((r, r), 1..6),
        prop_oneof![1 => Just(vec![]), 8 => prop::collection::vec(cm, 1..=2)],
    )
        .prop_map(|(ranges, compressed, tag, picks, muts)| CCase { ranges, compressed, tag, picks, muts })
}

// ============================================================================================================ run

// ------------------------------------------------------------------------------------------------ D: byte level

/// a seed (honest proof encoding) with 0..4 byte-level mutations
#[derive(Clone, Debug, Serialize, Deserialize)]
pub struct DCase {
    pub seed: u16,
    pub muts: Vec<DMut>,
}

#[derive(Clone, Debug, Serialize, Deserialize)]
pub enum DMut {
    Set { at: u16, v: u8 },
    Xor { at: u16, v: u8 },
    Insert { at: u16, v: u8 },
    Delete { at: u16, n: u8 },
    /// copy a window of another seed's encoding over this one (leaves / path nodes of another tree or selection)
    Splice { from: u16, src: u16, dst: u16, len: u8 },
    /// overwrite with a window of the same encoding (moves a node value onto a leaf slot and the like)
    CopyWithin { src: u16, dst: u16, len: u8 },
    Truncate { at: u16 },
}

#[derive(Clone, Debug, Serialize, Deserialize)]
pub struct DRaw {
    pub data_hex: String,
}

fn d_strategy(n_seeds: usize) -> impl Strategy<Value = DCase> {
    let _ = n_seeds;
    let r = any::<u16>;
    let m = prop_oneof![
        3 => (r(), any::<u8>()).prop_map(|(at, v)| DMut::Set { at, v }),
        3 => (r(), 1u8..=255).prop_map(|(at, v)| DMut::Xor { at, v }),
        1 => (r(), any::<u8>()).prop_map(|(at, v)| DMut::Insert { at, v }),
        1 => (r(), 1u8..=40).prop_map(|(at, n)| DMut::Delete { at, n }),
        4 => (r(), r(), r(), prop_oneof![Just(32u8), Just(33u8), Just(34u8), 1u8..=80]).prop_map(|(from, src, dst, len)| DMut::Splice { from, src, dst, len }),
        4 => (r(), r(), prop_oneof![Just(32u8), Just(33u8), 1u8..=80]).prop_map(|(src, dst, len)| DMut::CopyWithin { src, dst, len }),
        1 => r().prop_map(|at| DMut::Truncate { at }),
    ];
    (r(), prop::collection::vec(m, 0..=4)).prop_map(|(seed, muts)| DCase { seed, muts })
}

fn d_bytes(c: &DCase) -> Vec<u8> {
    let seeds = crate::mkproof_oracle::seed_corpus_cached();
    let mut b = seeds[vcore::pick_index(c.seed, seeds.len())].clone();
    for m in &c.muts {
        if b.is_empty() {
            break;
        }
        match m {
            DMut::Set { at, v } => {
                let i = vcore::pick_index(*at, b.len());
                b[i] = *v;
            }
            DMut::Xor { at, v } => {
                let i = vcore::pick_index(*at, b.len());
                b[i] ^= *v;
            }
            DMut::Insert { at, v } => {
                let i = vcore::pick_index(*at, b.len() + 1);
                b.insert(i, *v);
            }
            DMut::Delete { at, n } => {
                let i = vcore::pick_index(*at, b.len());
                let e = (i + *n as usize).min(b.len());
                b.drain(i..e);
            }
            DMut::Splice { from, src, dst, len } => {
                let o = &seeds[vcore::pick_index(*from, seeds.len())];
                let s = vcore::pick_index(*src, o.len());
                let e = (s + *len as usize).min(o.len());
                let d = vcore::pick_index(*dst, b.len());
                for (k, x) in o[s..e].iter().enumerate() {
                    if d + k < b.len() {
                        b[d + k] = *x;
                    }
                }
            }
            DMut::CopyWithin { src, dst, len } => {
                let s = vcore::pick_index(*src, b.len());
                let e = (s + *len as usize).min(b.len());
                let w: Vec<u8> = b[s..e].to_vec();
                let d = vcore::pick_index(*dst, b.len());
                for (k, x) in w.iter().enumerate() {
                    if d + k < b.len() {
                        b[d + k] = *x;
                    }
                }
            }
            DMut::Truncate { at } => {
                let i = vcore::pick_index(*at, b.len());
                b.truncate(i);
            }
        }
    }
    b
}

fn d_judge(rep: &mut Report, data: &[u8], structured: bool, shape: String) {
    use crate::mkproof_oracle::Verdict;
    match vcore::catch(|| crate::mkproof_oracle::judge_input(data, structured)) {
        Err(p) => {
            rep.violation("D:panic-in-verify", format!("MKProof decoding / verification panics on {}: {p}", hex::encode(data)));
        }
        Ok(Verdict::Irrelevant) => {
            rep.label("D:not-verifying");
        }
        Ok(Verdict::Sound { leaves }) => {
            rep.label("D:verifies-sound");
            rep.nontrivial(format!("{shape}|sound|{}", leaves.min(9)));
        }
        Ok(Verdict::KnownInternalNode) => {
            rep.label("D:verifies-internal-node(known)");
            rep.excluded_known("internal-node-as-leaf:mktree");
        }
        Ok(Verdict::Violation(what)) => {
            rep.violation("D:non-member-vouched", format!("{what}; input {}", hex::encode(data)));
        }
    }
}

fn d_case(c: &DCase) -> Report {
    let mut rep = Report::new();
    let b = d_bytes(c);
    rep.label(if c.muts.is_empty() { "D:honest" } else { "D:mutated" });
    let kinds: Vec<&str> = c
        .muts
        .iter()
        .map(|m| match m {
            DMut::Set { .. } => "set",
            DMut::Xor { .. } => "xor",
            DMut::Insert { .. } => "ins",
            DMut::Delete { .. } => "del",
            DMut::Splice { .. } => "splice",
            DMut::CopyWithin { .. } => "copy",
            DMut::Truncate { .. } => "trunc",
        })
        .collect();
    d_judge(&mut rep, &b, false, format!("{}|{kinds:?}", c.seed % 64));
    if c.muts.is_empty() && !rep.labels.iter().any(|l| l == "D:verifies-sound") {
        rep.violation("D:honest-proof-rejected", format!("the honest encoding #{} does not decode / verify", c.seed));
    }
    rep
}

/// the structured input format of the fuzz target (seed byte + 4-byte edits), generated
#[derive(Clone, Debug, Serialize, Deserialize)]
pub struct DStruct {
    pub data: Vec<u8>,
}

fn d_struct_case(c: &DStruct) -> Report {
    let mut rep = Report::new();
    let edits = (c.data.len().saturating_sub(1)) / 4;
    rep.label(if edits == 0 { "D:honest" } else { "D:structured-edits" });
    let ops: Vec<u8> = c.data.iter().skip(1).step_by(4).take(12).map(|o| o % 10).collect();
    d_judge(&mut rep, &c.data, true, format!("s{}|{ops:?}", c.data[0] % 64));
    rep
}

fn d_raw_case(c: &DRaw) -> Report {
    let mut rep = Report::new();
    rep.label("D:libfuzzer-artifact");
    match hex::decode(&c.data_hex) {
        Ok(b) => {
            // a fuzzer artifact carries the mode byte of the target's input format
            let structured = b.first().is_some_and(|m| m % 2 == 1);
            d_judge(&mut rep, b.get(1..).unwrap_or(&[]), structured, "artifact".into())
        }
        Err(_) => {
            rep.discard("undecodable artifact");
        }
    }
    rep
}

/// thorough tier: the libFuzzer target over the same oracle (approximately pinned by -seed / -runs; the artifact is
/// the reproducible unit and is judged in-process by `d_raw_case`)
fn run_mkproof_fuzzer(check: &Check, runs_per_worker: u64) -> Vec<DRaw> {
    let mut found = vec![];
    let fuzz_dir = format!("{}/fuzz", std::env::var("VERIF_HARNESS_DIR").unwrap_or_else(|_| "/verif/harness".into()));
    let scratch = check.scratch_dir().join("fuzz-mkproof");
    let _ = std::fs::remove_dir_all(&scratch);
    let corpus = scratch.join("corpus");
    let artifacts = scratch.join("artifacts");
    let _ = std::fs::create_dir_all(&corpus);
    let _ = std::fs::create_dir_all(&artifacts);
    crate::mkproof_oracle::write_corpus(&corpus);
    let build = std::process::Command::new("cargo").args(["+nightly", "fuzz", "build", "--fuzz-dir", ".", "fuzz_mkproof"]).current_dir(&fuzz_dir).env("CARGO_NET_OFFLINE", "true").output();
    if !matches!(&build, Ok(o) if o.status.success()) {
        check.inconclusive("cargo fuzz build fuzz_mkproof failed".into());
        return found;
    }
    let args: Vec<String> = vec![
        "+nightly".into(), "fuzz".into(), "run".into(), "--fuzz-dir".into(), ".".into(), "fuzz_mkproof".into(), corpus.display().to_string(), "--".into(),
        format!("-runs={runs_per_worker}"), format!("-seed={}", (check.seed % 0x7fff_ffff).max(1)), "-max_len=4096".into(), "-len_control=0".into(), "-timeout=30".into(),
        "-rss_limit_mb=4096".into(), format!("-artifact_prefix={}/", artifacts.display()), format!("-fork={}", check.threads.max(1)), "-ignore_crashes=0".into(), "-print_final_stats=1".into(),
    ];
    let t0 = std::time::Instant::now();
    let out = std::process::Command::new("cargo").args(&args).current_dir(&fuzz_dir).env("CARGO_NET_OFFLINE", "true").output();
    let (ok, tail) = match &out {
        Ok(o) => (o.status.success(), String::from_utf8_lossy(&o.stderr).lines().rev().take(6).collect::<Vec<_>>().join(" | ")),
        Err(e) => (false, e.to_string()),
    };
    if let Ok(rd) = std::fs::read_dir(&artifacts) {
        for f in rd.flatten() {
            if let Ok(data) = std::fs::read(f.path()) {
                found.push(DRaw { data_hex: hex::encode(data) });
            }
        }
    }
    check.note_section("libfuzzer:fuzz_mkproof", json!({"runs_per_worker": runs_per_worker, "workers": check.threads, "wall_s": t0.elapsed().as_secs_f64(), "exit_ok": ok, "artifacts": found.len(), "tail": tail.chars().take(600).collect::<String>()}));
    if !ok && found.is_empty() {
        check.inconclusive(format!("libFuzzer run of fuzz_mkproof ended abnormally without an artifact: {}", tail.chars().take(300).collect::<String>()));
    }
    found
}

pub fn run(args: &Args) -> i32 {
    let mut check = Check::new("C09", "exploration", args);
    check
        .rule("(A) registration batch tree through AggregateSignature::verify: EVERY tree size n<=N and EVERY non-empty leaf subset, each with a systematic mutation list (every entry → every other registered party / outsider / stake+1; every stated position → every other position, n, u64::MAX, duplicated, swapped; path nodes flipped/dropped/duplicated/swapped; foreign root), then sampled n up to 40; (B) MKTree/MKProof: every n<=N2 with every subset plus sampled n up to 300, mutated by a 14-rule grammar over the proof's serde view (leaf replaced by non-member/other member/internal node, moved, swapped, duplicated; items altered/dropped/duplicated/reordered; root, declared size) and 'level-up' proofs; (C) block-range MKMap of 1..8 trees (some compressed): master/sub proof mutations, sub-proofs detached/swapped/re-keyed/duplicated/foreign. Non-trivial = a mutated proof object; distinct by (structure, n, |S|, mutation kinds, verdict, parity of first position)")
        .assume("hash functions (Blake2b-256, Blake2s-256) are collision resistant; only structural manipulations are explored")
        .assume("'vouches' = contains(x) over a probe set of all committed leaves, all injected values, all internal node values")
        .require_label("A:honest-verified")
        .require_label("A:mutated-rejected")
        .require_label("A:mut:IndexTo")
        .require_label("B:honest-verified")
        .require_label("B:honest-verified-repeated-leaves")
        .require_label("B:mutated-rejected")
        .require_label("B:mut:ReplaceLeaf:Internal")
        .require_label("B:mut:SetSize")
        .require_label("B:level-up")
        .require_label("C:honest-verified")
        .require_label("C:mutated-rejected")
        .require_label("C:mut:SwapSubs")
        .require_label("C:mut:ForeignSub");
    let t = check.tier;
    check.shrink_iters(400);
    // (A) exhaustive
    let a_max = match t {
        Tier::Quick => 6usize,
        Tier::Thorough => 9,
    };
    let mut a_items = vec![];
    for n in 1..=a_max {
        for subset in 1u64..(1u64 << n) {
            a_items.extend(a_systematic(n, 0, subset));
        }
    }
    check.enumerate("A-exhaustive", a_items.into_iter(), true, a_case);
    check.section("A-sampled", || a_random_strategy(40), t.pick(400, 20_000), a_case);
    // (B) exhaustive subsets for small n, honest completeness for every n up to 33
    let b_max = match t {
        Tier::Quick => 8usize,
        Tier::Thorough => 10,
    };
    let mut b_items = vec![];
    for n in 1..=b_max {
        for mask in 1u64..(1u64 << n) {
            b_items.push(BCase { n, tag: 0, subset: vec![], mask: Some(mask), kind: BKind::Mutate(vec![]) });
            // a fixed systematic set per subset
            for (k, m) in [
                PMut::ReplaceLeaf { i: 0, with: LeafWith::NonMember(1) },
                PMut::ReplaceLeaf { i: u16::MAX, with: LeafWith::OtherMember((mask as u16).wrapping_mul(7919)) },
                PMut::ReplaceLeaf { i: 0, with: LeafWith::Internal((mask as u16).wrapping_mul(31)) },
                PMut::MoveLeaf { i: 0, to: (mask as u16).wrapping_mul(523), delta: 0 },
                PMut::MoveLeaf { i: u16::MAX, to: u16::MAX, delta: 1 },
                PMut::SwapLeafPositions { i: 0, j: u16::MAX },
                PMut::DropItem { i: (mask as u16).wrapping_mul(97) },
                PMut::FlipItem { i: (mask as u16).wrapping_mul(61), bit: mask as u16 },
                PMut::SetSize { raw: 0 },
                PMut::SetSize { raw: 1 },
            ]
            .into_iter()
            .enumerate()
            {
                let _ = k;
                b_items.push(BCase { n, tag: 0, subset: vec![], mask: Some(mask), kind: BKind::Mutate(vec![m]) });
            }
        }
    }
    // committed lists with repeated leaf values: every selection must still produce a verifying proof
    for n in 2..=7usize {
        for period in 1..=3u64 {
            for mask in 1u64..(1u64 << n) {
                b_items.push(BCase { n, tag: 99 + period, subset: vec![], mask: Some(mask), kind: BKind::Mutate(vec![]) });
            }
        }
    }
    for n in 1..=33usize {
        b_items.push(BCase { n, tag: 1, subset: (0..n as u32).map(|i| ((i as u64 * 65536 / n as u64) as u16).saturating_add(1)).collect(), mask: None, kind: BKind::Mutate(vec![]) });
        for h in 0..5u8 {
            b_items.push(BCase { n, tag: 1, subset: vec![], mask: None, kind: BKind::LevelUp { h } });
        }
    }
    check.enumerate("B-exhaustive", b_items.into_iter(), true, b_case);
    check.section("B-sampled", || b_random_strategy(300), t.pick(6000, 300_000), b_case);
    check.section("C-maps", c_strategy, t.pick(4000, 200_000), c_case);
    // (E) map proofs nested far deeper than the two levels Mithril produces, up to the deepest the decoder accepts
    let e_items: Vec<ECase> = [1u8, 2, 3, 4, 8, 16, 24, 30, 31, 32].iter().flat_map(|l| [2u8, 5, 9].into_iter().flat_map(move |n| (0..n.min(3)).map(move |pick| ECase { levels: *l, leaves: n, pick }))).collect();
    check.enumerate("E-deep-map-proofs", e_items.into_iter(), false, e_case);

    // byte level (D): bincode encodings of honest proofs over fixed committed trees, mutated; the same oracle runs inside
    // the libFuzzer target `fuzz_mkproof` (coverage-guided, thorough tier), whose artifacts are judged here in-process
    let n_seeds = crate::mkproof_oracle::seed_corpus().len();
    check.section("D-mkproof-bytes", move || d_strategy(n_seeds), t.pick(60_000, 1_500_000), d_case);
    check.section("D-mkproof-structured", || prop::collection::vec(any::<u8>(), 1..50).prop_map(|data| DStruct { data }), t.pick(120_000, 3_000_000), d_struct_case);
    if t == Tier::Thorough && !check.is_replay() {
        let found = run_mkproof_fuzzer(&check, 3_000_000);
        check.enumerate("D-libfuzzer-artifacts", found.into_iter(), false, d_raw_case);
    }

    // dedicated witnesses of the open findings (executed on every run)
    check.witness("internal-node-as-leaf:mktree", "MKProof: the root does not commit to the leaf level — a proof over the height-1 nodes of a 4-leaf tree verifies against its root and vouches for them as leaves", || {
        let leaves: Vec<MKTreeNode> = (0..4).map(|i| leaf_value(9, i)).collect();
        let t = MKTree::<MKTreeStoreInMemory>::new(&leaves).unwrap();
        let level: Vec<MKTreeNode> = vec![&leaves[0] + &leaves[1], &leaves[2] + &leaves[3]];
        let t2 = MKTree::<MKTreeStoreInMemory>::new(&level).unwrap();
        let p = t2.compute_proof(&level[..1]).unwrap();
        p.verify().is_ok() && p.root() == &t.compute_root().unwrap() && p.contains(&level[..1]).is_ok()
    });
    check.witness("wrong-position:mktree", "MKProof: leaf 2 of a 3-leaf tree (its own peak) verifies when stated at position 0", || {
        let leaves: Vec<MKTreeNode> = (0..3).map(|i| leaf_value(9, i)).collect();
        let t = MKTree::<MKTreeStoreInMemory>::new(&leaves).unwrap();
        let p = t.compute_proof(&leaves[2..3]).unwrap();
        let mut v = serde_json::to_value(&p).unwrap();
        v["inner_leaves"][0][0] = Value::from(0u64);
        let forged: MKProof = serde_json::from_value(v).unwrap();
        forged.verify().is_ok() && forged.root() == &t.compute_root().unwrap()
    });
    check.witness("internal-node-as-leaf:mkmap", "MKMapProof::contains answers Ok for master-level nodes (key ‖ sub-root hashes), which are not committed items", || {
        let w = c_world(&[3, 2], 0, 9).unwrap();
        let leaf = w.per_range[&0][0].clone();
        let p = w.map.compute_proof(&[leaf]).unwrap();
        let sub_root = MKTree::<MKTreeStoreInMemory>::new(&w.per_range[&0]).unwrap().compute_root().unwrap();
        let key: MKTreeNode = range_of(0).into();
        let master_leaf = &key + &sub_root;
        p.verify().is_ok() && p.compute_root() == w.root && p.contains(&master_leaf).is_ok()
    });
    check.finish()
}
