//! Exact reference for the signing lottery (C08, reused by C01).
//!
//! won  <=>  ev / 2^512  <  1 - (1 - phi)^(w)          with w = stake / total
//!      <=>  q := 2^512 / (2^512 - ev)  <  e^x          with x = -w * ln(1 - phi)
//!
//! e^x is enclosed by fixed-point interval arithmetic (P fractional bits, directed rounding): the lower bound is
//! the sum of round-down Taylor terms, the upper bound the sum of round-up terms plus the rigorous remainder bound
//! R_N <= 2 * t_{N+1} once N + 2 >= 2x. c = ln(1 - phi) is taken from the platform's f64 `ln` (as the implementation
//! does) and enclosed by c * (1 ± 2^-50): draws whose q falls inside the resulting enclosure form the "negligible
//! band" and are not judged.

use num_bigint::BigUint;
use num_traits::{One, ToPrimitive, Zero};

pub const P: u64 = 704;

#[derive(Clone, Copy, Debug, PartialEq, Eq)]
pub enum Ref {
    Won,
    Lost,
    Band,
}

fn pow2(n: u64) -> BigUint {
    BigUint::one() << n
}

fn div_ceil(a: &BigUint, b: &BigUint) -> BigUint {
    (a + b - BigUint::one()) / b
}

/// exact value of a finite non-negative f64 as (mantissa, exponent): v = mant * 2^exp
fn f64_parts(v: f64) -> (u64, i64) {
    let bits = v.to_bits();
    let exp_bits = ((bits >> 52) & 0x7ff) as i64;
    let frac = bits & ((1u64 << 52) - 1);
    if exp_bits == 0 {
        (frac, -1074)
    } else {
        (frac | (1u64 << 52), exp_bits - 1075)
    }
}

/// |c| * w scaled by 2^P, rounded down / up, widened by the relative margin 2^-50 on c.
pub fn x_interval(phi: f64, stake: u64, total: u64) -> (BigUint, BigUint) {
    let c = (1.0 - phi).ln();
    let c_abs = c.abs();
    if !c_abs.is_finite() {
        // phi = 1: the caller short-cuts to "won"; return a harmless enclosure
        return (BigUint::zero(), BigUint::zero());
    }
    if c_abs == 0.0 || stake == 0 {
        return (BigUint::zero(), BigUint::zero());
    }
    let (mant, exp) = f64_parts(c_abs);
    // c_abs * 2^P = mant * 2^(exp + P)
    let sh = exp + P as i64;
    let mant = BigUint::from(mant);
    let (c_lo, c_hi) = if sh >= 0 {
        let v = mant << (sh as u64);
        (v.clone(), v)
    } else {
        let d = pow2((-sh) as u64);
        (&mant / &d, div_ceil(&mant, &d))
    };
    // widen: c_lo * (1 - 2^-50), c_hi * (1 + 2^-50)
    let c_lo_w = &c_lo - div_ceil(&c_lo, &pow2(50));
    let c_hi_w = &c_hi + div_ceil(&c_hi, &pow2(50)) + BigUint::one();
    let s = BigUint::from(stake);
    let t = BigUint::from(total);
    let x_lo = (&c_lo_w * &s) / &t;
    let x_hi = div_ceil(&(&c_hi_w * &s), &t);
    (x_lo, x_hi)
}

/// lower bound of e^x * 2^P for x = xs / 2^P
pub fn exp_lower(xs: &BigUint) -> BigUint {
    let one = pow2(P);
    let mut term = one.clone();
    let mut sum = one.clone();
    let mut n: u64 = 0;
    loop {
        n += 1;
        term = ((&term * xs) >> P) / BigUint::from(n);
        if term.is_zero() || n > 100_000 {
            break;
        }
        sum += &term;
    }
    sum
}

/// upper bound of e^x * 2^P for x = xs / 2^P
pub fn exp_upper(xs: &BigUint) -> BigUint {
    let one = pow2(P);
    let x_int_ceil = ((xs >> P) + BigUint::one()).to_u64().unwrap_or(u64::MAX / 4);
    let mut term = one.clone();
    let mut sum = one.clone();
    let mut n: u64 = 0;
    let two = BigUint::from(2u8);
    loop {
        n += 1;
        // term_n = ceil(ceil(term * x / 2^P) / n)
        let prod = &term * xs;
        let shifted = div_ceil(&prod, &one);
        term = div_ceil(&shifted, &BigUint::from(n));
        if term <= two && n + 2 >= 2 * x_int_ceil + 2 {
            // remainder after the terms summed so far (t_0..t_{n-1}) is t_n + t_{n+1} + ... <= 2 * t_n
            sum += &term * &two + BigUint::one();
            break;
        }
        sum += &term;
        if n > 100_000 {
            break;
        }
    }
    sum
}

pub struct Enclosure {
    pub lo: BigUint,
    pub hi: BigUint,
    pub x_f64: f64,
}

pub fn enclosure(phi: f64, stake: u64, total: u64) -> Enclosure {
    let (x_lo, x_hi) = x_interval(phi, stake, total);
    let lo = exp_lower(&x_lo);
    let hi = exp_upper(&x_hi);
    let x_f64 = -(1.0 - phi).ln() * (stake as f64 / total as f64);
    Enclosure { lo, hi, x_f64 }
}

pub fn ev_to_int(ev: &[u8; 64]) -> BigUint {
    BigUint::from_bytes_le(ev)
}

pub fn int_to_ev(v: &BigUint) -> [u8; 64] {
    let mut out = [0u8; 64];
    let b = v.to_bytes_le();
    let n = b.len().min(64);
    out[..n].copy_from_slice(&b[..n]);
    out
}

impl Enclosure {
    /// decision of the exact comparison for the draw `ev`
    pub fn decide(&self, ev: &BigUint) -> Ref {
        let denom = pow2(512) - ev; // >= 1
        let lhs = pow2(512 + P);
        if lhs < &self.lo * &denom {
            Ref::Won
        } else if lhs >= &self.hi * &denom {
            Ref::Lost
        } else {
            Ref::Band
        }
    }

    /// the draw value at the threshold (mid enclosure): ev* = 2^512 - 2^(512+P) / mid
    pub fn threshold_ev(&self) -> BigUint {
        let mid = (&self.lo + &self.hi) >> 1u32;
        let sub = pow2(512 + P) / mid;
        let top = pow2(512);
        if sub >= top { BigUint::zero() } else { top - sub }
    }
}

/// the reference decision including the documented special cases
pub fn reference(phi: f64, ev: &[u8; 64], stake: u64, total: u64) -> Ref {
    if phi >= 1.0 {
        return Ref::Won;
    }
    if stake == 0 {
        return Ref::Lost;
    }
    enclosure(phi, stake, total).decide(&ev_to_int(ev))
}

#[cfg(test)]
mod tests {
    use super::*;
    #[test]
    fn exp_bounds_bracket_known_values() {
        // e^1
        let one = pow2(P);
        let lo = exp_lower(&one);
        let hi = exp_upper(&one);
        assert!(lo < hi);
        let e = 2.718281828459045f64;
        let lo_f = (lo >> (P - 60)).to_u64().unwrap() as f64 / (1u64 << 60) as f64;
        assert!((lo_f - e).abs() < 1e-12);
        let width = hi - exp_lower(&one);
        assert!(width < pow2(40));
    }
}
