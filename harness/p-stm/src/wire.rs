//! Wire forms of an aggregate signature, built from its JSON view.
//!
//! JSON view (the serde form, which exposes every field):
//!   {"signatures":[ [ {"sigma":[48 bytes],"indexes":[..],"signer_index":n}, [ [96-byte vk], stake ] ], ...],
//!    "batch_proof":{"values":[[32 bytes]...],"indices":[..],"hasher":null}}
//!
//! The *legacy* binary layout (documented in the decoders' doc comments) is packed here by hand so that the legacy
//! decoding paths receive honest legacy encodings.

use mithril_common::crypto_helper::ProtocolKey;
use mithril_stm::AggregateSignature;
use serde::{Deserialize, Serialize};
use serde_json::Value;

use crate::fixtures::D;

#[derive(Clone, Copy, Debug, Serialize, Deserialize, PartialEq, Eq)]
pub enum Enc {
    /// serde JSON value → AggregateSignature
    Json,
    /// JSON text, hex encoded, through mithril-common's ProtocolKey::from_json_hex
    JsonHex,
    /// `to_bytes` (CBOR envelope) → `from_bytes`
    Cbor,
    /// `to_bytes` → hex → ProtocolKey TryFrom<&str> (bytes-hex codec with JSON-hex fall-back)
    BytesHexKey,
    /// harness-packed legacy bytes → `from_bytes`
    Legacy,
}

pub const ALL_ENC: [Enc; 5] = [Enc::Json, Enc::JsonHex, Enc::Cbor, Enc::BytesHexKey, Enc::Legacy];

pub fn bytes_of(v: &Value) -> Option<Vec<u8>> {
    v.as_array()?.iter().map(|b| b.as_u64().and_then(|x| u8::try_from(x).ok())).collect()
}

pub fn json_bytes(b: &[u8]) -> Value {
    Value::Array(b.iter().map(|x| Value::from(*x)).collect())
}

/// offsets of every big-endian u64 length / count / value field of a legacy aggregate encoding
pub fn legacy_u64_fields(v: &Value) -> Option<(Vec<u8>, Vec<usize>)> {
    let bytes = pack_legacy(v)?;
    let mut offs = vec![];
    let mut o = 1usize;
    offs.push(o); // total_sigs
    o += 8;
    let sigs = v.get("signatures")?.as_array()?;
    for s in sigs {
        offs.push(o); // sig_reg size
        o += 8;
        offs.push(o); // reg party size
        o += 8 + 96;
        offs.push(o); // stake
        o += 8;
        offs.push(o); // sig size
        o += 8;
        let n = s.as_array()?.first()?.get("indexes")?.as_array()?.len();
        offs.push(o); // nr_indexes
        o += 8;
        for _ in 0..n {
            offs.push(o);
            o += 8;
        }
        o += 48;
        offs.push(o); // signer_index
        o += 8;
    }
    offs.push(o); // len_v
    offs.push(o + 8); // len_i
    if o + 16 > bytes.len() {
        return None;
    }
    Some((bytes, offs))
}

/// pack the JSON view into the legacy binary layout; None if the view is not packable (wrong sizes)
pub fn pack_legacy(v: &Value) -> Option<Vec<u8>> {
    let mut out = vec![0u8]; // aggregate signature type prefix: concatenation
    let sigs = v.get("signatures")?.as_array()?;
    out.extend_from_slice(&(sigs.len() as u64).to_be_bytes());
    for s in sigs {
        let pair = s.as_array()?;
        let sig = pair.first()?;
        let reg = pair.get(1)?.as_array()?;
        // registration entry: vk (96) ‖ stake (8, BE)
        let vk = bytes_of(reg.first()?)?;
        if vk.len() != 96 {
            return None;
        }
        let stake = reg.get(1)?.as_u64()?;
        let mut reg_bytes = vk;
        reg_bytes.extend_from_slice(&stake.to_be_bytes());
        // single signature: nr_indexes (8) ‖ indexes (8 each) ‖ sigma (48) ‖ signer_index (8)
        let idx = sig.get("indexes")?.as_array()?;
        let mut sig_bytes = (idx.len() as u64).to_be_bytes().to_vec();
        for i in idx {
            sig_bytes.extend_from_slice(&i.as_u64()?.to_be_bytes());
        }
        let sigma = bytes_of(sig.get("sigma")?)?;
        if sigma.len() != 48 {
            return None;
        }
        sig_bytes.extend_from_slice(&sigma);
        sig_bytes.extend_from_slice(&sig.get("signer_index")?.as_u64()?.to_be_bytes());
        // sig-with-party: size_reg ‖ reg ‖ size_sig ‖ sig
        let mut sr = (reg_bytes.len() as u64).to_be_bytes().to_vec();
        sr.extend_from_slice(&reg_bytes);
        sr.extend_from_slice(&(sig_bytes.len() as u64).to_be_bytes());
        sr.extend_from_slice(&sig_bytes);
        out.extend_from_slice(&(sr.len() as u64).to_be_bytes());
        out.extend_from_slice(&sr);
    }
    let bp = v.get("batch_proof")?;
    let values = bp.get("values")?.as_array()?;
    let indices = bp.get("indices")?.as_array()?;
    out.extend_from_slice(&(values.len() as u64).to_be_bytes());
    out.extend_from_slice(&(indices.len() as u64).to_be_bytes());
    for val in values {
        let b = bytes_of(val)?;
        if b.len() != 32 {
            return None;
        }
        out.extend_from_slice(&b);
    }
    for i in indices {
        out.extend_from_slice(&i.as_u64()?.to_be_bytes());
    }
    Some(out)
}

/// Decode the JSON view through the chosen wire path. Err(text) = rejected by a decoder.
pub fn decode_via(v: &Value, enc: Enc) -> Result<AggregateSignature<D>, String> {
    match enc {
        Enc::Json => serde_json::from_value::<AggregateSignature<D>>(v.clone()).map_err(|e| e.to_string()),
        Enc::JsonHex => {
            let txt = serde_json::to_string(v).map_err(|e| e.to_string())?;
            let hex = hex::encode(txt.as_bytes());
            ProtocolKey::<AggregateSignature<D>>::from_json_hex(&hex).map(|k| k.into_inner()).map_err(|e| format!("{e:#}"))
        }
        Enc::Cbor => {
            let a = serde_json::from_value::<AggregateSignature<D>>(v.clone()).map_err(|e| e.to_string())?;
            let bytes = a.to_bytes().map_err(|e| format!("{e:#}"))?;
            AggregateSignature::<D>::from_bytes(&bytes).map_err(|e| format!("{e:#}"))
        }
        Enc::BytesHexKey => {
            let a = serde_json::from_value::<AggregateSignature<D>>(v.clone()).map_err(|e| e.to_string())?;
            let bytes = a.to_bytes().map_err(|e| format!("{e:#}"))?;
            let hex = hex::encode(bytes);
            ProtocolKey::<AggregateSignature<D>>::try_from(hex.as_str()).map(|k| k.into_inner()).map_err(|e| format!("{e:#}"))
        }
        Enc::Legacy => {
            let bytes = pack_legacy(v).ok_or_else(|| "not packable as legacy".to_string())?;
            AggregateSignature::<D>::from_bytes(&bytes).map_err(|e| format!("{e:#}"))
        }
    }
}
