//! C05 — decoding untrusted bytes never crashes the process and round-trips honest values (generated layer).
//!
//! Honest encodings of every wire type (current, legacy, hex, JSON; plus the repository's golden key strings) are
//! mutated structure-aware and fed to every entry point of `entry.rs`. Oracle: Ok|Err (no panic, no arithmetic
//! overflow — the harness is built with overflow checks), largest single allocation <= 64*len + 16 MiB (counting
//! allocator), accepted inputs re-encode to a fixed point, honest values are accepted.
//! The coverage-guided layer (libFuzzer targets over the same table) lives in /verif/harness/fuzz.

use std::collections::BTreeMap;
use std::sync::OnceLock;

use mithril_common::crypto_helper::ProtocolKey;
use mithril_common::entities::{BlockNumber, BlockRange};
use mithril_common::messages::{
    CardanoBlocksProofsMessage, CardanoStakeDistributionMessage, CardanoTransactionsProofsMessage, CardanoTransactionsProofsV2Message,
    CertificateMessage, MithrilStakeDistributionMessage, RegisterSignatureMessageHttp, RegisterSignerMessage,
};
use mithril_common::test::double::{Dummy, fake_keys};
use mithril_merkle_tree::{MKMap, MKMapNode, MKTree, MKTreeNode, MKTreeStoreInMemory};
use mithril_stm::SingleSignatureWithRegisteredParty;
use proptest::prelude::*;
use serde::{Deserialize, Serialize};
use serde_json::Value;
use vcore::{Args, Check, Report, catch, pick_index};

use crate::alloc_track;
use crate::c01::honest;
use crate::entry::{Entry, Kind, entries};
use crate::fixtures::{Params, WorldSpec};
use crate::wire::pack_legacy;

#[derive(Clone, Debug, Serialize, Deserialize)]
enum U64Kind {
    Zero,
    One,
    PlusOne,
    Pow32,
    Pow56m1,
    Pow63,
    Max,
    Small(u8),
}

#[derive(Clone, Debug, Serialize, Deserialize)]
enum BMut {
    Truncate(u16),
    /// overwrite the 8 bytes at a generated offset (aligned to a field boundary when `aligned`) with a big-endian value
    SetU64 { off: u16, kind: U64Kind, aligned: bool },
    SetByte { off: u16, val: u8 },
    FlipBit { off: u16, bit: u8 },
    /// first byte: version / type prefix
    FirstByte(u8),
    Splice { other: u16, at: u16, from: u16 },
    Insert { off: u16, bytes: Vec<u8> },
    Remove { off: u16, len: u8 },
    RepeatTail { len: u8, times: u8 },
    /// bump the n-th CBOR length header (0x58..0x5b / 0x78..0x7b / 0x98..0x9b / small counts)
    CborInflate { nth: u8, kind: U64Kind },
    AppendZeros(u8),
}

#[derive(Clone, Debug, Serialize, Deserialize)]
enum SMut {
    /// mutate the bytes behind the hex string, then re-encode as hex
    Inner(BMut),
    /// mutate the hex text itself
    Text(BMut),
    Uppercase,
    OddLength,
    NonHex(u16),
    Whitespace(u16),
}

#[derive(Clone, Debug, Serialize, Deserialize)]
enum JMut {
    /// the n-th number in the document := extreme value
    Number { nth: u16, kind: u8 },
    TruncArray { nth: u16, keep: u8 },
    DupElem { nth: u16 },
    ExtendArray { nth: u16, times: u8 },
    Null { nth: u16 },
    SwapType { nth: u16 },
    TruncString { nth: u16, keep: u8 },
    /// a string holding a key: mutate it as a key string
    KeyString { nth: u16, m: Box<SMut> },
    Text(BMut),
    DeepNest(u8),
}

#[derive(Clone, Debug, Serialize, Deserialize)]
enum M {
    B(BMut),
    S(SMut),
    J(JMut),
}

#[derive(Clone, Debug, Serialize, Deserialize)]
struct Case {
    entry: String,
    seed_idx: u16,
    muts: Vec<M>,
}

fn u64_value(kind: &U64Kind, cur: u64) -> u64 {
    match kind {
        U64Kind::Zero => 0,
        U64Kind::One => 1,
        U64Kind::PlusOne => cur.wrapping_add(1),
        U64Kind::Pow32 => 1 << 32,
        U64Kind::Pow56m1 => (1 << 56) - 1,
        U64Kind::Pow63 => 1 << 63,
        U64Kind::Max => u64::MAX,
        U64Kind::Small(x) => *x as u64,
    }
}

fn apply_b(data: &mut Vec<u8>, m: &BMut, seeds: &[Vec<u8>]) {
    let len = data.len();
    match m {
        BMut::Truncate(p) => data.truncate(pick_index(*p, len + 1)),
        BMut::SetU64 { off, kind, aligned } => {
            if len >= 8 {
                let mut o = pick_index(*off, len - 7);
                if *aligned {
                    o -= o % 8;
                    // legacy layouts carry a one byte prefix in aggregates: also try o+1 for odd raw offsets
                    if off % 2 == 1 && o + 9 <= len {
                        o += 1;
                    }
                }
                let cur = u64::from_be_bytes(data[o..o + 8].try_into().unwrap());
                data[o..o + 8].copy_from_slice(&u64_value(kind, cur).to_be_bytes());
            }
        }
        BMut::SetByte { off, val } => {
            if len > 0 {
                data[pick_index(*off, len)] = *val;
            }
        }
        BMut::FlipBit { off, bit } => {
            if len > 0 {
                data[pick_index(*off, len)] ^= 1 << (bit % 8);
            }
        }
        BMut::FirstByte(v) => {
            if len > 0 {
                data[0] = *v;
            }
        }
        BMut::Splice { other, at, from } => {
            if !seeds.is_empty() {
                let o = &seeds[pick_index(*other, seeds.len())];
                let a = pick_index(*at, len + 1);
                let f = pick_index(*from, o.len() + 1);
                data.truncate(a);
                data.extend_from_slice(&o[f..]);
            }
        }
        BMut::Insert { off, bytes } => {
            let o = pick_index(*off, len + 1);
            let tail = data.split_off(o);
            data.extend_from_slice(bytes);
            data.extend_from_slice(&tail);
        }
        BMut::Remove { off, len: l } => {
            if len > 0 {
                let o = pick_index(*off, len);
                let e = (o + *l as usize).min(len);
                data.drain(o..e);
            }
        }
        BMut::RepeatTail { len: l, times } => {
            let l = (*l as usize).min(len);
            let tail = data[len - l..].to_vec();
            for _ in 0..(*times % 16) {
                data.extend_from_slice(&tail);
            }
        }
        BMut::CborInflate { nth, kind } => {
            let mut seen = 0u8;
            let mut i = 0;
            while i < data.len() {
                let b = data[i];
                let major = b >> 5;
                let info = b & 0x1f;
                if matches!(major, 2 | 3 | 4 | 5) {
                    if seen == *nth {
                        // rewrite as an 8-byte length header
                        let v = u64_value(kind, info as u64);
                        let width = match info {
                            24 => 1,
                            25 => 2,
                            26 => 4,
                            27 => 8,
                            _ => 0,
                        };
                        let end = (i + 1 + width).min(data.len());
                        let tail = data.split_off(end);
                        data.truncate(i);
                        data.push((major << 5) | 27);
                        data.extend_from_slice(&v.to_be_bytes());
                        data.extend_from_slice(&tail);
                        return;
                    }
                    seen += 1;
                }
                i += 1;
            }
        }
        BMut::AppendZeros(n) => data.extend(std::iter::repeat_n(0u8, *n as usize)),
    }
}

fn apply_s(data: &mut Vec<u8>, m: &SMut, seeds: &[Vec<u8>]) {
    match m {
        SMut::Inner(b) => {
            let txt = String::from_utf8_lossy(data).to_string();
            if let Ok(mut raw) = hex::decode(txt.trim()) {
                let inner_seeds: Vec<Vec<u8>> = seeds.iter().filter_map(|s| hex::decode(String::from_utf8_lossy(s).trim()).ok()).collect();
                apply_b(&mut raw, b, &inner_seeds);
                *data = hex::encode(raw).into_bytes();
            }
        }
        SMut::Text(b) => apply_b(data, b, seeds),
        SMut::Uppercase => data.make_ascii_uppercase(),
        SMut::OddLength => {
            data.pop();
        }
        SMut::NonHex(o) => {
            if !data.is_empty() {
                let p = pick_index(*o, data.len());
                data[p] = b'g';
            }
        }
        SMut::Whitespace(o) => {
            let p = pick_index(*o, data.len() + 1);
            data.insert(p, b' ');
        }
    }
}

fn walk<'a>(v: &'a mut Value, pred: &dyn Fn(&Value) -> bool, out: &mut Vec<*mut Value>) {
    if pred(v) {
        out.push(v as *mut Value);
    }
    match v {
        Value::Array(a) => {
            for x in a.iter_mut() {
                walk(x, pred, out);
            }
        }
        Value::Object(o) => {
            for (_, x) in o.iter_mut() {
                walk(x, pred, out);
            }
        }
        _ => {}
    }
    let _: Option<&'a ()> = None;
}

fn nth_mut<'a>(v: &'a mut Value, pred: &dyn Fn(&Value) -> bool, nth: u16) -> Option<&'a mut Value> {
    let mut out = vec![];
    walk(v, pred, &mut out);
    if out.is_empty() {
        return None;
    }
    let p = out[pick_index(nth, out.len())];
    // SAFETY: pointers come from a unique traversal of `v`, which is mutably borrowed for 'a; exactly one is used
    Some(unsafe { &mut *p })
}

fn apply_j(data: &mut Vec<u8>, m: &JMut, seeds: &[Vec<u8>]) {
    if let JMut::Text(b) = m {
        apply_b(data, b, seeds);
        return;
    }
    if let JMut::DeepNest(n) = m {
        let depth = 200 + (*n as usize) * 40;
        let mut s = "[".repeat(depth);
        s.push_str(&"]".repeat(depth));
        *data = s.into_bytes();
        return;
    }
    let Ok(mut v) = serde_json::from_slice::<Value>(data) else { return };
    match m {
        JMut::Number { nth, kind } => {
            if let Some(x) = nth_mut(&mut v, &|x| x.is_number(), *nth) {
                *x = match kind % 8 {
                    0 => Value::from(u64::MAX),
                    1 => Value::from(-1i64),
                    2 => Value::from(i64::MIN),
                    3 => serde_json::from_str("1e308").unwrap(),
                    4 => Value::from((1u64 << 53) + 1),
                    5 => Value::from(0u64),
                    6 => serde_json::from_str("1.5").unwrap(),
                    _ => Value::from(256u64),
                };
            }
        }
        JMut::TruncArray { nth, keep } => {
            if let Some(Value::Array(a)) = nth_mut(&mut v, &|x| x.is_array(), *nth) {
                a.truncate(*keep as usize % (a.len() + 1));
            }
        }
        JMut::DupElem { nth } => {
            if let Some(Value::Array(a)) = nth_mut(&mut v, &|x| x.is_array() && !x.as_array().unwrap().is_empty(), *nth) {
                let x = a[0].clone();
                a.push(x);
            }
        }
        JMut::ExtendArray { nth, times } => {
            if let Some(Value::Array(a)) = nth_mut(&mut v, &|x| x.is_array() && !x.as_array().unwrap().is_empty(), *nth) {
                let x = a[a.len() - 1].clone();
                for _ in 0..(*times as usize * 4) {
                    a.push(x.clone());
                }
            }
        }
        JMut::Null { nth } => {
            if let Some(x) = nth_mut(&mut v, &|_| true, *nth) {
                *x = Value::Null;
            }
        }
        JMut::SwapType { nth } => {
            if let Some(x) = nth_mut(&mut v, &|x| !x.is_object(), *nth) {
                *x = match x {
                    Value::String(_) => Value::from(7),
                    Value::Number(_) => Value::from("7"),
                    Value::Array(_) => Value::from("[]"),
                    Value::Bool(_) => Value::from(1),
                    _ => Value::Array(vec![]),
                };
            }
        }
        JMut::TruncString { nth, keep } => {
            if let Some(Value::String(s)) = nth_mut(&mut v, &|x| x.is_string(), *nth) {
                let k = (*keep as usize).min(s.len());
                let mut k2 = k;
                while !s.is_char_boundary(k2) {
                    k2 -= 1;
                }
                s.truncate(k2);
            }
        }
        JMut::KeyString { nth, m } => {
            if let Some(Value::String(s)) = nth_mut(&mut v, &|x| x.as_str().map(|s| s.len() > 40).unwrap_or(false), *nth) {
                let mut b = s.clone().into_bytes();
                apply_s(&mut b, m, &[]);
                *s = String::from_utf8_lossy(&b).to_string();
            }
        }
        JMut::Text(_) | JMut::DeepNest(_) => {}
    }
    *data = serde_json::to_vec(&v).unwrap_or_default();
}

// ------------------------------------------------------------------------------------------- honest seeds

fn seeds() -> &'static BTreeMap<&'static str, Vec<Vec<u8>>> {
    static S: OnceLock<BTreeMap<&'static str, Vec<Vec<u8>>>> = OnceLock::new();
    S.get_or_init(build_seeds)
}

fn build_seeds() -> BTreeMap<&'static str, Vec<Vec<u8>>> {
    let mut m: BTreeMap<&'static str, Vec<Vec<u8>>> = BTreeMap::new();
    let mut add = |k: &'static str, v: Vec<u8>| m.entry(k).or_default().push(v);
    // ---- stm objects from two small worlds
    for (seed, n, phi) in [(11u64, 3usize, 1.0f64), (12, 5, 0.8)] {
        let spec = WorldSpec { params: Params { m: 8, k: 2, phi }, parties: (0..n).map(|i| (seed * 100 + i as u64, 10 + i as u64)).collect() };
        let Some(h) = honest(&spec, b"c05 message", u16::MAX) else { continue };
        let agg_bytes = h.agg.to_bytes().unwrap();
        add("stm:AggregateSignature", agg_bytes.clone());
        if let Some(l) = pack_legacy(&h.view) {
            add("stm:AggregateSignature", l);
        }
        add("stm-json:AggregateSignature", serde_json::to_vec(&h.agg).unwrap());
        let key = ProtocolKey::new(h.agg.clone());
        add("key:MultiSignature", key.to_json_hex().unwrap().into_bytes());
        add("key:MultiSignature", key.to_bytes_hex().unwrap().into_bytes());
        for s in &h.sigs {
            add("stm:SingleSignature", s.to_bytes().unwrap());
            // legacy: nr_indexes ‖ indexes ‖ sigma ‖ signer_index
            let idx = s.get_concatenation_signature_indices();
            let mut l = (idx.len() as u64).to_be_bytes().to_vec();
            for i in &idx {
                l.extend_from_slice(&i.to_be_bytes());
            }
            l.extend_from_slice(&s.get_concatenation_signature_sigma().to_bytes());
            l.extend_from_slice(&s.signer_index.to_be_bytes());
            add("stm:SingleSignature", l);
            add("stm-json:SingleSignature", serde_json::to_vec(s).unwrap());
            let k = ProtocolKey::new(s.clone());
            add("key:SingleSignature", k.to_json_hex().unwrap().into_bytes());
            add("key:SingleSignature", k.to_bytes_hex().unwrap().into_bytes());
        }
        for e in h.view["signatures"].as_array().unwrap() {
            if let Ok(sr) = serde_json::from_value::<SingleSignatureWithRegisteredParty>(e.clone()) {
                add("stm:SingleSignatureWithRegisteredParty", sr.to_bytes().unwrap());
            }
        }
        let avk = h.world.avk.to_concatenation_aggregate_verification_key().clone();
        add("stm:AggregateVerificationKey", avk.to_bytes().unwrap());
        // legacy: nr_leaves ‖ root … ‖ total_stake (layout per decoder doc: commitment bytes then stake)
        add("stm-json:AggregateVerificationKey", serde_json::to_vec(&avk).unwrap());
        let k = ProtocolKey::new(avk);
        add("key:AggregateVerificationKey", k.to_json_hex().unwrap().into_bytes());
        add("key:AggregateVerificationKey", k.to_bytes_hex().unwrap().into_bytes());
        add("stm:Parameters", h.params.to_bytes().unwrap());
        let mut pl = h.params.m.to_be_bytes().to_vec();
        pl.extend_from_slice(&h.params.k.to_be_bytes());
        pl.extend_from_slice(&h.params.phi_f.to_be_bytes());
        add("stm:Parameters", pl);
        for i in &h.world.initializers {
            add("stm:Initializer", i.to_bytes().unwrap());
            let vkp = i.get_verification_key_proof_of_possession_for_concatenation();
            add("stm:VerificationKeyPoP", vkp.to_bytes().to_vec());
            add("stm:VerificationKey", vkp.vk.to_bytes().to_vec());
            let k = ProtocolKey::new(vkp);
            add("key:SignerVerificationKey", k.to_json_hex().unwrap().into_bytes());
            add("key:SignerVerificationKey", k.to_bytes_hex().unwrap().into_bytes());
        }
    }
    // ---- golden key strings from the repository's test doubles
    for s in fake_keys::multi_signature() {
        add("key:MultiSignature", s.as_bytes().to_vec());
    }
    for s in fake_keys::single_signature() {
        add("key:SingleSignature", s.as_bytes().to_vec());
    }
    for s in fake_keys::signer_verification_key() {
        add("key:SignerVerificationKey", s.as_bytes().to_vec());
    }
    for s in fake_keys::signer_verification_key_signature() {
        add("key:KesSignature", s.as_bytes().to_vec());
    }
    for s in fake_keys::operational_certificate() {
        add("key:OpCert", s.as_bytes().to_vec());
        if let Ok(k) = mithril_common::crypto_helper::ProtocolOpCert::try_from(s) {
            use mithril_common::crypto_helper::TryToBytes;
            if let Ok(b) = k.to_bytes_vec() {
                add("bytes:OpCert", b);
            }
        }
    }
    for s in fake_keys::genesis_signature() {
        add("key:GenesisSignature", s.as_bytes().to_vec());
    }
    for s in fake_keys::genesis_verification_key() {
        add("key:GenesisVerificationKey", s.as_bytes().to_vec());
    }
    for s in fake_keys::aggregate_verification_key_for_concatenation() {
        add("key:AggregateVerificationKey", s.as_bytes().to_vec());
    }
    // ---- Merkle proofs
    for n in [1usize, 3, 8] {
        let leaves: Vec<MKTreeNode> = (0..n).map(|i| MKTreeNode::from(format!("leaf-{i}"))).collect();
        let t = MKTree::<MKTreeStoreInMemory>::new(&leaves).unwrap();
        let p = t.compute_proof(&leaves[..n.min(2)]).unwrap();
        add("mk:MKProof", p.to_bytes().unwrap());
        let k = ProtocolKey::new(p);
        add("key:MkProof", k.to_json_hex().unwrap().into_bytes());
        add("key:MkProof", k.to_bytes_hex().unwrap().into_bytes());
        // leaves requested in another order than their order in the tree (the proof keeps the request order)
        if n >= 3 {
            let p = t.compute_proof(&[leaves[n - 1].clone(), leaves[0].clone(), leaves[1].clone()]).unwrap();
            add("mk:MKProof", p.to_bytes().unwrap());
            add("key:MkProof", ProtocolKey::new(p).to_bytes_hex().unwrap().into_bytes());
        }
    }
    {
        let mut entries_ = vec![];
        for r in 0..3u64 {
            let leaves: Vec<MKTreeNode> = (0..4).map(|i| MKTreeNode::from(format!("tx-{r}-{i}"))).collect();
            let t = MKTree::<MKTreeStoreInMemory>::new(&leaves).unwrap();
            let node: MKMapNode<BlockRange, MKTreeStoreInMemory> = t.into();
            entries_.push((BlockRange::from_block_number(BlockNumber(r * 15)), node));
        }
        let map = MKMap::<BlockRange, MKMapNode<BlockRange, MKTreeStoreInMemory>, MKTreeStoreInMemory>::new(&entries_).unwrap();
        let p = map.compute_proof(&[MKTreeNode::from("tx-0-1".to_string()), MKTreeNode::from("tx-2-3".to_string())]).unwrap();
        add("mk:MKMapProof", p.to_bytes().unwrap());
        let unordered = map.compute_proof(&[MKTreeNode::from("tx-2-3".to_string()), MKTreeNode::from("tx-0-2".to_string()), MKTreeNode::from("tx-0-0".to_string()), MKTreeNode::from("tx-1-1".to_string())]).unwrap();
        add("mk:MKMapProof", unordered.to_bytes().unwrap());
        let k = ProtocolKey::new(p);
        add("key:MkMapProof", k.to_json_hex().unwrap().into_bytes());
        add("key:MkMapProof", k.to_bytes_hex().unwrap().into_bytes());
    }
    // ---- API messages
    add("msg:Certificate", serde_json::to_vec(&CertificateMessage::dummy()).unwrap());
    add("msg:CardanoTransactionsProofs", serde_json::to_vec(&CardanoTransactionsProofsMessage::new("cert-hash", vec![mithril_common::messages::CardanoTransactionsSetProofMessagePart::dummy()], vec!["tx-unknown".to_string()], BlockNumber(99))).unwrap());
    add("msg:CardanoTransactionsProofsV2", serde_json::to_vec(&CardanoTransactionsProofsV2Message::dummy()).unwrap());
    add("msg:CardanoBlocksProofs", serde_json::to_vec(&CardanoBlocksProofsMessage::dummy()).unwrap());
    add("msg:MithrilStakeDistribution", serde_json::to_vec(&MithrilStakeDistributionMessage::dummy()).unwrap());
    add("msg:CardanoStakeDistribution", serde_json::to_vec(&CardanoStakeDistributionMessage::dummy()).unwrap());
    add("msg:RegisterSigner", serde_json::to_vec(&RegisterSignerMessage::dummy()).unwrap());
    add("msg:RegisterSignature", serde_json::to_vec(&RegisterSignatureMessageHttp::dummy()).unwrap());
    m
}

fn table() -> &'static Vec<Entry> {
    static T: OnceLock<Vec<Entry>> = OnceLock::new();
    T.get_or_init(entries)
}

fn normalise_location(msg: &str) -> String {
    // "message @ file:line" → "file:line" with the registry / repo prefix removed
    let loc = msg.rsplit(" @ ").next().unwrap_or("");
    let loc = loc.rsplit("/src/").next().map(|s| format!("src/{s}")).unwrap_or_else(|| loc.to_string());
    let what = if msg.contains("overflow") {
        "overflow"
    } else if msg.contains("capacity") {
        "capacity"
    } else if msg.contains("out of range") || msg.contains("out of bounds") {
        "bounds"
    } else if msg.contains("unwrap") || msg.contains("expect") {
        "unwrap"
    } else {
        "panic"
    };
    format!("{what}@{loc}")
}

fn case_fn(c: &Case) -> Report {
    let mut rep = Report::new();
    let Some(entry) = table().iter().find(|e| e.name == c.entry) else {
        rep.discard("unknown entry");
        return rep;
    };
    let all = seeds();
    let Some(my) = all.get(entry.name) else {
        rep.discard("no seed");
        return rep;
    };
    let mut data = my[pick_index(c.seed_idx, my.len())].clone();
    let honest_len = data.len();
    let mut names = vec![];
    for m in &c.muts {
        match (m, entry.kind) {
            (M::B(b), Kind::Bytes) => apply_b(&mut data, b, my),
            (M::B(b), Kind::Str) => apply_s(&mut data, &SMut::Inner(b.clone()), my),
            (M::B(b), Kind::Json) => apply_j(&mut data, &JMut::Text(b.clone()), my),
            (M::S(s), Kind::Str) => apply_s(&mut data, s, my),
            (M::S(s), Kind::Json) => apply_j(&mut data, &JMut::KeyString { nth: c.seed_idx, m: Box::new(s.clone()) }, my),
            (M::J(j), Kind::Json) => apply_j(&mut data, j, my),
            _ => continue,
        }
        let s = format!("{m:?}");
        names.push(s.split(['{', ' ']).next().unwrap_or("").replace('(', ":").trim_end_matches(':').to_string());
    }
    let kind = format!("{:?}", entry.kind);
    rep.label(format!("entry:{}", entry.name));
    rep.label(if names.is_empty() { "honest".to_string() } else { format!("mutated:{kind}") });
    for n in &names {
        rep.label(format!("mut:{n}"));
    }
    let len = data.len();
    let limit = 64usize.saturating_mul(len.max(honest_len)).saturating_add(16 << 20);
    alloc_track::start();
    let t0 = std::time::Instant::now();
    let res = catch(|| (entry.decode)(&data));
    let dt = t0.elapsed();
    let peak = alloc_track::stop();
    let input_hex = || if data.len() <= 600 { hex::encode(&data) } else { format!("{}… ({} bytes)", hex::encode(&data[..600]), data.len()) };
    if peak > limit {
        rep.violation(format!("alloc:{}", entry.name), format!("{}: a single allocation of {peak} bytes for an input of {len} bytes; muts {names:?}; input {}", entry.name, input_hex()));
    }
    if dt.as_secs() >= 20 {
        rep.label("very-slow-decode");
    }
    match res {
        Err(p) => {
            rep.violation(format!("panic:{}:{}", entry.name, normalise_location(&p)), format!("{} panicked: {p}; muts {names:?}; input {}", entry.name, input_hex()));
        }
        Ok(Err(_)) => {
            rep.label("rejected");
            if names.is_empty() {
                rep.violation(format!("honest-rejected:{}", entry.name), format!("{} rejects the honest encoding #{}; input {}", entry.name, c.seed_idx, input_hex()));
            }
        }
        Ok(Ok(reenc)) => {
            rep.label("accepted");
            // honest values round-trip: for the entries whose seeds are written by the current canonical encoder, the
            // decoded value re-encodes to the very bytes it came from (decode(encode(v)) == v)
            if names.is_empty() && entry.name.starts_with("mk:") && reenc != data {
                rep.violation(
                    format!("honest-roundtrip-differs:{}", entry.name),
                    format!("{}: the honest encoding #{} decodes to a value that encodes differently; input {} re-encoded {}", entry.name, c.seed_idx, input_hex(), hex::encode(&reenc).chars().take(400).collect::<String>()),
                );
            }
            // fixed point: decode(encode(decode(x))) == decode(x)
            match catch(|| (entry.decode)(&reenc)) {
                Ok(Ok(again)) if again == reenc => {}
                Ok(Ok(_)) => {
                    rep.violation(format!("reencode-unstable:{}", entry.name), format!("{}: re-encoding of an accepted input decodes to a different value; muts {names:?}; input {}", entry.name, input_hex()));
                }
                Ok(Err(e)) => {
                    rep.violation(format!("reencode-rejected:{}", entry.name), format!("{}: re-encoding of an accepted input is rejected ({e}); muts {names:?}; input {}", entry.name, input_hex()));
                }
                Err(p) => {
                    rep.violation(format!("panic:{}:{}", entry.name, normalise_location(&p)), format!("{} panicked on its own re-encoding: {p}", entry.name));
                }
            }
        }
    }
    if !names.is_empty() {
        let verdict = if rep.labels.iter().any(|l| l == "accepted") { "acc" } else { "rej" };
        rep.nontrivial(format!("{} seed:{} muts:{names:?} {verdict} len:{}", entry.name, pick_index(c.seed_idx, my.len()), (len as f64).log2() as u32));
    }
    rep
}

fn u64kind() -> impl Strategy<Value = U64Kind> {
    prop_oneof![
        Just(U64Kind::Zero),
        Just(U64Kind::One),
        Just(U64Kind::PlusOne),
        Just(U64Kind::Pow32),
        Just(U64Kind::Pow56m1),
        Just(U64Kind::Pow63),
        Just(U64Kind::Max),
        any::<u8>().prop_map(U64Kind::Small),
    ]
}

fn bmut() -> impl Strategy<Value = BMut> {
    let r = any::<u16>();
    prop_oneof![
        2 => r.prop_map(BMut::Truncate),
        6 => (prop_oneof![0u16..2048, r], u64kind(), any::<bool>()).prop_map(|(off, kind, aligned)| BMut::SetU64 { off, kind, aligned }),
        2 => (r, any::<u8>()).prop_map(|(off, val)| BMut::SetByte { off, val }),
        2 => (r, any::<u8>()).prop_map(|(off, bit)| BMut::FlipBit { off, bit }),
        2 => prop_oneof![Just(0u8), Just(1u8), Just(2u8), Just(3u8), any::<u8>()].prop_map(BMut::FirstByte),
        1 => (r, r, r).prop_map(|(other, at, from)| BMut::Splice { other, at, from }),
        1 => (r, prop::collection::vec(any::<u8>(), 1..12)).prop_map(|(off, bytes)| BMut::Insert { off, bytes }),
        1 => (r, any::<u8>()).prop_map(|(off, len)| BMut::Remove { off, len }),
        1 => (any::<u8>(), any::<u8>()).prop_map(|(len, times)| BMut::RepeatTail { len, times }),
        4 => (0u8..24, u64kind()).prop_map(|(nth, kind)| BMut::CborInflate { nth, kind }),
        1 => any::<u8>().prop_map(BMut::AppendZeros),
    ]
}

fn smut() -> impl Strategy<Value = SMut> {
    let r = any::<u16>();
    prop_oneof![
        8 => bmut().prop_map(SMut::Inner),
        2 => bmut().prop_map(SMut::Text),
        1 => Just(SMut::Uppercase),
        1 => Just(SMut::OddLength),
        1 => r.prop_map(SMut::NonHex),
        1 => r.prop_map(SMut::Whitespace),
    ]
}

fn jmut() -> impl Strategy<Value = JMut> {
    let r = any::<u16>();
    prop_oneof![
        3 => (r, any::<u8>()).prop_map(|(nth, kind)| JMut::Number { nth, kind }),
        1 => (r, any::<u8>()).prop_map(|(nth, keep)| JMut::TruncArray { nth, keep }),
        1 => r.prop_map(|nth| JMut::DupElem { nth }),
        1 => (r, any::<u8>()).prop_map(|(nth, times)| JMut::ExtendArray { nth, times }),
        1 => r.prop_map(|nth| JMut::Null { nth }),
        1 => r.prop_map(|nth| JMut::SwapType { nth }),
        1 => (r, any::<u8>()).prop_map(|(nth, keep)| JMut::TruncString { nth, keep }),
        6 => (r, smut()).prop_map(|(nth, m)| JMut::KeyString { nth, m: Box::new(m) }),
        1 => bmut().prop_map(JMut::Text),
        1 => any::<u8>().prop_map(JMut::DeepNest),
    ]
}

fn strategy() -> impl Strategy<Value = Case> {
    let names: Vec<(String, Kind)> = table().iter().map(|e| (e.name.to_string(), e.kind)).collect();
    (prop::sample::select(names), any::<u16>(), 0usize..=3).prop_flat_map(|((entry, kind), seed_idx, n)| {
        let m: BoxedStrategy<M> = match kind {
            Kind::Bytes => bmut().prop_map(M::B).boxed(),
            Kind::Str => prop_oneof![3 => smut().prop_map(M::S), 1 => bmut().prop_map(M::B)].boxed(),
            Kind::Json => prop_oneof![4 => jmut().prop_map(M::J), 1 => smut().prop_map(M::S)].boxed(),
        };
        prop::collection::vec(m, n).prop_map(move |muts| Case { entry: entry.clone(), seed_idx, muts })
    })
}

// ------------------------------------------------------------- systematic: pairs of legacy length fields

#[derive(Clone, Debug, Serialize, Deserialize)]
struct FieldPair {
    a: usize,
    b: usize,
    va: u64,
    vb: u64,
}

fn legacy_seed() -> &'static (Vec<u8>, Vec<usize>) {
    static L: OnceLock<(Vec<u8>, Vec<usize>)> = OnceLock::new();
    L.get_or_init(|| {
        let spec = WorldSpec { params: Params { m: 6, k: 2, phi: 1.0 }, parties: vec![(7101, 3), (7102, 5)] };
        let h = honest(&spec, b"legacy fields", u16::MAX).expect("legacy seed world");
        crate::wire::legacy_u64_fields(&h.view).expect("legacy layout")
    })
}

fn field_pair_case(c: &FieldPair) -> Report {
    let mut rep = Report::new();
    let (bytes, offs) = legacy_seed();
    let mut data = bytes.clone();
    for (f, v) in [(c.a, c.va), (c.b, c.vb)] {
        let o = offs[f % offs.len()];
        data[o..o + 8].copy_from_slice(&v.to_be_bytes());
    }
    let entry = table().iter().find(|e| e.name == "stm:AggregateSignature").unwrap();
    let limit = 64usize * data.len() + (16 << 20);
    alloc_track::start();
    let res = catch(|| (entry.decode)(&data));
    let peak = alloc_track::stop();
    rep.label("legacy-field-pair");
    rep.nontrivial(format!("pair {} {} {:x} {:x}", c.a, c.b, c.va, c.vb));
    if peak > limit {
        rep.violation("alloc:stm:AggregateSignature", format!("single allocation of {peak} bytes for {} input bytes; fields {c:?}", data.len()));
    }
    if let Err(p) = res {
        rep.violation(format!("panic:stm:AggregateSignature:{}", normalise_location(&p)), format!("legacy aggregate with fields {c:?} panicked: {p}; input {}", hex::encode(&data)));
    }
    rep
}

// ------------------------------------------------------------- honest round trips of generated key material

#[derive(Clone, Debug, Serialize, Deserialize)]
struct HonestKey {
    seed: u64,
    msg: Vec<u8>,
}

fn honest_key_case(c: &HonestKey) -> Report {
    use ed25519_dalek::{Signer, SigningKey};
    use mithril_common::crypto_helper::{GenesisEd25519Signature, GenesisEd25519VerificationKey};
    let mut rep = Report::new();
    let mut sk_bytes = [0u8; 32];
    sk_bytes[..8].copy_from_slice(&c.seed.to_le_bytes());
    sk_bytes[8..16].copy_from_slice(&c.seed.wrapping_mul(0x9E3779B97F4A7C15).to_le_bytes());
    let sk = SigningKey::from_bytes(&sk_bytes);
    let sig = sk.sign(&c.msg);
    let first = sig.to_bytes()[0];
    rep.label("honest-key-roundtrip");
    if first == 0x5b || first == 0x7b {
        rep.label("honest-key:first-byte-looks-like-json");
    }
    let r = catch(|| -> Result<(), String> {
        let key = GenesisEd25519Signature::new(sig);
        // every encoder → the generic decoder
        let enc: String = key.clone().try_into().map_err(|e: anyhow::Error| format!("encode: {e:#}"))?;
        let back = GenesisEd25519Signature::try_from(enc.as_str()).map_err(|e| format!("decoding the key's own encoding failed: {e:#}"))?;
        if back.to_bytes_hex().ok() != key.to_bytes_hex().ok() {
            return Err("decode(encode(signature)) differs".into());
        }
        for enc in [key.to_bytes_hex().map_err(|e| e.to_string())?, key.to_json_hex().map_err(|e| e.to_string())?] {
            let back = GenesisEd25519Signature::try_from(enc.as_str()).map_err(|e| format!("decoding an honest encoding failed: {e:#}"))?;
            if back.to_bytes_hex().ok() != key.to_bytes_hex().ok() {
                return Err("decode(encode(signature)) differs".into());
            }
        }
        // through serde, as inside a certificate message
        let js = serde_json::to_string(&key).map_err(|e| e.to_string())?;
        let back: GenesisEd25519Signature = serde_json::from_str(&js).map_err(|e| format!("serde round trip of an honest signature failed: {e}"))?;
        if back.to_bytes_hex().ok() != key.to_bytes_hex().ok() {
            return Err("serde round trip differs".into());
        }
        let vk = GenesisEd25519VerificationKey::new(sk.verifying_key());
        let enc: String = vk.clone().try_into().map_err(|e: anyhow::Error| format!("encode: {e:#}"))?;
        let back = GenesisEd25519VerificationKey::try_from(enc.as_str()).map_err(|e| format!("decoding the verification key's own encoding failed: {e:#}"))?;
        if back.to_json_hex().ok() != vk.to_json_hex().ok() {
            return Err("decode(encode(verification key)) differs".into());
        }
        Ok(())
    });
    match r {
        Ok(Ok(())) => {}
        Ok(Err(e)) => {
            rep.violation("honest-roundtrip:ed25519", format!("{e}; signing key seed {} message {} (signature starts with {first:#04x})", c.seed, hex::encode(&c.msg)));
        }
        Err(p) => {
            rep.violation("honest-roundtrip:ed25519", format!("panic {p}; seed {}", c.seed));
        }
    }
    rep.nontrivial(format!("hk {}", c.seed));
    rep
}

// ------------------------------------------------------------------------------------------ libFuzzer layer

#[derive(Clone, Debug, Serialize, Deserialize)]
struct RawCase {
    /// Bytes | Str | Json — the fuzz target the input belongs to
    kind: String,
    /// selector byte + input, hex
    data_hex: String,
}

fn kind_of(name: &str) -> Option<Kind> {
    match name {
        "Bytes" => Some(Kind::Bytes),
        "Str" => Some(Kind::Str),
        "Json" => Some(Kind::Json),
        _ => None,
    }
}

const TARGETS: [(&str, &str); 3] = [("fuzz_stm_bytes", "Bytes"), ("fuzz_key_strings", "Str"), ("fuzz_json_messages", "Json")];

/// the same decision as the fuzz target's, with the generated layer's extra oracles (allocation bound)
fn raw_case_fn(c: &RawCase) -> Report {
    let mut rep = Report::new();
    let (Some(kind), Ok(data)) = (kind_of(&c.kind), hex::decode(&c.data_hex)) else {
        rep.discard("malformed raw case");
        return rep;
    };
    if data.is_empty() {
        rep.discard("empty");
        return rep;
    }
    let t: Vec<&Entry> = table().iter().filter(|e| e.kind == kind).collect();
    let entry = t[data[0] as usize % t.len()];
    let input = &data[1..];
    rep.label(format!("raw:{}", entry.name));
    let limit = 64usize.saturating_mul(input.len()).saturating_add(16 << 20);
    alloc_track::start();
    let res = catch(|| (entry.decode)(input));
    let peak = alloc_track::stop();
    if peak > limit {
        rep.violation(format!("alloc:{}", entry.name), format!("{}: a single allocation of {peak} bytes for an input of {} bytes", entry.name, input.len()));
    }
    match res {
        Err(p) => {
            rep.violation(format!("panic:{}:{}", entry.name, normalise_location(&p)), format!("{} panicked: {p}", entry.name));
        }
        Ok(Ok(reenc)) => match catch(|| (entry.decode)(&reenc)) {
            Ok(Ok(again)) if again == reenc => {}
            other => {
                rep.violation(format!("reencode-unstable:{}", entry.name), format!("{}: re-encoding of an accepted input is not a fixed point ({:?})", entry.name, other.map(|r| r.map(|v| v.len()))));
            }
        },
        Ok(Err(_)) => {}
    }
    rep.nontrivial(format!("raw {} {}", entry.name, c.data_hex.len()));
    rep
}

/// `p-stm C05-corpus <dir>`: write the honest seeds as libFuzzer corpus files (selector byte + encoding)
pub fn dump_corpus(dir: &str) -> i32 {
    for (target, kind) in TARGETS {
        let kind = kind_of(kind).unwrap();
        let d = std::path::Path::new(dir).join(target);
        let _ = std::fs::create_dir_all(&d);
        let t: Vec<&Entry> = table().iter().filter(|e| e.kind == kind).collect();
        for (i, e) in t.iter().enumerate() {
            if let Some(ss) = seeds().get(e.name) {
                for (j, s) in ss.iter().enumerate() {
                    let mut f = vec![i as u8];
                    f.extend_from_slice(s);
                    let _ = std::fs::write(d.join(format!("seed-{i:02}-{j:02}")), f);
                }
            }
        }
    }
    0
}

/// `p-stm C05-raw <kind> <file>`: evaluate one raw fuzz input in a fresh process (exit 0 = holds, 1 = violation)
pub fn raw_one(kind: &str, file: &str) -> i32 {
    let Ok(data) = std::fs::read(file) else { return 2 };
    let rep = raw_case_fn(&RawCase { kind: kind.to_string(), data_hex: hex::encode(data) });
    match rep.outcome {
        vcore::Outcome::Violation { key, what } => {
            println!("RAW-VIOLATION key={key} what={what}");
            1
        }
        _ => 0,
    }
}

/// run the libFuzzer targets (thorough tier): fixed work (-runs), seeded, fresh corpus copy per run
fn run_fuzzers(check: &Check, runs_per_worker: u64) -> Vec<RawCase> {
    let mut found = vec![];
    let fuzz_dir_owned = format!("{}/fuzz", std::env::var("VERIF_HARNESS_DIR").unwrap_or_else(|_| "/verif/harness".into()));
    let fuzz_dir = fuzz_dir_owned.as_str();
    let scratch = check.scratch_dir().join("fuzz");
    let _ = std::fs::remove_dir_all(&scratch);
    let _ = std::fs::create_dir_all(&scratch);
    dump_corpus(scratch.join("corpus").to_str().unwrap());
    let build = std::process::Command::new("cargo")
        .args(["+nightly", "fuzz", "build", "--fuzz-dir", "."])
        .current_dir(fuzz_dir)
        .env("CARGO_NET_OFFLINE", "true")
        .output();
    match build {
        Ok(o) if o.status.success() => {}
        other => {
            check.inconclusive(format!("cargo fuzz build failed: {:?}", other.map(|o| String::from_utf8_lossy(&o.stderr).chars().rev().take(400).collect::<String>().chars().rev().collect::<String>())));
            return found;
        }
    }
    for (target, kind) in TARGETS {
        let corpus = scratch.join("corpus").join(target);
        let artifacts = scratch.join("artifacts").join(target);
        let _ = std::fs::create_dir_all(&artifacts);
        // also feed the committed regression inputs
        let reg = std::path::Path::new("/verif/corpus/c05-regressions").join(target);
        let mut args: Vec<String> = vec!["+nightly".into(), "fuzz".into(), "run".into(), "--fuzz-dir".into(), ".".into(), target.into(), corpus.display().to_string()];
        if reg.is_dir() {
            args.push(reg.display().to_string());
        }
        args.extend(
            [
                "--".to_string(),
                format!("-runs={runs_per_worker}"),
                format!("-seed={}", (check.seed % 0x7fff_ffff).max(1)),
                "-max_len=16384".into(),
                "-len_control=0".into(),
                "-timeout=30".into(),
                "-rss_limit_mb=4096".into(),
                "-malloc_limit_mb=1024".into(),
                format!("-artifact_prefix={}/", artifacts.display()),
                format!("-fork={}", check.threads.max(1)),
                "-ignore_crashes=0".into(),
                "-print_final_stats=1".into(),
            ]
            .into_iter(),
        );
        let t0 = std::time::Instant::now();
        let out = std::process::Command::new("cargo").args(&args).current_dir(fuzz_dir).env("CARGO_NET_OFFLINE", "true").output();
        let (ok, tail) = match &out {
            Ok(o) => (o.status.success(), String::from_utf8_lossy(&o.stderr).lines().rev().take(6).collect::<Vec<_>>().join(" | ")),
            Err(e) => (false, e.to_string()),
        };
        let mut n_art = 0;
        if let Ok(rd) = std::fs::read_dir(&artifacts) {
            for f in rd.flatten() {
                if let Ok(data) = std::fs::read(f.path()) {
                    n_art += 1;
                    found.push(RawCase { kind: kind.to_string(), data_hex: hex::encode(data) });
                }
            }
        }
        check.note_section(
            &format!("libfuzzer:{target}"),
            serde_json::json!({"runs_per_worker": runs_per_worker, "workers": check.threads, "wall_s": t0.elapsed().as_secs_f64(), "exit_ok": ok, "artifacts": n_art, "tail": tail.chars().take(600).collect::<String>()}),
        );
        if !ok && n_art == 0 {
            check.inconclusive(format!("libFuzzer run of {target} ended abnormally without an artifact: {}", tail.chars().take(300).collect::<String>()));
        }
    }
    found
}

#[derive(Clone, Debug, Serialize, Deserialize)]
pub struct DeepCase {
    pub entry: String,
    pub depth: u32,
}

fn deep_cases() -> Vec<DeepCase> {
    let mut v = vec![];
    for entry in ["mk:MKMapProof", "key:MkMapProof"] {
        for depth in [10u32, 33, 1000, 20_000, 200_000] {
            v.push(DeepCase { entry: entry.to_string(), depth });
        }
    }
    v
}

/// an MKMapProof<BlockRange> with one sub-proof per level: (empty master proof = 4 zero varints) (1 sub-proof) (key = two
/// zero varints), repeated; the innermost level is cut, which a decoder reports as an error - unless it dies before
fn deep_bytes(depth: u32) -> Vec<u8> {
    let mut b = Vec::with_capacity(depth as usize * 7);
    for _ in 0..depth {
        b.extend_from_slice(&[0, 0, 0, 0, 1, 0, 0]);
    }
    b
}

fn deep_case_fn(c: &DeepCase) -> Report {
    let mut rep = Report::new();
    let Some(entry) = table().iter().find(|e| e.name == c.entry) else {
        rep.discard("unknown entry");
        return rep;
    };
    let kind_name = match entry.kind {
        Kind::Bytes => "Bytes",
        Kind::Str => "Str",
        Kind::Json => "Json",
    };
    let t: Vec<&Entry> = table().iter().filter(|e| e.kind == entry.kind).collect();
    let idx = t.iter().position(|e| e.name == c.entry).unwrap_or(0) as u8;
    let payload = match entry.kind {
        Kind::Bytes => deep_bytes(c.depth),
        _ => hex::encode(deep_bytes(c.depth)).into_bytes(),
    };
    let mut data = vec![idx];
    data.extend_from_slice(&payload);
    let f = std::env::temp_dir().join(format!("deep-{}-{}-{}.bin", std::process::id(), c.entry.replace(':', "_"), c.depth));
    if std::fs::write(&f, &data).is_err() {
        rep.discard("scratch file not writable");
        return rep;
    }
    let out = std::process::Command::new(std::env::current_exe().expect("exe")).args(["C05-raw", kind_name, f.to_str().unwrap_or("")]).output();
    let _ = std::fs::remove_file(&f);
    rep.label(format!("deep:{}:{}", c.entry, c.depth));
    rep.nontrivial(format!("deep|{}|{}", c.entry, c.depth));
    match out {
        Ok(o) if o.status.code() == Some(0) => {
            rep.label("deep:handled");
        }
        Ok(o) if o.status.code() == Some(1) => {
            let txt = String::from_utf8_lossy(&o.stdout);
            rep.violation(format!("deep-nesting:{}", c.entry), format!("{} nested {} levels deep: {}", c.entry, c.depth, txt.lines().last().unwrap_or("").chars().take(300).collect::<String>()));
        }
        Ok(o) => {
            let err = String::from_utf8_lossy(&o.stderr);
            rep.violation(
                format!("process-abort:deep-nesting:{}", c.entry),
                format!("decoding {} nested {} levels deep ({} bytes) kills the process ({:?}): {}", c.entry, c.depth, data.len(), o.status, err.lines().last().unwrap_or("").chars().take(200).collect::<String>()),
            );
        }
        Err(e) => {
            rep.discard(format!("cannot start the probe process: {e}"));
        }
    }
    rep
}

pub fn run(args: &Args) -> i32 {
    let mut check = Check::new("C05", "exploration", args);
    check
        .rule("every entry point of the wire table (stm from_bytes incl. legacy layouts, serde JSON, ProtocolKey strings in both codec orders, MKProof / MKMapProof bincode, OpCert bytes, API messages + conversion into entities) × honest encodings (two registrations, legacy layouts packed by the harness, the repository's golden key strings, Dummy messages) × 0..3 structure-aware mutations (truncation, every 8-byte big-endian field set to {0,1,+1,2^32,2^56-1,2^63,2^64-1}, version byte, splices, CBOR length-header inflation, hex-level damage, JSON number extremes / array growth / type swaps / nested key strings, deep nesting). Non-trivial = mutated input; distinct by (entry point, seed, mutation kinds, verdict, length bucket)")
        .assume("the harness binary is built with overflow checks and debug assertions: an arithmetic overflow in a decoder is a panic here (silent wrap in a production build)")
        .assume("allocation bound = largest single request <= 64*len(input) + 16 MiB, measured by a counting global allocator on the decoding thread; an allocation the OS refuses aborts the process and is then reported as inconclusive by the driver (the libFuzzer layer pins such inputs)")
        .require_label("honest")
        .require_label("accepted")
        .require_label("rejected")
        .require_label("mutated:Bytes")
        .require_label("mutated:Str")
        .require_label("mutated:Json")
        .require_label("mut:B:CborInflate")
        .require_label("mut:B:SetU64")
        .require_label("legacy-field-pair")
        .require_label("honest-key:first-byte-looks-like-json");
    let t = check.tier;
    check.shrink_iters(300);
    let _ = seeds();
    // every honest seed of every entry point, once
    let mut items = vec![];
    for e in table() {
        if let Some(s) = seeds().get(e.name) {
            for i in 0..s.len() {
                let idx = (((i as u64) << 16) / s.len() as u64 + 1).min(65535) as u16;
                items.push(Case { entry: e.name.to_string(), seed_idx: idx, muts: vec![] });
            }
        } else {
            check.inconclusive(format!("entry point {} has no honest seed", e.name));
        }
    }
    check.enumerate("honest", items.into_iter(), false, case_fn);
    // every pair of length/count/value fields of a legacy aggregate × boundary magnitudes (sums of two checked sizes)
    if !check.is_replay() {
        let _ = legacy_seed();
    }
    let nf = if check.is_replay() { 0 } else { legacy_seed().1.len() };
    let mags: Vec<u64> = vec![1 << 57, 1 << 58, 1 << 59, 1 << 60, (1 << 61) - 1, 1 << 61, 1 << 62, 1 << 63, u64::MAX, u64::MAX / 8, u64::MAX / 32 + 1];
    let mut pairs = vec![];
    for a in 0..nf {
        for b in (a + 1)..nf {
            for (i, va) in mags.iter().enumerate() {
                // a diagonal band of magnitude pairs keeps the enumeration at ~10k cases
                for vb in [mags[i], mags[(i + 1) % mags.len()], mags[(i + 3) % mags.len()]] {
                    pairs.push(FieldPair { a, b, va: *va, vb });
                }
            }
        }
    }
    check.enumerate("legacy-field-pairs", pairs.into_iter(), true, field_pair_case);
    check.section("honest-keys", || (any::<u64>(), prop::collection::vec(any::<u8>(), 0..40)).prop_map(|(seed, msg)| HonestKey { seed, msg }), t.pick(4000, 200_000), honest_key_case);
    check.section("mutated", strategy, t.pick(60_000, 3_000_000), case_fn);
    // regression inputs found by the fuzzers earlier (committed), replayed in-process on every run
    let mut raws = vec![];
    for (target, kind) in TARGETS {
        if let Ok(rd) = std::fs::read_dir(std::path::Path::new("/verif/corpus/c05-regressions").join(target)) {
            let mut files: Vec<_> = rd.flatten().map(|f| f.path()).collect();
            files.sort();
            for f in files {
                if let Ok(data) = std::fs::read(&f) {
                    raws.push(RawCase { kind: kind.to_string(), data_hex: hex::encode(data) });
                }
            }
        }
    }
    check.enumerate("fuzz-regressions", raws.into_iter(), false, raw_case_fn);
    // recursion depth: the one recursive wire type (MKMapProof: sub-proofs of sub-proofs) nested 10 .. 200 000 levels
    // deep, in its bincode form and inside a key string. A stack overflow aborts the process, so every probe runs in a
    // fresh process (`p-stm C05-raw`); serde_json and CBOR decoders carry their own recursion limits and are covered
    // by the in-process "deep nesting" mutations.
    if !check.is_replay() {
        check.enumerate("deep-nesting-subprocess", deep_cases().into_iter(), false, deep_case_fn);
    }
    if t == vcore::Tier::Thorough && !check.is_replay() {
        let found = run_fuzzers(&check, t.pick(0, 2_000_000) as u64);
        // every artifact is re-evaluated in a fresh process first (it may abort), then in-process for the replay file
        let exe = std::env::current_exe().unwrap();
        let mut in_process = vec![];
        for (i, rc) in found.iter().enumerate() {
            let f = check.scratch_dir().join(format!("artifact-{i}.bin"));
            let _ = std::fs::write(&f, hex::decode(&rc.data_hex).unwrap_or_default());
            let st = std::process::Command::new(&exe).args(["C05-raw", &rc.kind, f.to_str().unwrap()]).output();
            match st {
                Ok(o) if o.status.code() == Some(0) => {
                    // not reproducible with the deterministic entry function (e.g. ASan-only / timeout): keep as inconclusive
                    check.inconclusive(format!("libFuzzer artifact #{i} ({}) does not reproduce in the deterministic entry function", rc.kind));
                }
                Ok(o) if o.status.code() == Some(1) => in_process.push(rc.clone()),
                _ => {
                    // the process died: abort / allocation failure — a violation that cannot be evaluated in-process
                    let dir = std::path::Path::new("/verif/replays/C05");
                    let _ = std::fs::create_dir_all(dir);
                    let p = dir.join(format!("process-abort-{}-{i}.json", rc.kind));
                    let _ = std::fs::write(&p, serde_json::to_string_pretty(&serde_json::json!({"property":"C05","section":"fuzz-regressions","key":"process-abort","what":"decoding aborts the process","case": rc})).unwrap());
                    check.note_section(&format!("abort-artifact-{i}"), serde_json::json!({"replay": p.display().to_string()}));
                    check.external_violation("process-abort", &format!("decoding this input aborts the process ({} target)", rc.kind), &p.display().to_string());
                }
            }
        }
        check.enumerate("fuzz-artifacts", in_process.into_iter(), false, raw_case_fn);
    }
    check.finish()
}
