//! In-target oracle of the libFuzzer layer of C09 (shared by `harness/fuzz/fuzz_targets/fuzz_mkproof.rs` and c09.rs,
//! which replays every artifact through it in-process).
//!
//! A fixed set of committed trees (sizes covering one, two and three MMR peaks) is built once. The fuzzer's input is
//! the bincode encoding of an `MKProof` (what travels inside transaction / block proofs). If the decoded proof
//! verifies against the root of one of the committed trees, every leaf it lists (= everything `contains` can answer
//! for) must be a leaf of that tree. Values of internal nodes / bagged peaks of the committed tree are the OPEN known
//! finding `internal-node-as-leaf:mktree` (no leaf/node domain separation) and are only counted.

use std::collections::HashSet;
use std::sync::OnceLock;

use mithril_merkle_tree::{MKProof, MKTree, MKTreeNode, MKTreeStoreInMemory};

pub const SIZES: &[usize] = &[1, 2, 3, 4, 5, 6, 7, 8, 11, 13, 16, 21];

pub struct Committed {
    pub n: usize,
    pub root: MKTreeNode,
    pub leaves: Vec<MKTreeNode>,
    leaf_set: HashSet<Vec<u8>>,
    /// internal nodes of every perfect sub-tree and every suffix bag of peaks (excluding leaves)
    internal: HashSet<Vec<u8>>,
}

fn bytes_of(n: &MKTreeNode) -> Vec<u8> {
    hex::decode(n.to_hex()).unwrap_or_default()
}

fn tree_root(leaves: &[MKTreeNode]) -> Option<MKTreeNode> {
    MKTree::<MKTreeStoreInMemory>::new(leaves).ok()?.compute_root().ok()
}

fn build(n: usize) -> Committed {
    let leaves: Vec<MKTreeNode> = (0..n).map(|i| MKTreeNode::new(format!("committed-{n}-{i:04}").into_bytes())).collect();
    let root = tree_root(&leaves).expect("root");
    let leaf_set: HashSet<Vec<u8>> = leaves.iter().map(bytes_of).collect();
    let mut internal = HashSet::new();
    // peaks: perfect trees of decreasing size
    let mut start = 0;
    let mut rest = n;
    let mut peak_starts = vec![];
    while rest > 0 {
        let size = 1usize << (usize::BITS - 1 - rest.leading_zeros());
        peak_starts.push(start);
        // every aligned block of the perfect tree = one internal node (the MMR of 2^h leaves is one perfect tree)
        let mut block = 2;
        while block <= size {
            let mut a = start;
            while a + block <= start + size {
                if let Some(r) = tree_root(&leaves[a..a + block]) {
                    internal.insert(bytes_of(&r));
                }
                a += block;
            }
            block *= 2;
        }
        start += size;
        rest -= size;
    }
    // bags of the last j peaks (the MMR of a suffix that starts at a peak boundary has the same peaks)
    for s in peak_starts {
        if n - s >= 2 {
            if let Some(r) = tree_root(&leaves[s..]) {
                internal.insert(bytes_of(&r));
            }
        }
    }
    for l in &leaf_set {
        internal.remove(l);
    }
    Committed { n, root, leaves, leaf_set, internal }
}

pub fn world() -> &'static Vec<Committed> {
    static W: OnceLock<Vec<Committed>> = OnceLock::new();
    W.get_or_init(|| SIZES.iter().map(|n| build(*n)).collect())
}

#[derive(Debug, PartialEq, Eq)]
pub enum Verdict {
    /// does not decode / does not verify / verifies against a root that is not committed
    Irrelevant,
    /// verifies against a committed root and vouches for committed leaves only
    Sound { leaves: usize },
    /// vouches for internal node values only beyond committed leaves (open known finding)
    KnownInternalNode,
    /// vouches for a value that is neither a committed leaf nor an internal node
    Violation(String),
}

/// Structure-aware decoding of a fuzz input (first byte odd): `[mode, seed, op, a, b, c, op, a, b, c, ...]` = an honest
/// proof of the seed corpus rewritten on its serde view by a list of edits (positions, leaf values, path nodes, size),
/// the values coming from a pool of committed leaves, internal nodes, leaves of the other trees and input-derived bytes.
/// Even first byte: the rest of the input is taken as the bincode encoding itself.
pub fn judge(data: &[u8]) -> Verdict {
    match data.first() {
        None => Verdict::Irrelevant,
        Some(m) if m % 2 == 0 => judge_bytes(&data[1..]),
        Some(_) => match structured(&data[1..]) {
            Some(p) => judge_proof(&p),
            None => Verdict::Irrelevant,
        },
    }
}

fn node_json(n: &MKTreeNode) -> serde_json::Value {
    serde_json::to_value(n).unwrap_or(serde_json::Value::Null)
}

pub fn structured(data: &[u8]) -> Option<MKProof> {
    use serde_json::Value;
    let seeds = seed_corpus_cached();
    let (&sel, mut rest) = data.split_first()?;
    let seed = &seeds[sel as usize % seeds.len()];
    let proof = MKProof::from_bytes(seed).ok()?;
    let c = world().iter().find(|c| &c.root == proof.root())?;
    let mut v = serde_json::to_value(&proof).ok()?;
    // value pool
    let other = &world()[(sel as usize / 7) % world().len()];
    let pool = |k: u8, salt: u8| -> Value {
        match k % 5 {
            0 => node_json(&c.leaves[salt as usize % c.leaves.len()]),
            1 => {
                let mut it: Vec<&Vec<u8>> = c.internal.iter().collect();
                it.sort();
                if it.is_empty() { node_json(&c.root) } else { node_json(&MKTreeNode::new(it[salt as usize % it.len()].clone())) }
            }
            2 => node_json(&other.leaves[salt as usize % other.leaves.len()]),
            3 => node_json(&MKTreeNode::new(format!("foreign-{salt}").into_bytes())),
            _ => node_json(&c.root),
        }
    };
    let mut budget = 12;
    while rest.len() >= 4 && budget > 0 {
        budget -= 1;
        let (op, a, b, k) = (rest[0], rest[1], rest[2], rest[3]);
        rest = &rest[4..];
        let n_leaves = v["inner_leaves"].as_array().map(|x| x.len()).unwrap_or(0);
        let n_items = v["inner_proof_items"].as_array().map(|x| x.len()).unwrap_or(0);
        match op % 10 {
            0 if n_leaves > 0 => {
                // position of a leaf entry: small values, the MMR positions of this tree, huge values
                let pos: u64 = match k % 4 {
                    0 => b as u64,
                    1 => (b as u64) * 2,
                    2 => u64::MAX - b as u64,
                    _ => v["inner_leaves"][b as usize % n_leaves][0].as_u64().unwrap_or(0),
                };
                v["inner_leaves"][a as usize % n_leaves][0] = Value::from(pos);
            }
            1 if n_leaves > 0 => v["inner_leaves"][a as usize % n_leaves][1] = pool(k, b),
            2 if n_leaves > 0 => {
                // a second entry: same position, another value (or a copy), inserted before / after
                let i = a as usize % n_leaves;
                let mut e = v["inner_leaves"][i].clone();
                if k % 3 != 0 {
                    e[1] = pool(k / 3, b);
                }
                let at = if b % 2 == 0 { i } else { i + 1 };
                v["inner_leaves"].as_array_mut()?.insert(at, e);
            }
            3 if n_leaves > 1 => {
                v["inner_leaves"].as_array_mut()?.remove(a as usize % n_leaves);
            }
            4 if n_items > 0 => v["inner_proof_items"][a as usize % n_items] = pool(k, b),
            5 if n_items > 0 => {
                let i = a as usize % n_items;
                if k % 2 == 0 {
                    v["inner_proof_items"].as_array_mut()?.remove(i);
                } else {
                    let e = v["inner_proof_items"][i].clone();
                    v["inner_proof_items"].as_array_mut()?.insert(i, e);
                }
            }
            6 => {
                let size = v["inner_proof_size"].as_u64().unwrap_or(0);
                let nv = match k % 4 {
                    0 => size.wrapping_add(1 + b as u64 % 4),
                    1 => size.saturating_sub(1 + b as u64 % 4),
                    2 => b as u64,
                    _ => u64::MAX - b as u64,
                };
                v["inner_proof_size"] = Value::from(nv);
            }
            7 if n_leaves > 1 => {
                let (i, j) = (a as usize % n_leaves, b as usize % n_leaves);
                v["inner_leaves"].as_array_mut()?.swap(i, j);
            }
            8 if n_items > 1 => {
                let (i, j) = (a as usize % n_items, b as usize % n_items);
                v["inner_proof_items"].as_array_mut()?.swap(i, j);
            }
            9 if n_leaves > 0 => {
                // a path node becomes a leaf entry / a leaf value becomes a path node
                let e = serde_json::json!([b as u64, pool(k, a)]);
                v["inner_leaves"].as_array_mut()?.push(e);
            }
            _ => {}
        }
    }
    serde_json::from_value(v).ok()
}

/// the oracle on the bincode encoding; never panics by itself (a panic inside the code under test propagates: that is a
/// finding too)
pub fn judge_bytes(data: &[u8]) -> Verdict {
    let Ok(proof) = MKProof::from_bytes(data) else { return Verdict::Irrelevant };
    judge_proof(&proof)
}

pub fn judge_proof(proof: &MKProof) -> Verdict {
    if proof.verify().is_err() {
        return Verdict::Irrelevant;
    }
    let Some(c) = world().iter().find(|c| &c.root == proof.root()) else { return Verdict::Irrelevant };
    let listed = proof.leaves();
    let mut known = false;
    for x in &listed {
        // `contains` is the query callers use: it must agree with `leaves`
        if proof.contains(std::slice::from_ref(x)).is_err() {
            return Verdict::Violation(format!("n={}: leaves() lists {} but contains() denies it", c.n, x.to_hex()));
        }
        let b = bytes_of(x);
        if c.leaf_set.contains(&b) {
            continue;
        }
        if c.internal.contains(&b) {
            known = true;
            continue;
        }
        return Verdict::Violation(format!("n={}: a proof verifying against the committed root vouches for {} which is neither a committed leaf nor an internal node", c.n, x.to_hex()));
    }
    if known { Verdict::KnownInternalNode } else { Verdict::Sound { leaves: listed.len() } }
}

/// honest proofs of every committed tree (single leaves, pairs, all leaves): the seed corpus (bincode encodings)
pub fn seed_corpus() -> Vec<Vec<u8>> {
    let mut v = vec![];
    for c in world() {
        let Ok(tree) = MKTree::<MKTreeStoreInMemory>::new(&c.leaves) else { continue };
        let mut selections: Vec<Vec<MKTreeNode>> = vec![c.leaves.clone()];
        for i in 0..c.n {
            selections.push(vec![c.leaves[i].clone()]);
            if i + 1 < c.n {
                selections.push(vec![c.leaves[i].clone(), c.leaves[c.n - 1].clone()]);
            }
        }
        for s in selections {
            if let Ok(p) = tree.compute_proof(&s) {
                if let Ok(b) = p.to_bytes() {
                    v.push(b);
                }
            }
        }
    }
    v
}

pub fn seed_corpus_cached() -> &'static Vec<Vec<u8>> {
    static S: OnceLock<Vec<Vec<u8>>> = OnceLock::new();
    S.get_or_init(seed_corpus)
}

pub fn judge_input(data: &[u8], is_structured: bool) -> Verdict {
    if is_structured {
        match structured(data) {
            Some(p) => judge_proof(&p),
            None => Verdict::Irrelevant,
        }
    } else {
        judge_bytes(data)
    }
}

/// seed corpus of the fuzz target in its input format: raw mode (0 + bincode) and structured mode (1, seed, no edits)
pub fn write_corpus(dir: &std::path::Path) {
    let _ = std::fs::create_dir_all(dir);
    for (i, s) in seed_corpus_cached().iter().enumerate() {
        let mut raw = vec![0u8];
        raw.extend_from_slice(s);
        let _ = std::fs::write(dir.join(format!("raw-{i:03}")), raw);
        if i < 256 {
            let _ = std::fs::write(dir.join(format!("structured-{i:03}")), [1u8, i as u8, 2, 0, 1, 3]);
        }
    }
}
