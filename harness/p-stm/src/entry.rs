//! The table of wire entry points for C05 — shared by the generated layer (c05.rs) and the libFuzzer targets
//! (`/verif/harness/fuzz`, included by `#[path]`).
//!
//! Each entry decodes untrusted input and, when the input is accepted, returns a canonical re-encoding so that the
//! caller can check `decode(encode(decode(x))) == decode(x)`.

use mithril_common::crypto_helper::{
    GenesisEd25519Signature, GenesisEd25519VerificationKey, OpCert, ProtocolAggregateVerificationKeyForConcatenation, ProtocolKey,
    ProtocolMkProof, ProtocolMultiSignature, ProtocolOpCert, ProtocolSignerVerificationKeyForConcatenation,
    ProtocolSignerVerificationKeySignatureForConcatenation, ProtocolSingleSignature,
};
use mithril_common::entities::{BlockRange, Certificate};
use mithril_common::messages::{
    CardanoBlocksProofsMessage, CardanoStakeDistributionMessage, CardanoTransactionsProofsMessage, CardanoTransactionsProofsV2Message,
    CertificateMessage, MithrilStakeDistributionMessage, RegisterSignatureMessageHttp, RegisterSignerMessage, SignerWithStakeMessagePart,
};
use mithril_merkle_tree::{MKMapProof, MKProof};
use mithril_stm::{
    AggregateSignature, AggregateVerificationKeyForConcatenation, Initializer, MithrilMembershipDigest, Parameters, SingleSignature,
    SingleSignatureWithRegisteredParty, VerificationKeyForConcatenation, VerificationKeyProofOfPossessionForConcatenation,
};

type D = MithrilMembershipDigest;

#[derive(Clone, Copy, Debug, PartialEq, Eq)]
pub enum Kind {
    /// raw bytes (`from_bytes`)
    Bytes,
    /// a key string (hex of JSON or hex of bytes; `TryFrom<&str>` / from_json_hex / from_bytes_hex)
    Str,
    /// a JSON document (`Deserialize` + `TryFrom` into the entity)
    Json,
}

pub struct Entry {
    pub name: &'static str,
    pub kind: Kind,
    /// Ok(canonical re-encoding) | Err(reason)
    pub decode: fn(&[u8]) -> Result<Vec<u8>, String>,
}

fn e<T: std::fmt::Display>(x: T) -> String {
    let mut s = x.to_string();
    s.truncate(200);
    s
}

fn utf8(b: &[u8]) -> Result<&str, String> {
    std::str::from_utf8(b).map_err(e)
}

macro_rules! stm_bytes {
    ($name:literal, $ty:ty, $from:expr) => {
        Entry {
            name: $name,
            kind: Kind::Bytes,
            decode: |b| {
                let v: $ty = $from(b).map_err(|x| e(format!("{x:#}")))?;
                v.to_bytes().map_err(|x| e(format!("{x:#}")))
            },
        }
    };
}

macro_rules! key_str {
    ($name:literal, $ty:ty) => {
        Entry {
            name: $name,
            kind: Kind::Str,
            decode: |b| {
                let s = utf8(b)?;
                let k = <$ty>::try_from(s).map_err(|x| e(format!("{x:#}")))?;
                // also exercise the two explicit codecs on the same input
                let _ = <$ty>::from_json_hex(s);
                let _ = <$ty>::from_bytes_hex(s);
                let enc: String = k.try_into().map_err(|x: anyhow::Error| e(format!("{x:#}")))?;
                Ok(enc.into_bytes())
            },
        }
    };
}

macro_rules! json_msg {
    ($name:literal, $msg:ty, $after:expr) => {
        Entry {
            name: $name,
            kind: Kind::Json,
            decode: |b| {
                let m: $msg = serde_json::from_slice(b).map_err(e)?;
                let out = serde_json::to_vec(&m).map_err(e)?;
                #[allow(clippy::redundant_closure_call)]
                ($after)(m);
                Ok(out)
            },
        }
    };
}

pub fn entries() -> Vec<Entry> {
    vec![
        // ---- mithril-stm binary decoders (CBOR v1 envelope or legacy layout)
        stm_bytes!("stm:SingleSignature", SingleSignature, SingleSignature::from_bytes::<D>),
        stm_bytes!("stm:SingleSignatureWithRegisteredParty", SingleSignatureWithRegisteredParty, SingleSignatureWithRegisteredParty::from_bytes::<D>),
        stm_bytes!("stm:AggregateSignature", AggregateSignature<D>, AggregateSignature::<D>::from_bytes),
        stm_bytes!("stm:AggregateVerificationKey", AggregateVerificationKeyForConcatenation<D>, AggregateVerificationKeyForConcatenation::<D>::from_bytes),
        stm_bytes!("stm:Parameters", Parameters, Parameters::from_bytes),
        stm_bytes!("stm:Initializer", Initializer, Initializer::from_bytes),
        Entry {
            name: "stm:VerificationKey",
            kind: Kind::Bytes,
            decode: |b| VerificationKeyForConcatenation::from_bytes(b).map(|k| k.to_bytes().to_vec()).map_err(|x| e(format!("{x:#}"))),
        },
        Entry {
            name: "stm:VerificationKeyPoP",
            kind: Kind::Bytes,
            decode: |b| VerificationKeyProofOfPossessionForConcatenation::from_bytes(b).map(|k| k.to_bytes().to_vec()).map_err(|x| e(format!("{x:#}"))),
        },
        // ---- serde JSON of the stm types
        Entry {
            name: "stm-json:AggregateSignature",
            kind: Kind::Json,
            decode: |b| serde_json::from_slice::<AggregateSignature<D>>(b).map_err(e).and_then(|v| serde_json::to_vec(&v).map_err(e)),
        },
        Entry {
            name: "stm-json:SingleSignature",
            kind: Kind::Json,
            decode: |b| serde_json::from_slice::<SingleSignature>(b).map_err(e).and_then(|v| serde_json::to_vec(&v).map_err(e)),
        },
        Entry {
            name: "stm-json:AggregateVerificationKey",
            kind: Kind::Json,
            decode: |b| serde_json::from_slice::<AggregateVerificationKeyForConcatenation<D>>(b).map_err(e).and_then(|v| serde_json::to_vec(&v).map_err(e)),
        },
        // ---- mithril-common key strings
        key_str!("key:MultiSignature", ProtocolMultiSignature),
        key_str!("key:SingleSignature", ProtocolSingleSignature),
        key_str!("key:AggregateVerificationKey", ProtocolAggregateVerificationKeyForConcatenation),
        key_str!("key:SignerVerificationKey", ProtocolSignerVerificationKeyForConcatenation),
        key_str!("key:KesSignature", ProtocolSignerVerificationKeySignatureForConcatenation),
        key_str!("key:OpCert", ProtocolOpCert),
        key_str!("key:GenesisSignature", GenesisEd25519Signature),
        key_str!("key:GenesisVerificationKey", GenesisEd25519VerificationKey),
        Entry {
            name: "key:MkMapProof",
            kind: Kind::Str,
            decode: |b| {
                let s = utf8(b)?;
                // no default codec for this key: messages carry it as JSON-hex, certificates' tooling as bytes-hex
                let k = ProtocolMkProof::from_json_hex(s).or_else(|_| ProtocolMkProof::from_bytes_hex(s)).map_err(|x| e(format!("{x:#}")))?;
                k.to_json_hex().map(|x| x.into_bytes()).map_err(|x| e(format!("{x:#}")))
            },
        },
        key_str!("key:MkProof", ProtocolKey<MKProof>),
        // ---- Merkle proofs, bincode
        Entry {
            name: "mk:MKProof",
            kind: Kind::Bytes,
            decode: |b| {
                let p = MKProof::from_bytes(b).map_err(|x| e(format!("{x:#}")))?;
                let _ = p.verify();
                p.to_bytes().map_err(|x| e(format!("{x:#}")))
            },
        },
        Entry {
            name: "mk:MKMapProof",
            kind: Kind::Bytes,
            decode: |b| {
                let p = MKMapProof::<BlockRange>::from_bytes(b).map_err(|x| e(format!("{x:#}")))?;
                let _ = p.verify();
                p.to_bytes().map_err(|x| e(format!("{x:#}")))
            },
        },
        Entry {
            name: "bytes:OpCert",
            kind: Kind::Bytes,
            decode: |b| {
                use mithril_common::crypto_helper::{TryFromBytes, TryToBytes};
                let o = OpCert::try_from_bytes(b).map_err(|x| e(format!("{x:#}")))?;
                o.to_bytes_vec().map_err(|x| e(format!("{x:#}")))
            },
        },
        // ---- API messages: Deserialize, then the conversion into the entity the node works with
        json_msg!("msg:Certificate", CertificateMessage, |m: CertificateMessage| {
            if let Ok(c) = Certificate::try_from(m) {
                let _ = c.try_compute_hash();
            }
        }),
        json_msg!("msg:CardanoTransactionsProofs", CardanoTransactionsProofsMessage, |m: CardanoTransactionsProofsMessage| {
            let _ = m.verify();
        }),
        json_msg!("msg:CardanoTransactionsProofsV2", CardanoTransactionsProofsV2Message, |m: CardanoTransactionsProofsV2Message| {
            let _ = m.verify();
        }),
        json_msg!("msg:CardanoBlocksProofs", CardanoBlocksProofsMessage, |m: CardanoBlocksProofsMessage| {
            let _ = m.verify();
        }),
        json_msg!("msg:MithrilStakeDistribution", MithrilStakeDistributionMessage, |m: MithrilStakeDistributionMessage| {
            let _ = SignerWithStakeMessagePart::try_into_signers(m.signers_with_stake);
        }),
        json_msg!("msg:CardanoStakeDistribution", CardanoStakeDistributionMessage, |_m: CardanoStakeDistributionMessage| {}),
        // the aggregator's message adapters convert the key strings of these messages with the key codecs
        json_msg!("msg:RegisterSigner", RegisterSignerMessage, |m: RegisterSignerMessage| {
            let _ = ProtocolSignerVerificationKeyForConcatenation::try_from(m.verification_key_for_concatenation);
            let _ = m.verification_key_signature_for_concatenation.map(ProtocolSignerVerificationKeySignatureForConcatenation::try_from);
            let _ = m.operational_certificate.map(ProtocolOpCert::try_from);
        }),
        json_msg!("msg:RegisterSignature", RegisterSignatureMessageHttp, |m: RegisterSignatureMessageHttp| {
            let _ = ProtocolSingleSignature::try_from(m.signature);
        }),
    ]
}
