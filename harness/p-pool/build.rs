//! Layer 2 of C18 compiles the *working-tree* source of the resource pool a second time, with the blocking
//! primitives of `std::sync` replaced by the schedule-controlled ones of `shuttle` (through `crate::c18::shim`).
//!
//! The only edits made to the text are:
//!   * the import line `sync::{Condvar, Mutex},` of the `use std::{ ... }` block is blanked and
//!     `use crate::c18::shim::{Condvar, Mutex};` is appended at the end,
//!   * `//!` inner doc comments become plain comments (they are not allowed inside `include!`),
//!   * the `#[cfg(test)] mod tests` tail is cut off.
//! Line numbers of the code are preserved. If the import line is not found, or the non-test code mentions any other
//! concurrency / time primitive that the shim does not model, no `c18_rewrite_ok` cfg is emitted and the check
//! ends inconclusive (exit 2) with the reason recorded in `rewrite_status.txt`.

use std::{env, fs, path::PathBuf};

// NB: keep this literal path form: tools/mutant.sh redirects "/repo/" to the scratch worktree by text substitution.
const SRC: &str = "/repo/internal/mithril-resource-pool/src/resource_pool.rs";

const IMPORT_VARIANTS: [&str; 2] = ["    sync::{Condvar, Mutex},", "    sync::{Mutex, Condvar},"];

/// tokens that must not occur in the (comment-stripped) non-test code after the rewrite
const FORBIDDEN: [&str; 14] = [
    "sync::", "thread", "Instant", "SystemTime", "atomic", "Atomic", "parking_lot", "tokio", "RwLock", "unsafe",
    "sleep", "static ", "Cell<", "spawn",
];

fn rewrite(text: &str) -> Result<String, String> {
    // 1. cut the unit tests
    let body = match text.find("#[cfg(test)]\nmod tests") {
        Some(i) => &text[..i],
        None => text,
    };
    // 2. the import line
    let mut lines: Vec<String> = body.lines().map(|l| l.to_string()).collect();
    let hits: Vec<usize> = lines
        .iter()
        .enumerate()
        .filter(|(_, l)| IMPORT_VARIANTS.contains(&l.as_str()))
        .map(|(i, _)| i)
        .collect();
    if hits.len() != 1 {
        return Err(format!(
            "expected exactly one import line `sync::{{Condvar, Mutex}},` in the `use std::{{..}}` block, found {}",
            hits.len()
        ));
    }
    let at = hits[0];
    // it has to sit inside a `use std::{` block
    let opener = lines[..at].iter().rposition(|l| l.starts_with("use "));
    match opener {
        Some(o) if lines[o].trim_end() == "use std::{" && !lines[o..at].iter().any(|l| l.starts_with("};")) => {}
        _ => return Err("the `sync::{Condvar, Mutex}` line is not inside a `use std::{` block".into()),
    }
    lines[at] = String::new();
    // 3. inner doc comments
    for l in lines.iter_mut() {
        if l.trim_start().starts_with("//!") {
            *l = l.replacen("//!", "// ", 1);
        }
    }
    // 4. nothing else the shim does not model
    for (n, l) in lines.iter().enumerate() {
        let code = match l.find("//") {
            Some(i) => &l[..i],
            None => l.as_str(),
        };
        for f in FORBIDDEN {
            if code.contains(f) {
                return Err(format!("line {}: `{}` is not modelled by the shuttle shim: {}", n + 1, f, l.trim()));
            }
        }
    }
    let mut out = lines.join("\n");
    out.push_str("\nuse crate::c18::shim::{Condvar, Mutex};\n");
    Ok(out)
}

fn main() {
    println!("cargo:rerun-if-changed=build.rs");
    println!("cargo:rerun-if-changed={SRC}");
    println!("cargo:rustc-check-cfg=cfg(c18_rewrite_ok)");
    let out_dir = PathBuf::from(env::var("OUT_DIR").unwrap());
    let result = fs::read_to_string(SRC).map_err(|e| format!("cannot read {SRC}: {e}")).and_then(|t| rewrite(&t));
    match result {
        Ok(code) => {
            fs::write(out_dir.join("pool_shuttle.rs"), code).unwrap();
            fs::write(out_dir.join("rewrite_status.txt"), "ok").unwrap();
            println!("cargo:rustc-cfg=c18_rewrite_ok");
        }
        Err(why) => {
            fs::write(out_dir.join("pool_shuttle.rs"), "").unwrap();
            fs::write(out_dir.join("rewrite_status.txt"), &why).unwrap();
            println!("cargo:warning=C18 layer 2 disabled: {why}");
        }
    }
}
